"""Among-site rate categories from the documented definitions (numpy only).

Weibull(shape, scale 1) discretised at the K median quantiles q_k = (2k+1)/(2K):
r_k = (-log(1-q_k))**(1/shape); with an invariant class of proportion p the categories are
(0 with probability p) and the K Weibull categories with probability (1-p)/K each; all
rates are divided by sum_k p_k r_k and multiplied by mu when a relative rate is given."""
import numpy as np


def categories(kind, K=1, shape=None, pinv=None, mu=None):
    if kind == "constant":
        rates = np.array([1.0])
        probs = np.array([1.0])
    elif kind == "invariant":
        rates = np.array([0.0, 1.0])
        probs = np.array([pinv, 1.0 - pinv])
    elif kind == "weibull":
        q = (2.0 * np.arange(K) + 1.0) / (2.0 * K)
        rates = np.power(-np.log1p(-q), 1.0 / shape)
        probs = np.full(K, 1.0 / K)
        if pinv is not None:
            rates = np.concatenate(([0.0], rates))
            probs = np.concatenate(([pinv], probs * (1.0 - pinv)))
    else:
        raise ValueError(kind)
    rates = rates / np.sum(rates * probs)
    if mu is not None:
        rates = rates * mu
    return rates, probs
