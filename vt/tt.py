"""Helpers for driving torchtree through its public routes (JSON specification, call)."""
import copy
import importlib

import torch

_loaded = False


def load_all():
    """import every torchtree module exactly as torchtree.torchtree.main does, so that all
    classes are registered; float64 is set before the first import (see DESIGN 2.1)"""
    global _loaded
    if _loaded:
        return
    torch.set_default_dtype(torch.float64)
    from torchtree.core.utils import package_contents

    for m in sorted(package_contents("torchtree")):
        try:
            importlib.import_module(m)
        except Exception:  # optional plug-ins
            pass
    _loaded = True


def P(id_, values, **kw):
    d = {"id": id_, "type": "Parameter", "tensor": values}
    d.update(kw)
    return d


def build(spec, dic=None):
    """what torchtree.main does with one top-level element: remove comments, expand
    plates, process_objects"""
    load_all()
    from torchtree.core.utils import expand_plates, process_objects, remove_comments

    spec = copy.deepcopy(spec)
    if dic is None:
        dic = {}
    remove_comments(spec)
    expand_plates(spec)
    obj = process_objects(spec, dic)
    return obj, dic


def T(x, dtype=None):
    return torch.tensor(x, dtype=dtype or torch.get_default_dtype())


# ------------------------------------------------------------------ default-dtype route
import contextlib


@contextlib.contextmanager
def default_dtype(dtype):
    """torchtree's entry point sets torch's default dtype (float64 unless --dtype says otherwise) and so does the
    harness, which hides buffers created without a dtype.  A program using the package as a library keeps torch's
    float32 default and gives its Parameters an explicit float64 dtype (the repository's own tests run under the
    float32 default); this context evaluates a case that way.  Only usable for classes that support the mixture
    (the tree likelihood raises a dtype mismatch there, which is a clean rejection, not a wrong number)"""
    import torch

    old = torch.get_default_dtype()
    torch.set_default_dtype(dtype)
    try:
        yield
    finally:
        torch.set_default_dtype(old)


def explicit64(spec):
    """the specification with "dtype": "torch.float64" on every floating-point Parameter"""
    if isinstance(spec, list):
        return [explicit64(x) for x in spec]
    if isinstance(spec, dict):
        d = {k: explicit64(v) for k, v in spec.items()}
        if d.get("type") in ("Parameter", "torchtree.Parameter") and ("tensor" in d or "full" in d or "full_like" in d) and "dtype" not in d:
            d["dtype"] = "torch.float64"
        return d
    return spec
