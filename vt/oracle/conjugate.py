"""Conjugate families: closed-form log marginal likelihoods, posteriors and independent
densities (numpy / scipy only; never imports torchtree or torch).

A *family* describes a block of a model with a d-dimensional latent z and n observations:

    gexp     z_j ~ Gamma(a_j, rate b_j)          x_ij ~ Exponential(rate z_j)
    gpois    z_j ~ Gamma(a_j, rate b_j)          x_ij ~ Poisson(z_j)
    ggam     z_j ~ Gamma(a_j, rate b_j)          x_ij ~ Gamma(shape k_j, rate z_j)
    nn       z_j ~ Normal(m0_j, s0_j)            x_ij ~ Normal(z_j, sigma_j)       (lik "normal")
                                                 x_ij ~ LogNormal(z_j, sigma_j)    (lik "lognormal")
    betabin  z_j ~ Beta(al_j, be_j)              x_ij ~ Binomial(N_ij, z_j)
    mvn      z   ~ MVN(m0, S0)                   x_i  ~ MVN(z, Sigma)

data is always an n x d nested list.  Everything is written per component j and summed,
which is the definition of a product of independent terms.

The variable the variational distribution writes ("sampled variable" u) may differ from the
latent z of the family:  z = g(u) with g in {identity, affine(loc, scale), log}; the density
over u is p(x, g(u)) |g'(u)| and the posterior over u stays in a shipped family
(gamma / normal / log-normal / beta / multivariate normal).
"""
import math

import numpy as np
from scipy import integrate, special, stats

GAMMA_KINDS = ("gexp", "gpois", "ggam")


def _a(x):
    return np.asarray(x, dtype=float)


# --------------------------------------------------------------------------- closed forms
def log_marginal(b):
    """closed-form log marginal likelihood of one block (sum over independent components)"""
    k = b["kind"]
    X = _a(b["data"])  # [n, d]
    n = X.shape[0]
    if k in GAMMA_KINDS:
        a, r = _a(b["a"]), _a(b["b"])
        if k == "gexp":
            a1, r1 = a + n, r + X.sum(0)
            const = 0.0
        elif k == "gpois":
            a1, r1 = a + X.sum(0), r + n
            const = -special.gammaln(X + 1.0).sum(0)
        else:
            sh = _a(b["shape"])
            a1, r1 = a + n * sh, r + X.sum(0)
            const = ((sh - 1.0) * np.log(X) - special.gammaln(sh)).sum(0)
        return float(np.sum(a * np.log(r) - special.gammaln(a) + special.gammaln(a1) - a1 * np.log(r1) + const))
    if k == "nn":
        m0, s0, sg = _a(b["m0"]), _a(b["s0"]), _a(b["sigma"])
        const = 0.0
        if b.get("lik", "normal") == "lognormal":
            const = -np.log(X).sum(0)
            X = np.log(X)
        prec = 1.0 / s0**2 + n / sg**2
        mn = (m0 / s0**2 + X.sum(0) / sg**2) / prec
        sn = prec**-0.5
        v = (
            -0.5 * n * math.log(2 * math.pi)
            - n * np.log(sg)
            - np.log(s0)
            + np.log(sn)
            - (X**2).sum(0) / (2 * sg**2)
            - m0**2 / (2 * s0**2)
            + mn**2 / (2 * sn**2)
            + const
        )
        return float(np.sum(v))
    if k == "betabin":
        al, be = _a(b["alpha"]), _a(b["beta"])
        N = _a(b["N"])
        s, f = X.sum(0), (N - X).sum(0)
        logc = (special.gammaln(N + 1) - special.gammaln(X + 1) - special.gammaln(N - X + 1)).sum(0)
        return float(np.sum(logc + special.betaln(al + s, be + f) - special.betaln(al, be)))
    if k == "mvn":
        m0, S0, Sg = _a(b["m0"]), _a(b["S0"]), _a(b["Sigma"])
        d = m0.shape[0]
        # stacked observations are jointly normal: mean 1 (x) m0, covariance I (x) Sigma + 11' (x) S0
        C = np.kron(np.eye(n), Sg) + np.kron(np.ones((n, n)), S0)
        r = (X - m0).reshape(n * d)
        sign, logdet = np.linalg.slogdet(C)
        return float(-0.5 * r @ np.linalg.solve(C, r) - 0.5 * logdet - 0.5 * n * d * math.log(2 * math.pi))
    raise ValueError(k)


def posterior(b):
    """posterior over the latent z: (qkind, params)"""
    k = b["kind"]
    X = _a(b["data"])
    n = X.shape[0]
    if k in GAMMA_KINDS:
        a, r = _a(b["a"]), _a(b["b"])
        if k == "gexp":
            return "gamma", {"conc": a + n, "rate": r + X.sum(0)}
        if k == "gpois":
            return "gamma", {"conc": a + X.sum(0), "rate": r + n}
        return "gamma", {"conc": a + n * _a(b["shape"]), "rate": r + X.sum(0)}
    if k == "nn":
        m0, s0, sg = _a(b["m0"]), _a(b["s0"]), _a(b["sigma"])
        if b.get("lik", "normal") == "lognormal":
            X = np.log(X)
        prec = 1.0 / s0**2 + n / sg**2
        return "normal", {"loc": (m0 / s0**2 + X.sum(0) / sg**2) / prec, "scale": prec**-0.5}
    if k == "betabin":
        N = _a(b["N"])
        return "beta", {"c1": _a(b["alpha"]) + X.sum(0), "c0": _a(b["beta"]) + (N - X).sum(0)}
    if k == "mvn":
        m0, S0, Sg = _a(b["m0"]), _a(b["S0"]), _a(b["Sigma"])
        P0, Pl = np.linalg.inv(S0), np.linalg.inv(Sg)
        Pn = P0 + n * Pl
        Sn = np.linalg.inv(Pn)
        Sn = 0.5 * (Sn + Sn.T)
        return "mvn", {"loc": Sn @ (P0 @ m0 + Pl @ X.sum(0)), "cov": Sn, "prec": 0.5 * (Pn + Pn.T)}
    raise ValueError(k)


# --------------------------------------------------------------------------- densities (scipy.stats)
def log_joint(b, z):
    """log p(data, z) for z of shape [..., d] -> [...]; plain scipy.stats densities"""
    k = b["kind"]
    z = _a(z)
    X = _a(b["data"])  # [n, d]
    zz = z[..., None, :]  # [..., 1, d] against data [n, d]
    with np.errstate(all="ignore"):
        if k in GAMMA_KINDS:
            lp = stats.gamma.logpdf(z, _a(b["a"]), scale=1.0 / _a(b["b"])).sum(-1)
            if k == "gexp":
                ll = stats.expon.logpdf(X, scale=1.0 / zz)
            elif k == "gpois":
                ll = stats.poisson.logpmf(X, zz)
            else:
                ll = stats.gamma.logpdf(X, _a(b["shape"]), scale=1.0 / zz)
            return lp + ll.sum((-1, -2))
        if k == "nn":
            lp = stats.norm.logpdf(z, _a(b["m0"]), _a(b["s0"])).sum(-1)
            if b.get("lik", "normal") == "lognormal":
                ll = stats.lognorm.logpdf(X, _a(b["sigma"]), scale=np.exp(zz))
            else:
                ll = stats.norm.logpdf(X, zz, _a(b["sigma"]))
            return lp + ll.sum((-1, -2))
        if k == "betabin":
            lp = stats.beta.logpdf(z, _a(b["alpha"]), _a(b["beta"])).sum(-1)
            ll = stats.binom.logpmf(X, _a(b["N"]), zz)
            return lp + ll.sum((-1, -2))
        if k == "mvn":
            Sg = _a(b["Sigma"])
            lp = _mvn_logpdf(z, _a(b["m0"]), _a(b["S0"]))
            ll = 0.0
            for i in range(X.shape[0]):
                ll = ll + _mvn_logpdf(X[i] - z, np.zeros(X.shape[1]), Sg)
            return lp + ll
    raise ValueError(k)


def _mvn_logpdf(x, mean, cov):
    x = _a(x)
    out = stats.multivariate_normal(mean=mean, cov=cov, allow_singular=False).logpdf(x.reshape(-1, x.shape[-1]))
    return np.asarray(out).reshape(x.shape[:-1])


def log_q(qkind, p, u):
    """log q(u) for u of shape [..., d] -> [...]"""
    u = _a(u)
    with np.errstate(all="ignore"):
        if qkind == "gamma":
            return stats.gamma.logpdf(u, _a(p["conc"]), scale=1.0 / _a(p["rate"])).sum(-1)
        if qkind == "normal":
            return stats.norm.logpdf(u, _a(p["loc"]), _a(p["scale"])).sum(-1)
        if qkind == "lognormal":
            return stats.lognorm.logpdf(u, _a(p["scale"]), scale=np.exp(_a(p["loc"]))).sum(-1)
        if qkind == "beta":
            return stats.beta.logpdf(u, _a(p["c1"]), _a(p["c0"])).sum(-1)
        if qkind == "mvn":
            return _mvn_logpdf(u, _a(p["loc"]), _a(p["cov"]))
    raise ValueError(qkind)


def entropy(qkind, p):
    if qkind == "gamma":
        return float(np.sum(stats.gamma.entropy(_a(p["conc"]), scale=1.0 / _a(p["rate"]))))
    if qkind == "normal":
        return float(np.sum(stats.norm.entropy(_a(p["loc"]), _a(p["scale"]))))
    if qkind == "lognormal":
        return float(np.sum(stats.lognorm.entropy(_a(p["scale"]), scale=np.exp(_a(p["loc"])))))
    if qkind == "beta":
        return float(np.sum(stats.beta.entropy(_a(p["c1"]), _a(p["c0"]))))
    if qkind == "mvn":
        return float(stats.multivariate_normal(mean=_a(p["loc"]), cov=_a(p["cov"])).entropy())
    raise ValueError(qkind)


# --------------------------------------------------------------------------- change of the sampled variable
def g_apply(g, u):
    """latent z = g(u) and sum_j log|dz_j/du_j| for the sampled variable u [..., d]"""
    u = _a(u)
    if g is None or g[0] == "id":
        return u, np.zeros(u.shape[:-1])
    if g[0] == "affine":
        loc, scale = float(g[1]), float(g[2])
        return loc + scale * u, np.full(u.shape[:-1], u.shape[-1] * math.log(abs(scale)))
    if g[0] == "log":
        with np.errstate(all="ignore"):
            return np.log(u), -np.log(u).sum(-1)
    raise ValueError(g)


def q_over_u(qkind, p, g):
    """the distribution of u when z = g(u) has distribution (qkind, p)"""
    if g is None or g[0] == "id":
        return qkind, dict(p)
    if g[0] == "affine":
        loc, scale = float(g[1]), float(g[2])
        if qkind == "normal":
            return "normal", {"loc": (_a(p["loc"]) - loc) / scale, "scale": _a(p["scale"]) / abs(scale)}
        if qkind == "gamma" and loc == 0.0 and scale > 0:
            return "gamma", {"conc": _a(p["conc"]), "rate": _a(p["rate"]) * scale}
        if qkind == "beta" and loc == 1.0 and scale == -1.0:
            return "beta", {"c1": _a(p["c0"]), "c0": _a(p["c1"])}
        if qkind == "mvn":
            cov = _a(p["cov"]) / scale**2
            return "mvn", {"loc": (_a(p["loc"]) - loc) / scale, "cov": cov, "prec": np.linalg.inv(cov)}
    if g[0] == "log" and qkind == "normal":
        return "lognormal", {"loc": _a(p["loc"]), "scale": _a(p["scale"])}
    raise ValueError((qkind, g))


def log_joint_u(b, g, u):
    z, ladj = g_apply(g, u)
    return log_joint(b, z) + ladj


# --------------------------------------------------------------------------- objectives from (log p, log q) at the draws
def _lme(x, axis=None):
    """log mean exp"""
    x = _a(x)
    n = x.size if axis is None else x.shape[axis]
    return special.logsumexp(x, axis=axis) - math.log(n)


def objective_candidates(obj, lp, lq, H=None):
    """admissible values of the objective given log p and log q at the draws (arrays of the
    sample shape).  One entry per reading of the definition; the first is the canonical one.

    ELBO [S]         mean(lp - lq);  with analytic entropy  mean(lp) + H
    ELBO [S,K]       mean_S log mean_K exp(lp - lq)                     (documented: multi-sample ELBO)
    VR(alpha) [S]    log mean exp((1-alpha)(lp-lq)) / (1-alpha)         (Li & Turner 2016)
    CUBO(n) [S]      log mean exp(n (lp-lq)) / n                        (Dieng et al. 2017)
    KLpq [S]         sum_s w_s (lp-lq)_s,  w = softmax(lp-lq)           (documented formula)
    For [S,K] shapes of VR / CUBO / KLpq the documentation does not say how the two
    dimensions are reduced; both natural readings are admissible: the estimator over all
    S*K draws, and the average over S of the K-draw estimators.
    """
    lp, lq = _a(lp), _a(lq)
    lw = lp - lq
    t = obj["type"]
    two = lw.ndim == 2
    if t == "ELBO":
        if two:
            return [float(np.mean(_lme(lw, -1)))]
        if obj.get("entropy"):
            return [float(np.mean(lp) + H)]
        return [float(np.mean(lw))]
    if t == "VR":
        al = float(obj.get("alpha", 0.0))
        c = 1.0 - al
        if two:
            return [float(np.mean(_lme(c * lw, -1)) / c), float(_lme(c * lw) / c)]
        return [float(_lme(c * lw) / c)]
    if t == "CUBO":
        n = float(obj.get("n", 2.0))
        if two:
            return [float(_lme(n * lw) / n), float(np.mean(_lme(n * lw, -1)) / n)]
        return [float(_lme(n * lw) / n)]
    if t == "KLpq":
        def est(v):
            w = np.exp(v - special.logsumexp(v))
            return float(np.sum(w * v))

        if two:
            return [float(np.mean([est(r) for r in lw])), est(lw.reshape(-1))]
        return [est(lw)]
    raise ValueError(t)


# --------------------------------------------------------------------------- audit of the closed forms
def audit(b, points=3):
    """max |closed form - (log p(x,z0) - log post(z0))| over a few z0, and (d == 1, n small)
    the difference to numerical quadrature of the joint density"""
    qk, post = posterior(b)
    lz = log_marginal(b)
    d = np.asarray(b["data"]).shape[1]
    if qk == "gamma":
        zs = [post["conc"] / post["rate"] * f for f in (0.5, 1.0, 1.7)]
    elif qk == "beta":
        m = post["c1"] / (post["c1"] + post["c0"])
        zs = [m * 0.7, m, 0.5 * (1 + m)]
    elif qk == "normal":
        zs = [post["loc"] + f * post["scale"] for f in (-1.3, 0.0, 0.8)]
    else:
        zs = [post["loc"] + f * np.sqrt(np.diag(post["cov"])) for f in (-1.0, 0.0, 0.6)]
    err = 0.0
    for z in zs[:points]:
        v = float(log_joint(b, z)) - float(log_q(qk, post, z))
        err = max(err, abs(v - lz) / max(1.0, abs(lz)))
    qerr = None
    if d == 1 and qk != "mvn":
        lo, hi = {"gamma": (0.0, np.inf), "beta": (0.0, 1.0), "normal": (-np.inf, np.inf)}[qk]
        if qk == "normal":
            c, s = float(post["loc"][0]), float(post["scale"][0])
        elif qk == "gamma":
            c, s = float(post["conc"][0] / post["rate"][0]), float(np.sqrt(post["conc"][0]) / post["rate"][0])
        else:
            c, s = float(post["c1"][0] / (post["c1"][0] + post["c0"][0])), 0.1
        f = lambda t: math.exp(float(log_joint(b, np.array([t]))) - lz)  # noqa
        pts = [p for p in (c - 3 * s, c, c + 3 * s) if lo < p < hi]
        a_, b_ = max(lo, c - 40 * s), min(hi, c + 40 * s)
        val, _ = integrate.quad(f, a_, b_, points=pts, limit=400, epsabs=1e-13, epsrel=1e-12)
        qerr = abs(math.log(val))
    return err, qerr
