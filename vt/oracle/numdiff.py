"""Numerical differentiation: central differences + Richardson extrapolation (Ridders'
tableau) with an error estimate.  Pure python / numpy, no torch, no torchtree.

    d, err, info = derivative(f, h0)            f: step t -> value at x + t*direction

The caller owns the parametrisation: `f(t)` evaluates the function at the base point
displaced by `t` along whatever direction is being differentiated (a coordinate, a tangent
direction of a simplex, ...), so that domain constraints stay with the caller.  `h0` is the
largest step that will ever be taken (the caller guarantees that [-h0, h0] stays inside the
domain and far from any non-smooth point).

Tableau (steps h_i = h0 / ratio**i, ratio = 1.7):
    A[i][0] = (f(h_i) - f(-h_i)) / (2 h_i)                                        error O(h_i^2)
    A[i][j] = A[i][j-1] + (A[i][j-1] - A[i-1][j-1]) / ((h_(i-j)/h_i)^2 - 1)       error O(h^(2j+2))
The returned value is the entry with the smallest error estimate
    e[i][j] = max(|A[i][j] - A[i][j-1]|, |A[i][j] - A[i-1][j-1]|)
(Numerical Recipes, dfridr) to which the round-off floor of the difference quotient,
    noise = (3 sigma + 8 eps max|f|) / h_i,
is added, sigma being the *measured* evaluation noise of f (see `derivative`): the returned
`err` is  2 * e + noise  of the chosen entry - an estimate, inflated by a safety factor, never
smaller than what the rounding of f alone can produce.
"""
import math

EPS = 2.220446049250313e-16


def derivative(f, h0, levels=3, max_levels=6, rel_target=1e-9, abs_target=1e-9, f_eps=8.0, probes=6, probe_rel=1e-3, ratio=1.7):
    """Ridders' extrapolation of the central difference quotient of t -> f(t) at t = 0.

    levels      rows always computed
    max_levels  rows are added (dividing the step by `ratio`) while the error estimate exceeds
                rel_target*|d| + abs_target and keeps improving
    ratio       step ratio between rows; deliberately not 2: with steps h0/2^i the perturbed
                arguments share their mantissa and the rounding errors of f at the different rows
                were seen to be coherent (three rows agreeing to 1e-7 on a value that is off by
                2e-5), which defeats the internal error estimate
    probes      number of extra evaluations at h0 (1 + k probe_rel), k = 1..probes (>= 4), used to measure
                the evaluation noise of f itself: fourth differences of these equally spaced values
                contain practically no signal (spacing^4 times the fourth derivative), only rounding
                noise; for independent errors of amplitude sigma their size is sqrt(70) sigma, so
                sigma = max |4th difference| / 8.  The spacing (1e-3 h0) is deliberately much wider than
                one ulp of the argument: the rounding error of a value dominated by cancellation (P(t) of
                a branch of length 1e-8, (exp(g t1) - exp(g t0)) / g at g t = 1e-8) is a staircase whose
                steps are many ulps wide, so points 1e-6 h0 apart share the same error and second
                differences there showed a noise 100 times too small.
                (a rate matrix of order 61 diagonalised numerically has a noise of 1e4 eps, a
                closed form a few eps: no fixed multiple of eps fits both)
    returns (d, err, info) with info = {"rows", "h", "fmax", "noise", "sigma", "evals", "finite"};
    err = 2 x (last correction of the tableau) + noise,  noise = (3 sigma + f_eps eps max|f|) / h.
    """
    if not (h0 > 0 and math.isfinite(h0)):
        raise ValueError("h0 must be positive and finite")
    A = []
    best, best_err, best_h = None, math.inf, h0
    fmax = 0.0
    evals = 0
    finite = True
    sigma = 0.0
    hs = []
    h = h0
    i = 0
    while True:
        fp = float(f(h))
        fm = float(f(-h))
        evals += 2
        if not (math.isfinite(fp) and math.isfinite(fm)):
            finite = False
            break
        fmax = max(fmax, abs(fp), abs(fm))
        if i == 0 and probes >= 4:
            offs = PROBE_OFFSETS[: probes + 1] if probes + 1 <= len(PROBE_OFFSETS) else PROBE_OFFSETS
            pv = [fp]
            for k in offs[1:]:
                pv.append(float(f(h * (1.0 + k * probe_rel))))
                evals += 1
            if all(math.isfinite(v) for v in pv):
                sigma = noise_amplitude_irregular([h * (1.0 + k * probe_rel) for k in offs], pv)
            else:
                finite = False
                break
        row = [(fp - fm) / (2.0 * h)]
        hs.append(h)
        for j in range(1, i + 1):
            fac = (hs[i - j] / h) ** 2  # Neville extrapolation in h^2 to h = 0
            row.append(row[j - 1] + (row[j - 1] - A[i - 1][j - 1]) / (fac - 1.0))
        A.append(row)
        noise = (3.0 * sigma + f_eps * EPS * max(fmax, 1e-300)) / h
        if i == 0 and best is None:
            # a single quotient has no internal estimate; only used when levels == 1
            best, best_err, best_h = row[0], math.inf, h
        row_best = math.inf
        for j in range(1, i + 1):
            e = max(abs(row[j] - row[j - 1]), abs(row[j] - A[i - 1][j - 1]))
            tot = 2.0 * e + noise
            row_best = min(row_best, tot)
            if tot < best_err:
                best, best_err, best_h = row[j], tot, h
        i += 1
        if i >= levels:
            if best_err <= rel_target * abs(best) + abs_target or i >= max_levels:
                break
            if row_best > 2.0 * best_err or noise > best_err:
                break  # halving the step no longer helps: round-off dominates
        h /= ratio
    if not finite:
        return float("nan"), float("inf"), {"rows": i, "h": h, "fmax": fmax, "noise": float("inf"), "sigma": sigma, "evals": evals, "finite": False}
    noise = (3.0 * sigma + f_eps * EPS * max(fmax, 1e-300)) / best_h
    return best, best_err, {"rows": i, "h": best_h, "fmax": fmax, "noise": noise, "sigma": sigma, "evals": evals, "finite": True}


PROBE_OFFSETS = (0.0, 1.0, 2.13, 2.91, 4.27, 5.0, 6.41, 7.19)


def noise_amplitude_irregular(ts, values):
    """amplitude of the rounding noise in evaluations at the unequally spaced abscissae ts of a smooth function: 1.5 x the largest
    residual of a least-squares cubic (8 points, 4 coefficients).  Unequal spacing on purpose: the rounding error of 1 + x and of
    exp(x) for tiny x is a sawtooth in x, and equally spaced samples of a sawtooth are again (nearly) linear - aliasing - so that
    fourth differences of equally spaced probes reported 1e-15 for a value with 1e-7 of such noise."""
    import numpy as np

    t = np.asarray(ts, dtype=float)
    v = np.asarray(values, dtype=float)
    if t.size < 6 or not np.all(np.isfinite(v)):
        return 0.0
    u = (t - t.mean()) / (np.ptp(t) or 1.0)
    co = np.polyfit(u, v - v.mean(), 3)
    return 1.5 * float(np.max(np.abs(v - v.mean() - np.polyval(co, u))))


def noise_amplitude(values):
    """amplitude of the rounding noise in equally spaced evaluations of a smooth function: largest fourth difference / 8"""
    v = [float(x) for x in values]
    if len(v) < 5:
        return 0.0
    return max(abs(v[k] - 4.0 * v[k + 1] + 6.0 * v[k + 2] - 4.0 * v[k + 3] + v[k + 4]) for k in range(len(v) - 4)) / 8.0


def gradient(fun, x, h, **kw):
    """coordinate-wise derivative of fun: list[float] -> float at x with steps h[i];
    returns (grad, err) lists.  Convenience for tests and small problems."""
    g, e = [], []
    x = [float(v) for v in x]
    for i in range(len(x)):
        def f(t, i=i):
            y = list(x)
            y[i] += t
            return fun(y)
        d, err, _ = derivative(f, h[i] if hasattr(h, "__len__") else h, **kw)
        g.append(d)
        e.append(err)
    return g, e


def selftest():
    """known derivatives, including one with a nearby singularity and one dominated by round-off"""
    d, err, _ = derivative(lambda t: math.exp(1.0 + t), 1e-2)
    assert abs(d - math.e) <= err and err < 1e-9, (d, err)
    d, err, _ = derivative(lambda t: math.log(0.01 + t), 0.01 / 16)
    assert abs(d - 100.0) <= err and err < 1e-4, (d, err)
    d2, err2, _ = derivative(lambda t: math.exp(1.0 + t), 1e-2, ratio=2.0)
    assert abs(d2 - math.e) <= err2 and err2 < 1e-9, (d2, err2)
    d, err, _ = derivative(lambda t: math.sin(3.0 * (0.5 + t)) * 1e3, 1e-3)
    assert abs(d - 3e3 * math.cos(1.5)) <= err and err < 1e-6, (d, err)
    # large offset: the estimate must grow with the round-off of f
    d, err, info = derivative(lambda t: 1e8 + (2.0 + t) ** 2, 1e-4)
    assert abs(d - 4.0) <= err and err >= info["noise"] > 1e-5, (d, err, info)
    g, e = gradient(lambda v: v[0] * v[1] ** 2, [2.0, 3.0], [1e-3, 1e-3])
    assert abs(g[0] - 9.0) <= e[0] + 1e-12 and abs(g[1] - 12.0) <= e[1] + 1e-12, (g, e)
    # a kink inside the stencil is visible as a large error estimate
    d, err, _ = derivative(lambda t: abs(t - 1e-4), 1e-3, max_levels=3)
    assert err > 1e-2, (d, err)
