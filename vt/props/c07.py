"""C07 - every change of variables reports its true log-Jacobian and inverse.

Aspects (they are the first component of every failure kind and the `aspect` tag):
  forward          documented formula of the forward map (numpy), where a docstring gives one
  ladj             reported log|det J| (summed over the event dimension) == slogdet(autodiff Jacobian)
  ladj_shape       the reported value has neither the batch shape nor the shape of x
  inverse          inv(T(x)) == x
  batched_forward / batched_ladj / batched_inverse     batched call == per-slice calls
  tp_call / tp_value     TransformedParameter() / .tensor for the current value (initial and after an update)
  model_call       ReparameterizedTimeTreeModel() for the current value (initial and after an update)
  inplace_value / inplace_call / inplace_model   history evaluate -> leaf tensors modified IN PLACE under
                   torch.no_grad() (optimizer.step() style) -> fire_parameter_changed() -> evaluate: .tensor, the
                   call and the tree model's call equal those of a fresh object built at the new values
Sub-check `extreme` (element-wise and cumulative transforms, |x| up to 40, positives 1e-17..1e17, float64 and
float32) compares with the documented formulas evaluated by mpmath at 60 digits on the exact floating-point inputs:
  x_forward        T(x) vs documented forward map
  x_ladj           reported log-Jacobian vs documented derivative formula
  x_inverse        inv(y) vs documented inverse at the exact y the transform produced
  x_roundtrip      inv(T(x)) vs x
  tp_setter        TransformedParameter.tensor = y stores inv(y); the call then reports the log-Jacobian there
Sub-check `large` (transforms whose size grows with the tree or the vector: LogDifferenceRate, both node-height
transforms, the cumulative-sum family, stick-breaking; 9..200 taxa / 30..400 entries, values over many decades,
float64 and float32 as the default dtype):
  large_ladj       reported log-Jacobian vs slogdet of the autograd Jacobian of the same specification in float64
                   (vs the product-free documented formula - sums of logs - beyond 320 entries)
  large_oracles    the two oracles disagree (the forward map is not the documented one)
A method raising NotImplementedError is "not provided" (label), never a failure.
"""
import math

import numpy as np
import torch
from hypothesis import strategies as st

from vt import tt
from vt.cmp import arr
from vt.gen.basic import fl, logu
from vt.runner import Res, Sub, raises_kind

PROPERTY = "C07"
LEVEL = "exploration"
RULE = (
    "Hypothesis draws (transform class, dimension 1..8, batch shape [] or [B<=4], an interior point x and a "
    "second point x2 of the domain: reals in [-5,5], positives log-uniform 1e-3..1e3, ratios in [0.01,0.99], "
    "root height = oldest tip + log-uniform 1e-2..1e2, shifts log-uniform 1e-3..10); tree transforms get a "
    "random rooted binary topology (random joins, 2..16 taxa, 2..24 in thorough) written as newick with an "
    "independent Taxa order and sampling dates isochronous / ages (min 0) / calendar years on a 0.5 grid "
    "(ties common). Every transform is obtained through the JSON route (TransformedParameter or "
    "ReparameterizedTimeTreeModel specification -> process_objects), x optionally split over two parameters "
    "(CatParameter; the node-height ratio transform with ratios and root height in one single Parameter or as a "
    "list of two), cache_size not given or given explicitly as 0 / 1 where the constructor accepts it. Non-trivial = (dimension >= 2 or tree with >= 3 taxa) and x not the zero vector; "
    "distinct = (class, options, topology/dates, batch shape, rounded x and x2 - both points are checked). "
    "Sub-check 'extreme': class in SoftPlus / CumSumSoftPlus / CumSumExp / CumSum / Log / TrilExpDiagonal / torch Exp / "
    "Sigmoid, dtype float64 or float32, dimension 1..8, elements from a mixture of [-40,40], its outer halves and "
    "[-5,5] (positives log-uniform 1e-17..1e17 and its outer thirds; float32 cumulative transforms [-10,10] so that "
    "cumulative sums stay below log(float32 max)), rounded to the dtype; non-trivial there = some |x_i| > 20 "
    "(> 8 in float32) or < 1e-8 and the documented forward value representable in the dtype. "
    "Sub-check 'large': Hypothesis draws (kind, dtype, size 9..200 taxa (300 thorough) or 30..400 entries, topology "
    "shape random joins / caterpillar / balanced, dates, the decade range of the values: rates and shifts 1e-6..1e3, "
    "ratios 1e-3..1, increments +-0.1..3, and a seed); the instance (newick, dates, values) is a deterministic "
    "function of that case (numpy RandomState(seed)); non-trivial there = at least 60 entries."
)
ASSUMPTIONS = [
    "the oracle Jacobian is torch.autograd.functional.jacobian of the transform's own forward map, per slice, "
    "float64; its log|det| is taken with numpy slogdet; tolerance 1e-8 absolute + 64 eps cond_1(J)",
    "element-wise transforms report per element: the reported value is summed over the last (event) dimension; "
    "StickBreaking: Jacobian of the first K-1 outputs; TrilExpDiagonal: Jacobian of the lower-triangular entries",
    "inverse tolerance 1e-10 max(1,|x|) + 1e3 eps |J^-1| max(1,|y|) (first-order conditioning of the inverse); "
    "points whose Jacobian has cond_1 > 1e10 are not asserted for the inverse (label illcond)",
    "NotImplementedError from log_abs_det_jacobian / inverse = 'not provided' (counted in labels, not a violation): "
    "TrilExpDiagonal (ladj), LinearTransform, RescaledRateTransform, LogDifferenceRate (inverse)",
    "ConvexCombinationTransform is not generated: it is declared non-bijective (maps onto a hyperplane, "
    "singular Jacobian), so the property's 'invertible transform' does not cover it",
    "TrilExpDiagonalTransform is only called unbatched (its forward map reads the dimension from x.shape[0]; "
    "sample dimensions are C10's subject)",
    "ComposeTransform is generated only from torch's element-wise parts (no composition is shipped by torchtree)",
    "torch.max ties in DifferenceNodeHeightTransform (k=0) may be generated: the Jacobian stays unit-triangular "
    "whichever sub-gradient autograd takes, so the log-determinant is still 0",
    "transforms with their own Parameter arguments are not updated through those arguments (C11's subject)",
    "an explicit cache_size is only written into a specification when every constructor argument before it is "
    "also given (Affine gets event_dim=0, Difference k=0.0, Linear only with a bias): TransformedParameter.from_json "
    "passes the listed arguments by position, so an omitted earlier argument would receive the cache size",
    "extreme regions: the reference is the documented formula in mpmath (60 digits) at the exact floating-point "
    "argument; tolerance = floor max(1,|G|) + 16 eps (|G_i| + sum_j |dG_i/dz_j||z_j|), floor 1e-8 (float64, the "
    "property's tolerance) / 1e-5 (float32): the second term is what a componentwise backward-stable evaluation "
    "delivers, including the information lost by rounding y (round trip)",
    "the floor means relative accuracy of tiny values is not asserted by itself (torch's softplus switches to the "
    "identity above 20, abs. error 2e-9; it shows only when the inverse amplifies it beyond the floor)",
    "points where the documented forward value overflows or is subnormal in the dtype are skipped and counted "
    "(label skipped:documented_forward_out_of_range); not generated: constrained softplus values above "
    "log(dtype max) (88.7 float32 / 709.8 float64), where expm1 in the inverses overflows",
    "torch's Power / Affine / StickBreaking / Compose and the tree transforms are exercised in moderate ranges only "
    "in the sub-check 'extreme'",
    "large instances: tolerance = 16 eps_dtype S (+ 1e-8 max(1,|G|) in float64), S = sensitivity sum of the documented "
    "formula (sum |terms| + size, the cancellation factors (|h_parent|+|bound|)/(h_parent-bound) x depth for the ratio "
    "transform, cumulative |x| for the cumulative family, i for the i-th stick); float32 is run with float32 as "
    "the default dtype (the library's default) and its oracle is the float64 twin of the same specification",
    "torch's softplus is the identity above 20: where the autograd oracle differentiates it (SoftPlus, "
    "CumSumSoftPlus) exp(-20) = 2.1e-9 per element beyond the switch is added to the tolerance",
    "large instances whose documented value is not representable in the dtype are skipped and counted: a node height "
    "within 1024 eps of its bound or below 1e3 x the smallest normal (a zero-length branch in that dtype), cumulative "
    "sums beyond log(dtype max), stick lengths below the smallest normal",
]

EPS = 2.220446049250313e-16
FULL = {
    "CumSumTransform": "torchtree.distributions.transforms.CumSumTransform",
    "CumSumExpTransform": "torchtree.distributions.transforms.CumSumExpTransform",
    "SoftPlusTransform": "torchtree.distributions.transforms.SoftPlusTransform",
    "CumSumSoftPlusTransform": "torchtree.distributions.transforms.CumSumSoftPlusTransform",
    "LogTransform": "torchtree.distributions.transforms.LogTransform",
    "TrilExpDiagonalTransform": "torchtree.distributions.transforms.TrilExpDiagonalTransform",
    "LinearTransform": "torchtree.distributions.transforms.LinearTransform",
    "ExpTransform": "torch.distributions.ExpTransform",
    "SigmoidTransform": "torch.distributions.SigmoidTransform",
    "AffineTransform": "torch.distributions.AffineTransform",
    "StickBreakingTransform": "torch.distributions.StickBreakingTransform",
    "PowerTransform": "torch.distributions.PowerTransform",
    "GeneralNodeHeightTransform": "torchtree.evolution.tree_height_transform.GeneralNodeHeightTransform",
    "DifferenceNodeHeightTransform": "torchtree.evolution.tree_height_transform.DifferenceNodeHeightTransform",
    "LogDifferenceRateTransform": "torchtree.evolution.rate_transform.LogDifferenceRateTransform",
    "RescaledRateTransform": "torchtree.evolution.rate_transform.RescaledRateTransform",
}
REGISTERED_SHORT = {
    "CumSumExpTransform", "LogTransform", "TrilExpDiagonalTransform", "LinearTransform",
    "LogDifferenceRateTransform", "RescaledRateTransform",
}
POSITIVE = {"LogTransform", "PowerTransform"}
VECTOR_CLASSES = [
    "CumSumTransform", "CumSumExpTransform", "SoftPlusTransform", "CumSumSoftPlusTransform", "LogTransform",
    "TrilExpDiagonalTransform", "LinearTransform", "ExpTransform", "SigmoidTransform", "AffineTransform",
    "StickBreakingTransform", "PowerTransform", "ComposeTransform",
]
COMPOSE_MENU = ["affine_exp", "exp_affine", "sigmoid_affine", "affine_sigmoid_affine"]


# --------------------------------------------------------------------------- generators
def _real():
    return fl(-5.0, 5.0)


def _pos():
    return logu(1e-3, 1e3)


@st.composite
def _points(draw, elem, rows, d):
    return [[draw(elem) for _ in range(d)] for _ in range(rows)]


@st.composite
def _batch(draw):
    return draw(st.sampled_from([[], [], [1], [2], [3], [4]]))


def _cache():
    """cache_size of the transform: not given (the constructor's default) or given explicitly as 0 / 1"""
    return st.sampled_from([None, None, None, 0, 1])


@st.composite
def vector_cases(draw, classes=None):
    cls = draw(st.sampled_from(classes or VECTOR_CLASSES))
    c = {"cls": cls, "par": {}}
    c["short"] = bool(cls in REGISTERED_SHORT and draw(st.booleans()))
    if cls == "TrilExpDiagonalTransform":
        m = draw(st.integers(1, 4))
        d = m * (m + 1) // 2
        c["batch"] = []
    else:
        d = draw(st.integers(1, 8))
        c["batch"] = draw(_batch())
    c["d"] = d
    rows = c["batch"][0] if c["batch"] else 1
    elem = _pos() if cls in POSITIVE else _real()
    if cls == "StickBreakingTransform":
        elem = fl(-3.0, 3.0)
    c["x"] = draw(_points(elem, rows, d))
    c["x2"] = draw(_points(elem, rows, d))
    c["split"] = draw(st.integers(1, d - 1)) if d > 1 and draw(st.booleans()) else 0
    sgn = st.sampled_from([1.0, 1.0, -1.0])
    if cls == "AffineTransform":
        c["par"] = {"loc": draw(fl(-10.0, 10.0)), "scale": draw(logu(0.05, 20.0)) * draw(sgn),
                    "loc_param": draw(st.booleans())}
    elif cls == "PowerTransform":
        c["par"] = {"exponent": draw(logu(0.2, 4.0)) * draw(sgn)}
    elif cls == "LinearTransform":
        c["par"] = {"weight": draw(_points(fl(-2.0, 2.0), d, d)), "bias": draw(_points(_real(), 1, d))[0],
                    "has_bias": draw(st.booleans())}
    elif cls == "ComposeTransform":
        c["par"] = {"parts": draw(st.sampled_from(COMPOSE_MENU)), "loc": draw(fl(-3.0, 3.0)),
                    "scale": draw(logu(0.1, 3.0)) * draw(sgn), "loc2": draw(fl(-3.0, 3.0)),
                    "scale2": draw(logu(0.1, 10.0)) * draw(sgn)}
    c["cache"] = draw(_cache())
    if cls == "LinearTransform" and not c["par"]["has_bias"]:
        c["cache"] = None  # from_json passes arguments by position: cache_size would land in `bias`
    return c


def newick_from(names, joins):
    items = list(names)
    for i, j in joins:
        a = items.pop(i % len(items))
        b = items.pop(j % len(items))
        items.append("(%s,%s)" % (a, b))
    return items[0] + ";"


def parse_newick(nw):
    """nested lists of leaf names for the restricted newick this module writes: (a,(b,c));"""
    pos = [0]

    def node():
        if nw[pos[0]] == "(":
            pos[0] += 1
            kids = [node()]
            while nw[pos[0]] == ",":
                pos[0] += 1
                kids.append(node())
            pos[0] += 1  # ")"
            return kids
        j = pos[0]
        while nw[j] not in ",();":
            j += 1
        name = nw[pos[0]:j]
        pos[0] = j
        return name

    return node()


def parent_map(tree):
    """parent[i] of every node under the documented numbering (DESIGN A.1): leaf = position in the Taxa list,
    internal nodes n..2n-2 in post-order with children left to right, root = 2n-2"""
    n = tree["n"]
    leaf = {nm: i for i, nm in enumerate(tree["taxa"])}
    parent = {}
    counter = [n]

    def visit(nd):
        if isinstance(nd, str):
            return leaf[nd]
        kids = [visit(k) for k in nd]
        me = counter[0]
        counter[0] += 1
        for k in kids:
            parent[k] = me
        return me

    root = visit(parse_newick(tree["newick"]))
    return parent, root


@st.composite
def trees(draw, max_n):
    """random rooted binary topology by random joins; names, Taxa order and dates are independent draws"""
    n = draw(st.one_of(st.integers(3, min(6, max_n)), st.integers(2, max_n)))
    joins = [[draw(st.integers(0, m - 1)), draw(st.integers(0, m - 2))] for m in range(n, 1, -1)]
    mode = draw(st.sampled_from(["iso", "ages", "ages", "calendar"]))
    if mode == "iso":
        dates = [0.0] * n
    else:
        g = [draw(st.integers(0, 12)) for _ in range(n)]
        lo = min(g)
        if mode == "ages":
            dates = [0.5 * (v - lo) for v in g]
            if max(dates) == 0.0:
                mode = "iso"
        else:
            base = draw(st.sampled_from([1.0, 1990.0, 2000.5]))
            dates = [base + 0.5 * v for v in g]
    style = draw(st.sampled_from(["t", "dated", "under"]))
    if style == "t":
        names = ["t%d" % i for i in range(n)]
    elif style == "dated":
        names = ["S%d_%s" % (i, repr(dates[i])) for i in range(n)]
    else:
        names = ["a_b_%d" % i for i in range(n)]
    order = draw(st.permutations(list(range(n))))
    # newick uses leaf k = names[k]; the Taxa list is a permutation of the same names (with their dates)
    return {
        "n": n,
        "newick": newick_from(names, joins),
        "taxa": [names[k] for k in order],
        "dates": [dates[k] for k in order],
        "mode": mode,
    }


@st.composite
def _height_points(draw, tree, param, rows):
    n = tree["n"]
    span = max(tree["dates"]) - min(tree["dates"])
    out = []
    for _ in range(rows):
        if param == "ratio":
            out.append([draw(fl(0.01, 0.99)) for _ in range(n - 2)] + [span + draw(logu(1e-2, 1e2))])
        else:
            out.append([draw(logu(1e-3, 10.0)) for _ in range(n - 1)])
    return out


@st.composite
def height_cases(draw, max_n=16):
    tree = draw(trees(max_n))
    param = draw(st.sampled_from(["ratio", "ratio", "shift", "shift_k"]))
    c = {"tree": tree, "param": param, "batch": draw(_batch())}
    rows = c["batch"][0] if c["batch"] else 1
    c["k"] = draw(logu(0.1, 50.0)) if param == "shift_k" else 0.0
    c["x"] = draw(_height_points(tree, param, rows))
    c["x2"] = draw(_height_points(tree, param, rows))
    # ratios and root height of the TransformedParameter in one single Parameter, or as a list of two
    c["single"] = draw(st.booleans())
    c["cache"] = draw(_cache())
    return c


@st.composite
def rate_cases(draw, max_n=12):
    tree = draw(trees(max_n))
    cls = draw(st.sampled_from(["LogDifferenceRateTransform", "LogDifferenceRateTransform", "RescaledRateTransform"]))
    c = {"tree": tree, "cls": cls, "batch": draw(_batch()), "short": draw(st.booleans())}
    rows = c["batch"][0] if c["batch"] else 1
    d = 2 * tree["n"] - 2
    n = tree["n"]
    span = max(tree["dates"]) - min(tree["dates"])
    c["heights"] = [draw(fl(0.05, 0.95)) for _ in range(n - 2)] + [span + draw(logu(1e-1, 1e1))]
    c["x"] = draw(_points(logu(1e-3, 1e3), rows, d))
    c["x2"] = draw(_points(logu(1e-3, 1e3), rows, d))
    c["mu"] = draw(logu(1e-3, 1e1))
    c["cache"] = draw(_cache())
    return c


# --------------------------------------------------------------------------- helpers
def _shape_rows(rows, batch):
    """list of rows -> nested list of shape batch + (d,)"""
    return rows if batch else rows[0]


def _T(rows, batch):
    t = torch.tensor(rows, dtype=torch.float64).reshape(len(rows), -1)
    return t if batch else t[0]


def _try(fn):
    """call one method of the code under test: (value, None), ('NI', None) for NotImplementedError, (None, exc)"""
    try:
        return fn(), None
    except NotImplementedError:
        return "NI", None
    except Exception as e:  # noqa - anything else out of a transform call is a finding
        return None, e


def _notprov(v):
    return isinstance(v, str)


def _reduce(ladj, xshape):
    """sum the reported value over the event (last) dimension; None when the shape is neither"""
    xs = tuple(xshape)
    if tuple(ladj.shape) == xs[:-1]:
        return ladj
    if tuple(ladj.shape) == xs:
        return ladj.sum(-1)
    return None


def _jac(T, x1, outmap):
    J = torch.autograd.functional.jacobian(lambda z: outmap(T(z)).reshape(-1), x1.clone())
    return arr(J).reshape(-1, x1.numel())


def oracle_logdet(J):
    """(log|det J|, cond_1, |J^-1|) or None for a non-square / singular / non-finite Jacobian"""
    if J.shape[0] != J.shape[1] or not np.all(np.isfinite(J)):
        return None
    sign, ld = np.linalg.slogdet(J)
    if sign == 0 or not np.isfinite(ld):
        return None
    try:
        Ji = np.linalg.inv(J)
    except np.linalg.LinAlgError:
        return None
    cond = float(np.abs(J).sum(0).max() * np.abs(Ji).sum(0).max())
    return float(ld), cond, np.abs(Ji)


def _outmap(cls):
    if cls == "StickBreakingTransform":
        return lambda y: y[..., :-1]
    if cls == "TrilExpDiagonalTransform":
        def f(y):
            i = torch.tril_indices(y.shape[-1], y.shape[-1])
            return y[i[0], i[1]]
        return f
    return lambda y: y


def _close(a, b, rel=1e-12):
    a, b = arr(a), arr(b)
    if a.shape != b.shape:
        return False
    if a.size == 0:
        return True
    if not (np.all(np.isfinite(a)) and np.all(np.isfinite(b))):
        return False
    return bool(np.all(np.abs(a - b) <= rel * np.maximum(1.0, np.maximum(np.abs(a), np.abs(b)))))


def _fail(res, aspect, what, detail, exc=None):
    kind = "%s:%s" % (aspect, raises_kind(exc) if exc is not None else what)
    if exc is not None:
        detail = dict(detail, message=str(exc)[:300])
    res.fail(kind, detail, aspect=aspect)


SOFTPLUS_SWITCH = 2.1e-9  # exp(-20): torch's softplus is the identity above its threshold 20


def _softplus_allowance(cls, x1):
    """torch.nn.functional.softplus returns its argument above 20, so the forward map the autograd oracle
    differentiates (and -softplus(-c) in a reported value) is off by up to exp(-20) per element there"""
    if cls == "CumSumSoftPlusTransform":
        v = np.cumsum(arr(x1).reshape(-1))
    elif cls == "SoftPlusTransform":
        v = arr(x1).reshape(-1)
    else:
        return 0.0
    return SOFTPLUS_SWITCH * float(np.sum(np.abs(v) > 20.0))


def check_transform(res, cls, T, X, batch, labels, forward_ref=None, sort_forward=False):
    """aspects forward / ladj / inverse / batched_* of one transform object at the points X (rows)"""
    outmap = _outmap(cls)
    rows = X.reshape(-1, X.shape[-1]) if batch else X.reshape(1, -1)
    per = []
    for i in range(rows.shape[0]):
        x1 = rows[i]
        d = {"slice": i, "x": x1.tolist()}
        y1, e = _try(lambda: T(x1))
        if e is not None or _notprov(y1):
            _fail(res, "forward", "not_provided", d, e)
            return None
        if not bool(torch.all(torch.isfinite(y1))):
            _fail(res, "forward", "nonfinite", dict(d, y=y1.tolist()))
            return None
        if forward_ref is not None:
            ref = forward_ref(arr(x1))
            if ref is not None and not _close(torch.sort(y1)[0] if sort_forward else y1, ref, 1e-11):
                _fail(res, "forward", "mismatch", dict(d, y=y1.tolist(), documented=np.asarray(ref).tolist()))
        J = _jac(T, x1, outmap)
        o = oracle_logdet(J)
        # (1) log-Jacobian
        l1, e = _try(lambda: T.log_abs_det_jacobian(x1, y1))
        lred = None
        if e is not None:
            _fail(res, "ladj", "", d, e)
        elif _notprov(l1):
            labels.add("ladj:not_provided")
        else:
            lred = _reduce(l1, x1.shape)
            if lred is None:
                _fail(res, "ladj_shape", "shape", dict(d, reported_shape=list(l1.shape), x_shape=list(x1.shape)))
            elif o is None:
                labels.add("ladj:singular_jacobian")
            else:
                tol = 1e-8 + 64 * EPS * o[1] + _softplus_allowance(cls, x1)
                if not abs(float(lred) - o[0]) <= tol:
                    _fail(res, "ladj", "mismatch", dict(d, reported=float(lred), autodiff=o[0], tol=tol))
                labels.add("ladj:checked")
        # (2) inverse
        itol = None
        xi, e = _try(lambda: T.inv(y1))
        if e is not None:
            _fail(res, "inverse", "", d, e)
            xi = None
        elif _notprov(xi):
            labels.add("inverse:not_provided")
            xi = None
        elif o is None or o[1] > 1e10:
            labels.add("inverse:illcond")
        else:
            ya = np.maximum(1.0, np.abs(arr(outmap(y1)).reshape(-1)))
            tol = itol = 1e-10 * np.maximum(1.0, np.abs(arr(x1))) + 1e3 * EPS * (o[2] @ ya)
            if tuple(xi.shape) != tuple(x1.shape) or not np.all(np.abs(arr(xi) - arr(x1)) <= tol):
                _fail(res, "inverse", "mismatch", dict(d, inverse=xi.tolist(), maxtol=float(np.max(tol))))
            labels.add("inverse:checked")
        per.append((y1, lred, xi, itol))
    # (5) batched == per slice
    if batch:
        d = {"x": X.tolist()}
        Y, e = _try(lambda: T(X))
        if e is not None or _notprov(Y):
            _fail(res, "batched_forward", "not_provided", d, e)
            return per
        want = torch.stack([p[0] for p in per]).reshape((X.shape[0],) + tuple(per[0][0].shape))
        if not _close(Y, want):
            _fail(res, "batched_forward", "mismatch", dict(d, batched=Y.tolist(), per_slice=want.tolist()))
            return per
        if all(p[1] is not None for p in per):
            L, e = _try(lambda: T.log_abs_det_jacobian(X, Y))
            if e is not None or _notprov(L):
                _fail(res, "batched_ladj", "not_provided", d, e)
            else:
                Lr = _reduce(L, X.shape)
                want = torch.stack([p[1].reshape(()) for p in per])
                if Lr is None or not _close(Lr, want, 1e-11):
                    _fail(res, "batched_ladj", "mismatch", dict(d, batched=L.tolist(), per_slice=want.tolist()))
        if all(p[2] is not None for p in per):
            Xi, e = _try(lambda: T.inv(Y))
            if e is not None or _notprov(Xi):
                _fail(res, "batched_inverse", "not_provided", d, e)
            else:
                want = torch.stack([p[2] for p in per])
                # equal to the per-slice inverses, or at least as close to the exact x as they are / as the
                # conditioning of the inverse allows: with cache_size=1 torch returns the cached x itself for
                # the y it has just produced, while the per-slice inverses carry their legitimate rounding error
                ok = _close(Xi, want, 1e-11)
                if not ok and tuple(Xi.shape) == tuple(rows.shape) and bool(torch.all(torch.isfinite(Xi))):
                    allow = np.abs(arr(want) - arr(rows))
                    for i, p_ in enumerate(per):
                        if p_[3] is not None:
                            allow[i] = np.maximum(allow[i], p_[3])
                    ok = bool(np.all(np.abs(arr(Xi) - arr(rows)) <= allow))
                if not ok:
                    _fail(res, "batched_inverse", "mismatch", dict(d, batched=Xi.tolist(), per_slice=want.tolist()))
    return per


def check_tp(res, tp, setx, X, X2):
    """(3) TransformedParameter() returns the transform's log-Jacobian for its current value, and .tensor the
    transformed current value; the value is then updated through the public setter of x and both are asked
    again - once with the call first and once with .tensor first, because either may have to refresh the cache"""
    T = tp.transform
    for stage, x, call_first in (("initial", X, True), ("updated", X2, True), ("updated_again", X, False)):
        if stage != "initial":
            setx(x)
        d = {"stage": stage, "x": x.tolist()}
        got = val = e2 = ev = None
        for what in (("call", "value") if call_first else ("value", "call")):
            if what == "call":
                got, e2 = _try(lambda: tp())
            else:
                val, ev = _try(lambda: tp.tensor)
        y, e = _try(lambda: T(x))
        if e is not None or _notprov(y):
            return
        if ev is not None or _notprov(val):
            _fail(res, "tp_value", "not_provided", d, ev)
            return
        if not _close(val, y):
            _fail(res, "tp_value", "mismatch:" + stage, dict(d, tensor=val.tolist(), expected=y.tolist()))
        want, e = _try(lambda: T.log_abs_det_jacobian(x, y))
        if _notprov(want) or e is not None:
            # nothing is reported by the transform; the call must then fail the same way, not invent a value
            if e2 is None and not _notprov(got):
                _fail(res, "tp_call", "value_without_ladj:" + stage, d)
            continue
        if e2 is not None or _notprov(got):
            _fail(res, "tp_call", "not_provided", d, e2)
            continue
        if not _close(got, want):
            _fail(res, "tp_call", "mismatch:" + stage, dict(d, called=got.tolist(), reported=want.tolist()))


# --------------------------------------------------------------------------- documented forward maps (numpy)
def _softplus(v):
    return np.logaddexp(0.0, v)


def forward_ref_of(c):
    cls = c["cls"]
    if cls == "CumSumTransform":
        return lambda x: np.cumsum(x)
    if cls == "CumSumExpTransform":
        return lambda x: np.exp(np.cumsum(x))
    if cls == "SoftPlusTransform":
        return _softplus
    if cls == "CumSumSoftPlusTransform":
        return lambda x: _softplus(np.cumsum(x))
    if cls == "LogTransform":
        return np.log
    if cls == "LinearTransform":
        W = np.asarray(c["par"]["weight"], dtype=float)
        b = np.asarray(c["par"]["bias"], dtype=float) if c["par"]["has_bias"] else 0.0
        return lambda x: W @ x + b
    if cls == "TrilExpDiagonalTransform":
        def f(x):
            m = int((-1 + math.sqrt(1 + 8 * len(x))) / 2)
            out = np.zeros((m, m))
            k = 0
            for i in range(m):
                for j in range(i + 1):
                    out[i, j] = math.exp(x[k]) if i == j else x[k]
                    k += 1
            return out
        return f
    return None


# --------------------------------------------------------------------------- specifications
def _xspec(c, rows, batch):
    """the parameter x of a TransformedParameter: one Parameter or a list of two (CatParameter route)"""
    a = np.asarray(rows, dtype=float).reshape(len(rows), -1)
    k = c.get("split", 0)
    if not k:
        return tt.P("x", _shape_rows(a.tolist(), batch)), ["x"], [slice(None)]
    return (
        [tt.P("xa", _shape_rows(a[:, :k].tolist(), batch)), tt.P("xb", _shape_rows(a[:, k:].tolist(), batch))],
        ["xa", "xb"],
        [slice(0, k), slice(k, None)],
    )


def _setter(dic, ids, slices):
    def setx(x):
        for i, s in zip(ids, slices):
            dic[i].tensor = x[..., s].clone()
    return setx


def vector_spec(c):
    cls = c["cls"]
    xs, ids, slices = _xspec(c, c["x"], c["batch"])
    s = {"id": "tp", "type": "TransformedParameter", "x": xs,
         "transform": cls if c.get("short") else FULL[cls]}
    p = c["par"]
    if cls == "AffineTransform":
        # keys deliberately not in the order of the constructor's signature: arguments are matched by name
        s["parameters"] = {"scale": p["scale"], "loc": tt.P("loc", [p["loc"]]) if p["loc_param"] else p["loc"]}
    elif cls == "PowerTransform":
        s["parameters"] = {"exponent": p["exponent"]}
    elif cls == "LinearTransform":
        s["parameters"] = {"weight": tt.P("weight", p["weight"])}
        if p["has_bias"]:
            s["parameters"]["bias"] = tt.P("bias", p["bias"])
    if c.get("cache") is not None:
        s.setdefault("parameters", {})["cache_size"] = c["cache"]
        if cls == "AffineTransform":
            s["parameters"]["event_dim"] = 0  # every argument before cache_size is given (positional passing)
    return s, ids, slices


def _compose(p):
    from torch.distributions import AffineTransform, ComposeTransform, ExpTransform, SigmoidTransform

    A1 = AffineTransform(p["loc"], p["scale"])
    A2 = AffineTransform(p["loc2"], p["scale2"])
    parts = {
        "affine_exp": [A1, ExpTransform()],
        "exp_affine": [ExpTransform(), A2],
        "sigmoid_affine": [SigmoidTransform(), A2],
        "affine_sigmoid_affine": [A1, SigmoidTransform(), A2],
    }[p["parts"]]
    return ComposeTransform(parts, cache_size=p.get("cache") or 0)


def taxa_spec(tree):
    return {"id": "taxa", "type": "Taxa", "taxa": [
        {"id": nm, "type": "Taxon", "attributes": {"date": dt}} for nm, dt in zip(tree["taxa"], tree["dates"])]}


def tree_spec(tree, param, rows, batch):
    a = np.asarray(rows, dtype=float).reshape(len(rows), -1)
    s = {"id": "tree", "type": "ReparameterizedTimeTreeModel", "newick": tree["newick"], "taxa": taxa_spec(tree)}
    if param == "ratio":
        s["ratios"] = tt.P("ratios", _shape_rows(a[:, :-1].tolist(), batch))
        s["root_height"] = tt.P("root_height", _shape_rows(a[:, -1:].tolist(), batch))
    else:
        s["shifts"] = tt.P("shifts", _shape_rows(a.tolist(), batch))
    return s


def _band(n):
    return "n=2" if n == 2 else "n3-6" if n <= 6 else "n7-12" if n <= 12 else "n13+"


def _nontrivial_x(X):
    return bool(torch.any(X != 0))


def _key(c, X):
    """identity of a case: options + both evaluation points (x and the update point x2), rounded"""
    k = {a: b for a, b in c.items() if a not in ("x", "x2")}
    return (k, [[round(v, 6) for v in r] for r in c["x"]], [[round(v, 6) for v in r] for r in c["x2"]])


def _cache_tag(c):
    return "default" if c.get("cache") is None else "explicit%d" % c["cache"]


def _build_vector(c, rows):
    cls = c["cls"]
    cc = dict(c, x=rows)
    if cls == "ComposeTransform":
        tt.load_all()
        from torchtree.core.parameter import TransformedParameter

        xs, ids, slices = _xspec(cc, rows, c["batch"])
        dic = {}
        xobj = [tt.build(s, dic)[0] for s in xs] if isinstance(xs, list) else tt.build(xs, dic)[0]
        tp = TransformedParameter("tp", xobj, _compose(dict(c["par"], cache=c.get("cache"))))
    else:
        spec, ids, slices = vector_spec(cc)
        tp, dic = tt.build(spec)
    return {"tp": tp, "dic": dic, "leaves": list(zip(ids, slices)), "model": None, "mleaves": []}


def _build_heights(c, rows):
    tree, param, batch = c["tree"], c["param"], c["batch"]
    n = tree["n"]
    cls = "GeneralNodeHeightTransform" if param == "ratio" else "DifferenceNodeHeightTransform"
    model, dic = tt.build(tree_spec(tree, param, rows, batch))
    tspec = {"id": "heights", "type": "TransformedParameter", "transform": FULL[cls]}
    if param == "ratio":
        mleaves = [("ratios", slice(0, n - 2)), ("root_height", slice(n - 2, None))]
        if c.get("single"):
            a = np.asarray(rows, dtype=float).reshape(len(rows), -1)
            tspec.update(x=tt.P("ratios_root_height", _shape_rows(a.tolist(), batch)), parameters={"tree": "tree"})
            leaves = [("ratios_root_height", slice(None))]
        else:
            tspec.update(x=["ratios", "root_height"], parameters={"tree": "tree"})
            leaves = list(mleaves)
    else:
        tspec.update(x="shifts", parameters={"tree_model": "tree"})
        leaves = mleaves = [("shifts", slice(None))]
        if param == "shift_k":
            tspec["parameters"]["k"] = c["k"]
    if c.get("cache") is not None:
        tspec["parameters"].setdefault("k", 0.0) if param != "ratio" else None
        tspec["parameters"]["cache_size"] = c["cache"]
    tp, _ = tt.build(tspec, dic)
    return {"tp": tp, "dic": dic, "leaves": leaves, "model": model if param != "shift_k" else None,
            "mleaves": mleaves, "tree_model": model}


def _build_rates(c, rows):
    cls, batch = c["cls"], c["batch"]
    model, dic = tt.build(tree_spec(c["tree"], "ratio", [c["heights"]], []))
    tspec = {"id": "tp", "type": "TransformedParameter", "transform": cls if c["short"] else FULL[cls],
             "x": tt.P("x", _shape_rows(rows, batch)), "parameters": {"tree_model": "tree"}}
    if cls == "RescaledRateTransform":
        tspec["parameters"]["rate"] = tt.P("mu", [c["mu"]])
    if c.get("cache") is not None:
        tspec["parameters"]["cache_size"] = c["cache"]
    tp, _ = tt.build(tspec, dic)
    return {"tp": tp, "dic": dic, "leaves": [("x", slice(None))], "model": None, "mleaves": []}


def _set_all(b, x):
    seen = set()
    for i, s in b["leaves"] + b["mleaves"]:
        if i not in seen:
            seen.add(i)
            b["dic"][i].tensor = x[..., s].clone()


def check_inplace(res, build, c, labels):
    """history: evaluate -> the leaf tensors are modified IN PLACE (what optimizer.step() does, under
    torch.no_grad()) -> fire_parameter_changed() on each leaf (what torchtree's Optimizer does next) -> evaluate;
    the value and the log-Jacobian must be those of a fresh object built at the new values"""
    X2 = _T(c["x2"], c["batch"])
    b = build(c["x"])
    tp, model = b["tp"], b["model"]
    _try(lambda: tp.tensor)
    _try(lambda: tp())
    if model is not None:
        _try(lambda: model())
    leaves, seen = [], set()
    for i, s in b["leaves"] + b["mleaves"]:
        if i not in seen:
            seen.add(i)
            leaves.append((b["dic"][i], s))
    with torch.no_grad():
        for p, s in leaves:
            p.tensor.copy_(X2[..., s])
    for p, s in leaves:
        p.fire_parameter_changed()
    got_l, el = _try(lambda: tp())
    got_v, ev = _try(lambda: tp.tensor)
    got_m, em = _try(lambda: model()) if model is not None else (None, None)
    f = build(c["x2"])
    want_v, e1 = _try(lambda: f["tp"].tensor)
    want_l, e2 = _try(lambda: f["tp"]())
    d = {"x": c["x"], "x2": c["x2"]}
    if e1 is None and not _notprov(want_v):
        if ev is not None or _notprov(got_v):
            _fail(res, "inplace_value", "not_provided", d, ev)
        elif not _close(got_v, want_v):
            _fail(res, "inplace_value", "mismatch", dict(d, tensor=got_v.tolist(), fresh=want_v.tolist()))
    if e2 is None and not _notprov(want_l):
        if el is not None or _notprov(got_l):
            _fail(res, "inplace_call", "not_provided", d, el)
        elif not _close(got_l, want_l):
            _fail(res, "inplace_call", "mismatch", dict(d, called=got_l.tolist(), fresh=want_l.tolist()))
    if model is not None:
        want_m, e3 = _try(lambda: f["model"]())
        if e3 is None and not _notprov(want_m):
            if em is not None or _notprov(got_m):
                _fail(res, "inplace_model", "not_provided", d, em)
            elif not _close(got_m, want_m):
                _fail(res, "inplace_model", "mismatch", dict(d, called=got_m.tolist(), fresh=want_m.tolist()))
    labels.add("inplace:checked")


# --------------------------------------------------------------------------- bodies
def body_vector(c):
    cls = c["cls"]
    batch = c["batch"]
    X, X2 = _T(c["x"], batch), _T(c["x2"], batch)
    labels = {cls, "batch%d" % len(batch), "split" if c.get("split") else "single"}
    res = Res(nontrivial=c["d"] >= 2 and _nontrivial_x(X), key=_key(c, X), tags={"cls": cls, "cache": _cache_tag(c)})
    labels.add("cache:" + _cache_tag(c))
    b = _build_vector(c, c["x"])
    tp, dic = b["tp"], b["dic"]
    ids, slices = [i for i, _ in b["leaves"]], [sl for _, sl in b["leaves"]]
    if cls == "ComposeTransform":
        labels.add("compose:" + c["par"]["parts"])
    elif cls in REGISTERED_SHORT:
        labels.add("short_name" if c.get("short") else "full_name")
    T = tp.transform
    if type(T).__name__ != cls:
        _fail(res, "build", "class", {"built": type(T).__name__})
        return res
    check_transform(res, cls, T, X, batch, labels, forward_ref_of(c))
    if X2.shape == X.shape:
        check_transform(res, cls, T, X2, batch, labels, forward_ref_of(c))
    check_tp(res, tp, _setter(dic, ids, slices), X, X2)
    if X2.shape == X.shape:
        check_inplace(res, lambda rows: _build_vector(c, rows), c, labels)
    res.labels = tuple(sorted(labels))
    return res


def body_heights(c):
    tree, param, batch = c["tree"], c["param"], c["batch"]
    n = tree["n"]
    cls = "GeneralNodeHeightTransform" if param == "ratio" else "DifferenceNodeHeightTransform"
    X, X2 = _T(c["x"], batch), _T(c["x2"], batch)
    labels = {cls, param, "batch%d" % len(batch), "dates:" + tree["mode"], _band(n)}
    res = Res(nontrivial=n >= 3 and _nontrivial_x(X), key=_key(c, X),
              tags={"cls": cls, "param": param, "cache": _cache_tag(c)})
    labels.add("cache:" + _cache_tag(c))
    if param == "ratio":
        labels.add("x:single_parameter" if c.get("single") else "x:list")
    b = _build_heights(c, c["x"])
    model, tp, dic = b["tree_model"], b["tp"], b["dic"]

    def setx(x):
        _set_all(b, x)
    T = tp.transform
    if type(T).__name__ != cls or (param != "shift_k" and type(model.transform).__name__ != cls):
        _fail(res, "build", "class", {"built": [type(T).__name__, type(model.transform).__name__]})
        return res
    check_transform(res, cls, T, X, batch, labels)
    check_transform(res, cls, T, X2, batch, labels)
    # (4) the tree model's call = log-Jacobian of its own height transform for the current value
    if param != "shift_k":
        outmap = _outmap(cls)
        for stage, x in (("initial", X), ("updated", X2)):
            if stage == "updated":
                setx(x)
            rows = x.reshape(-1, x.shape[-1])
            want = []
            for i in range(rows.shape[0]):
                o = oracle_logdet(_jac(model.transform, rows[i], outmap))
                want.append(o)
            got, e = _try(lambda: model())
            d = {"stage": stage, "x": x.tolist()}
            if e is not None or _notprov(got):
                _fail(res, "model_call", "not_provided", d, e)
                continue
            g = arr(got).reshape(-1)
            if tuple(got.shape) != tuple(x.shape[:-1]) or any(o is None for o in want):
                _fail(res, "model_call", "shape", dict(d, called_shape=list(got.shape)))
                continue
            bad = [i for i, o in enumerate(want) if not abs(g[i] - o[0]) <= 1e-8 + 64 * EPS * o[1]]
            if bad:
                _fail(res, "model_call", "mismatch:" + stage,
                      dict(d, called=g.tolist(), autodiff=[o[0] for o in want]))
            # and the heights the model uses are the transform of the current value
            hv, e = _try(lambda: model.node_heights[..., n:])
            yv, e2 = _try(lambda: model.transform(x))
            if e is None and e2 is None and not _close(hv, yv):
                _fail(res, "model_call", "heights:" + stage, dict(d, heights=hv.tolist(), expected=yv.tolist()))
        labels.add("model_call:checked")
        setx(X)
    check_tp(res, tp, setx, X, X2)
    check_inplace(res, lambda rows: _build_heights(c, rows), c, labels)
    res.labels = tuple(sorted(labels))
    return res


def body_rates(c):
    tree, cls, batch = c["tree"], c["cls"], c["batch"]
    n = tree["n"]
    X, X2 = _T(c["x"], batch), _T(c["x2"], batch)
    labels = {cls, "batch%d" % len(batch), "dates:" + tree["mode"], _band(n)}
    res = Res(nontrivial=n >= 3 and _nontrivial_x(X), key=_key(c, X), tags={"cls": cls, "cache": _cache_tag(c)})
    labels.add("cache:" + _cache_tag(c))
    b = _build_rates(c, c["x"])
    tp, dic = b["tp"], b["dic"]
    T = tp.transform
    ref = None
    if cls == "LogDifferenceRateTransform":
        # documented: y_i = log r_i - log r_parent(i) with the root's rate 1; the order of the outputs is not
        # documented, so the comparison is between sorted values (a multiset)
        parent, root = parent_map(tree)

        def ref(x):
            r = np.append(np.log(x), 0.0)
            return np.sort([r[i] - r[parent[i]] for i in range(2 * n - 2)])
    check_transform(res, cls, T, X, batch, labels, ref, sort_forward=True)
    check_transform(res, cls, T, X2, batch, labels, ref, sort_forward=True)
    check_tp(res, tp, _setter(dic, ["x"], [slice(None)]), X, X2)
    check_inplace(res, lambda rows: _build_rates(c, rows), c, labels)
    res.labels = tuple(sorted(labels))
    return res


# --------------------------------------------------------------------------- extreme regions (mpmath reference)
EXTREME_CLASSES = [
    "SoftPlusTransform", "SoftPlusTransform", "CumSumSoftPlusTransform", "CumSumExpTransform", "CumSumTransform",
    "LogTransform", "TrilExpDiagonalTransform", "ExpTransform", "SigmoidTransform",
]
CUMULATIVE = {"CumSumSoftPlusTransform", "CumSumExpTransform", "CumSumTransform"}
DTYPES = {"float64": (torch.float64, 2.220446049250313e-16, 1e-8), "float32": (torch.float32, 1.1920928955078125e-07, 1e-5)}
K_ULP = 16


def _round_to(v, dtype):
    return float(np.float32(v)) if dtype == "float32" else float(v)


@st.composite
def extreme_cases(draw):
    cls = draw(st.sampled_from(EXTREME_CLASSES))
    dtype = draw(st.sampled_from(["float64", "float64", "float32"]))
    if cls == "TrilExpDiagonalTransform":
        m = draw(st.integers(1, 3))
        d = m * (m + 1) // 2
    else:
        d = draw(st.integers(1, 8))
    # float32 cumulative sums are kept below log(float32 max) ~ 88.7 (8 x 10); float64: 8 x 40 < 709
    hi = 10.0 if (dtype == "float32" and cls in CUMULATIVE) else 40.0
    if cls == "LogTransform":
        elem = st.one_of(logu(1e-17, 1e17), logu(1e-17, 1e-8), logu(1e8, 1e17))
    else:
        elem = st.one_of(fl(-hi, hi), fl(-hi, -hi / 2), fl(hi / 2, hi), fl(-5.0, 5.0))
    x = [_round_to(draw(elem), dtype) for _ in range(d)]
    return {"cls": cls, "dtype": dtype, "d": d, "x": x}


def _mp_refs(cls):
    """documented forward / inverse / log-Jacobian of a class as functions of lists of mpf -> list of mpf
    (None where the argument is outside the map's domain); ladj has one entry per element for element-wise
    transforms and a single entry (the event sum) for cumulative ones, None if the class reports none"""
    import mpmath as mp

    def cums(v):
        out, t = [], mp.mpf(0)
        for a in v:
            t = t + a
            out.append(t)
        return out

    def diff(v):
        return [v[0]] + [v[i] - v[i - 1] for i in range(1, len(v))]

    def sp(v):  # log(1 + e^v)
        return mp.log1p(mp.exp(v))

    def isp(y):  # log(e^y - 1)
        return mp.log(mp.expm1(y))

    def pos(v):
        return all(a > 0 for a in v)

    if cls == "SoftPlusTransform":
        return (lambda x: [sp(a) for a in x], lambda y: [isp(a) for a in y] if pos(y) else None,
                lambda x: [-sp(-a) for a in x])
    if cls == "CumSumSoftPlusTransform":
        return (lambda x: [sp(c) for c in cums(x)], lambda y: diff([isp(a) for a in y]) if pos(y) else None,
                lambda x: [mp.fsum(-sp(-c) for c in cums(x))])
    if cls == "CumSumExpTransform":
        return (lambda x: [mp.exp(c) for c in cums(x)], lambda y: diff([mp.log(a) for a in y]) if pos(y) else None,
                lambda x: [mp.fsum(cums(x))])
    if cls == "CumSumTransform":
        return (cums, diff, lambda x: [mp.mpf(0)])
    if cls == "LogTransform":
        return (lambda x: [mp.log(a) for a in x] if pos(x) else None, lambda y: [mp.exp(a) for a in y],
                lambda x: [-mp.log(a) for a in x])
    if cls == "ExpTransform":
        return (lambda x: [mp.exp(a) for a in x], lambda y: [mp.log(a) for a in y] if pos(y) else None,
                lambda x: list(x))
    if cls == "SigmoidTransform":
        return (lambda x: [1 / (1 + mp.exp(-a)) for a in x],
                lambda y: [mp.log(a) - mp.log1p(-a) for a in y] if all(0 < a < 1 for a in y) else None,
                lambda x: [-sp(-a) - sp(a) for a in x])
    if cls == "TrilExpDiagonalTransform":
        def diag_idx(n):
            m = int((-1 + math.sqrt(1 + 8 * n)) / 2)
            return {i * (i + 1) // 2 + i for i in range(m)}
        return (lambda x: [mp.exp(a) if k in diag_idx(len(x)) else a for k, a in enumerate(x)],
                lambda y: ([mp.log(a) if k in diag_idx(len(y)) else a for k, a in enumerate(y)]
                           if all(y[k] > 0 for k in diag_idx(len(y))) else None),
                None)
    raise KeyError(cls)


def _mp_tolerance(G, z, g0, u, floor):
    """what a componentwise backward-stable evaluation of the documented map G can deliver at the exact
    floating-point argument z:  floor max(1,|G_i|) + K u (|G_i| + sum_j |dG_i/dz_j| |z_j|); the derivative
    terms come from relative perturbations of one argument at a time, evaluated at 60 digits"""
    import mpmath as mp

    h = mp.mpf(10) ** -30
    sens = [abs(v) for v in g0]
    for j, zj in enumerate(z):
        if zj == 0:
            continue
        zz = list(z)
        zz[j] = zj * (1 + h)
        g1 = G(zz)
        if g1 is None:
            return None
        for i in range(len(g0)):
            sens[i] += abs((g1[i] - g0[i]) / h)
    return [floor * max(1.0, abs(float(v))) + K_ULP * u * float(sv) for v, sv in zip(g0, sens)]


def _in_range(vals, dtype):
    fi = torch.finfo(dtype)
    return all(mp_abs <= fi.max and (mp_abs == 0 or mp_abs >= fi.tiny) for mp_abs in (abs(float(v)) for v in vals))


def _mpl(t):
    import mpmath as mp

    return [mp.mpf(v) for v in t.detach().to(torch.float64).reshape(-1).tolist()]


def _cmp_mp(res, aspect, got, ref, tol, detail):
    g = got.detach().to(torch.float64).reshape(-1).tolist()
    if len(g) != len(ref):
        _fail(res, aspect, "shape", dict(detail, got_len=len(g), expected_len=len(ref)))
        return False
    worst = None
    for i, (a, b, t) in enumerate(zip(g, ref, tol)):
        err = abs(a - float(b)) if math.isfinite(a) else float("inf")
        if not err <= t and (worst is None or err / t > worst[0]):
            worst = (err / t, i, a, float(b), t)
    if worst is not None:
        _fail(res, aspect, "mismatch", dict(detail, index=worst[1], got=worst[2], mpmath=worst[3], tol=worst[4]))
        return False
    return True


def body_extreme(c):
    import mpmath as mp

    cls, dname = c["cls"], c["dtype"]
    dtype, u, floor = DTYPES[dname]
    labels = {cls, dname}
    res = Res(nontrivial=False, key=c, tags={"cls": cls, "dtype": dname})
    spec = {"id": "tp", "type": "TransformedParameter", "transform": FULL[cls],
            "x": tt.P("x", c["x"], dtype="torch." + dname)}
    tp, dic = tt.build(spec)
    T = tp.transform
    X = dic["x"].tensor
    outmap = _outmap(cls)
    big = max(abs(v) for v in c["x"])
    res.nontrivial = bool(big > 20.0 or big < 1e-8 or (dname == "float32" and big > 8.0))
    labels.add("beyond_moderate" if res.nontrivial else "moderate")
    with mp.workdps(60):
        fwd, inv, ladj = _mp_refs(cls)
        xs = _mpl(X)
        if [float(v) for v in xs] != [float(v) for v in c["x"]] or X.dtype != dtype:
            _fail(res, "build", "value", {"x": c["x"], "built": X.tolist(), "dtype": str(X.dtype)})
            return res
        d = {"x": c["x"], "dtype": dname}
        F = fwd(xs)
        if F is None or not _in_range(F, dtype):
            labels.add("skipped:documented_forward_out_of_range")
            res.nontrivial = False
            res.labels = tuple(sorted(labels))
            return res
        # forward at the exact x
        Y, e = _try(lambda: T(X))
        if e is not None or _notprov(Y):
            _fail(res, "x_forward", "not_provided", d, e)
            return res
        Yv = outmap(Y)
        tolF = _mp_tolerance(fwd, xs, F, u, floor)
        _cmp_mp(res, "x_forward", Yv, F, tolF, d)
        # log-Jacobian at the exact x
        if ladj is not None:
            L, e = _try(lambda: T.log_abs_det_jacobian(X, Y))
            if e is not None:
                _fail(res, "x_ladj", "", d, e)
            elif not _notprov(L):
                Lr = ladj(xs)
                if _in_range(Lr, dtype) or all(v == 0 for v in Lr):
                    tolL = _mp_tolerance(ladj, xs, Lr, u, floor)
                    if len(Lr) == 1 and L.numel() != 1:
                        L = _reduce(L, X.shape)
                    if L is None:
                        _fail(res, "ladj_shape", "shape", d)
                    else:
                        _cmp_mp(res, "x_ladj", L, Lr, tolL, d)
                        labels.add("x_ladj:checked")
        # inverse at the exact floating-point y the transform produced, and the round trip
        if bool(torch.all(torch.isfinite(Yv))):
            ys = _mpl(Yv)
            Xi, e = _try(lambda: T.inv(Y))
            if e is not None:
                _fail(res, "x_inverse", "", d, e)
            elif not _notprov(Xi):
                G = inv(ys)
                if G is not None and _in_range(G, dtype):
                    tolG = _mp_tolerance(inv, ys, G, u, floor)
                    if tolG is not None:
                        _cmp_mp(res, "x_inverse", Xi, G, tolG, dict(d, y=[float(v) for v in ys]))
                        labels.add("x_inverse:checked")
                # round trip: what rounding y = F(x) to the dtype costs is K u |dG/dy||y| at the exact F
                Gf = inv(F)
                tolR = _mp_tolerance(inv, F, Gf, u, floor) if Gf is not None else None
                if tolR is not None:
                    _cmp_mp(res, "x_roundtrip", Xi, xs, tolR, dict(d, y=[float(v) for v in ys]))
                    labels.add("x_roundtrip:checked")
                # the TransformedParameter setter stores inv(y), and the call reports the log-Jacobian there
                if bool(torch.all(torch.isfinite(Xi))):
                    _, e = _try(lambda: setattr(tp, "tensor", Y))
                    if e is not None:
                        _fail(res, "tp_setter", "", d, e)
                    elif not torch.equal(dic["x"].tensor, Xi):
                        _fail(res, "tp_setter", "mismatch", dict(d, stored=dic["x"].tensor.tolist(), inverse=Xi.tolist()))
                    else:
                        want, e1 = _try(lambda: T.log_abs_det_jacobian(Xi, T(Xi)))
                        got, e2 = _try(lambda: tp())
                        if e1 is None and e2 is None and not _notprov(want) and not _notprov(got):
                            if not _close(got, want, 1e-6 if dname == "float32" else 1e-12):
                                _fail(res, "tp_call", "mismatch:after_assignment",
                                      dict(d, called=got.tolist(), reported=want.tolist()))
    res.labels = tuple(sorted(labels))
    return res


# --------------------------------------------------------------------------- large instances (size grows with the tree)
LARGE_KINDS = ["logdiff", "logdiff", "general", "general", "difference", "cumsum", "cumsumexp",
               "cumsumsoftplus", "stick"]
LARGE_TREE = {"logdiff": "LogDifferenceRateTransform", "general": "GeneralNodeHeightTransform",
              "difference": "DifferenceNodeHeightTransform"}
LARGE_VEC = {"cumsum": "CumSumTransform", "cumsumexp": "CumSumExpTransform",
             "cumsumsoftplus": "CumSumSoftPlusTransform", "stick": "StickBreakingTransform"}
JAC_MAX = 320  # largest dimension for which the autograd Jacobian + slogdet is also taken


@st.composite
def large_cases(draw, max_n=200, max_d=400):
    kind = draw(st.sampled_from(LARGE_KINDS))
    c = {"kind": kind, "dtype": draw(st.sampled_from(["float64", "float64", "float32"])),
         "seed": draw(st.integers(0, 2 ** 31 - 1))}
    if kind in LARGE_TREE:
        c["n"] = draw(st.one_of(st.integers(9, 40), st.integers(40, max_n)))
        c["dates"] = draw(st.sampled_from(["iso", "ages", "calendar"]))
        c["shape"] = draw(st.sampled_from(["random", "random", "caterpillar", "balanced"]))
    else:
        c["d"] = draw(st.one_of(st.integers(30, 100), st.integers(100, max_d)))
    if kind in ("logdiff", "difference"):
        lo = draw(st.integers(-6, 2))
        c["decades"] = [lo, draw(st.integers(lo + 1, 3))]
    elif kind == "general":
        c["decades"] = [draw(st.sampled_from([-3.0, -2.0, -1.0, -0.3])), 0.0]
    else:
        c["scale"] = draw(st.sampled_from([0.1, 0.5, 1.0, 3.0]))
    if kind == "difference":
        c["k"] = draw(st.sampled_from([0.0, 0.0, 1.0, 20.0]))
    return c


def large_materialize(c):
    """the instance a compact case stands for: all values are a deterministic function of the drawn seed
    (numpy RandomState), so the case replays exactly; values are rounded to the case's dtype"""
    rng = np.random.RandomState(c["seed"])
    rnd = (lambda v: float(np.float32(v))) if c["dtype"] == "float32" else float
    out = {}
    if c["kind"] in LARGE_TREE:
        n = c["n"]
        if c["shape"] == "caterpillar":
            joins = [[m - 1, 0] for m in range(n, 1, -1)]
        elif c["shape"] == "balanced":
            joins = [[0, 0] for m in range(n, 1, -1)]
        else:
            joins = [[int(rng.randint(0, m)), int(rng.randint(0, m - 1))] for m in range(n, 1, -1)]
        names = ["t%d" % i for i in range(n)]
        if c["dates"] == "iso":
            dates = [0.0] * n
        else:
            g = rng.randint(0, 25, size=n)
            g[int(rng.randint(0, n))] = 0
            dates = [(0.0 if c["dates"] == "ages" else 1990.0) + 0.5 * float(v) for v in g]
        order = [int(i) for i in rng.permutation(n)]
        out["tree"] = {"n": n, "newick": newick_from(names, joins), "taxa": [names[k] for k in order],
                       "dates": [dates[k] for k in order], "mode": c["dates"]}
        lo, hi = c["decades"]
        span = max(dates) - min(dates)
        if c["kind"] == "logdiff":
            out["x"] = [rnd(10.0 ** v) for v in rng.uniform(lo, hi, size=2 * n - 2)]
            out["heights"] = [float(v) for v in rng.uniform(0.1, 0.9, size=n - 2)] + [span + 1.0]
        elif c["kind"] == "general":
            out["x"] = [rnd(min(0.999, 10.0 ** v)) for v in rng.uniform(lo, hi, size=n - 2)] + \
                       [rnd(span + 10.0 ** rng.uniform(-1, 2))]
        else:
            out["x"] = [rnd(10.0 ** v) for v in rng.uniform(lo, hi, size=n - 1)]
    else:
        out["x"] = [rnd(v) for v in rng.uniform(-c["scale"], c["scale"], size=c["d"])]
    return out


def _tree_arrays(tree):
    """parent index, bound (oldest tip below) and depth of every node under the documented numbering"""
    n = tree["n"]
    parent, root = parent_map(tree)
    d = tree["dates"]
    tip = d if min(d) == 0.0 else [max(d) - v for v in d]
    bound = np.zeros(2 * n - 1)
    bound[:n] = tip
    for i in range(2 * n - 2):  # children have smaller indices than their parents (post-order numbering)
        bound[parent[i]] = max(bound[parent[i]], bound[i])
    depth = np.zeros(2 * n - 1)
    for i in range(2 * n - 3, -1, -1):
        depth[i] = depth[parent[i]] + 1
    return parent, root, bound, depth


def large_reference(c, inst):
    """(G, S, ok): product-free float64 value of the documented log-Jacobian (sums of logs only) and the
    sensitivity sum S of that formula: a backward-stable evaluation in a dtype errs by about eps * S"""
    x = np.asarray(inst["x"], dtype=float)
    kind = c["kind"]
    with np.errstate(all="ignore"):
        if kind == "logdiff":
            lg = np.log(x)
            return -math.fsum(lg), float(np.abs(lg).sum() + x.size), True
        if kind in ("difference", "cumsum"):
            return 0.0, 0.0, True
        if kind == "general":
            tree = inst["tree"]
            n = tree["n"]
            parent, root, bound, depth = _tree_arrays(tree)
            h = np.zeros(2 * n - 1)
            h[root] = x[-1]
            terms, S = [], float(n)
            eps = DTYPES[c["dtype"]][1]
            tiny = float(torch.finfo(DTYPES[c["dtype"]][0]).tiny)
            for i in range(2 * n - 3, n - 1, -1):
                gap = h[parent[i]] - bound[i]
                h[i] = bound[i] + x[i - n] * gap
                # a height that the dtype cannot tell from its bound is a zero-length branch in that dtype:
                # the documented value is not representable there (skipped and counted)
                if not gap > 1024 * eps * (abs(h[parent[i]]) + abs(bound[i])) + 1e3 * tiny:
                    return 0.0, 0.0, False
                terms.append(math.log(gap))
                S += (abs(h[parent[i]]) + abs(bound[i])) / gap * (1.0 + depth[i]) + abs(terms[-1])
            ok = bool(np.all(h[n:] - bound[n:] > 1024 * eps * (np.abs(h[n:]) + np.abs(bound[n:])) + 1e3 * tiny))
            return math.fsum(terms), S, ok
        cs = np.cumsum(x)
        P = np.cumsum(np.abs(x))
        lim = math.log(float(torch.finfo(DTYPES[c["dtype"]][0]).max)) - 1.0
        if kind == "cumsumexp":
            return math.fsum(cs), float((np.abs(cs) + P).sum() + x.size), bool(np.max(np.abs(cs)) < lim)
        if kind == "cumsumsoftplus":
            t = -np.logaddexp(0.0, -cs)
            w = np.exp(-np.logaddexp(0.0, cs))  # sigmoid(-c) = d log sigmoid(c) / dc
            return math.fsum(t), float((np.abs(t) + w * P).sum() + x.size), bool(np.max(np.abs(cs)) < lim)
        if kind == "stick":
            K1 = x.size
            off = x - np.log(np.arange(K1, 0, -1.0))
            lz = -np.logaddexp(0.0, -off)       # log z_i
            l1z = -np.logaddexp(0.0, off)       # log (1 - z_i)
            ly = lz + np.concatenate(([0.0], np.cumsum(l1z)[:-1]))
            tiny = math.log(float(torch.finfo(DTYPES[c["dtype"]][0]).tiny))
            ok = bool(ly.min() > tiny + 5 and np.cumsum(l1z)[-1] > tiny + 5)
            S = float((np.abs(ly) + np.abs(l1z) + np.abs(lz) + np.abs(off) + np.arange(1, K1 + 1)).sum())
            return math.fsum(ly + l1z), S, ok
    raise KeyError(kind)


def _large_build(c, inst, dname):
    """transform + TransformedParameter through the JSON route with `dname` as the default dtype"""
    old = torch.get_default_dtype()
    torch.set_default_dtype(DTYPES[dname][0])
    try:
        kind = c["kind"]
        px = tt.P("x", inst["x"], dtype="torch." + dname)
        if kind in LARGE_TREE:
            tree = inst["tree"]
            cls = LARGE_TREE[kind]
            dic = {}
            if kind == "general":
                tsp = tree_spec(tree, "ratio", [inst["x"]], [])
                tsp["ratios"]["dtype"] = tsp["root_height"]["dtype"] = "torch." + dname
                model, dic = tt.build(tsp)
                spec = {"id": "tp", "type": "TransformedParameter", "transform": FULL[cls],
                        "x": ["ratios", "root_height"], "parameters": {"tree": "tree"}}
            elif kind == "difference":
                tsp = tree_spec(tree, "shift", [inst["x"]], [])
                tsp["shifts"]["dtype"] = "torch." + dname
                model, dic = tt.build(tsp)
                spec = {"id": "tp", "type": "TransformedParameter", "transform": FULL[cls], "x": "shifts",
                        "parameters": {"tree_model": "tree"}}
                if c["k"] > 0:
                    spec["parameters"]["k"] = c["k"]
            else:
                tsp = tree_spec(tree, "ratio", [inst["heights"]], [])
                model, dic = tt.build(tsp)
                spec = {"id": "tp", "type": "TransformedParameter", "transform": cls, "x": px,
                        "parameters": {"tree_model": "tree"}}
            tp, _ = tt.build(spec, dic)
        else:
            tp, dic = tt.build({"id": "tp", "type": "TransformedParameter", "transform": FULL[LARGE_VEC[kind]], "x": px})
        return tp
    finally:
        torch.set_default_dtype(old)


def body_large(c):
    kind, dname = c["kind"], c["dtype"]
    dtype, eps, floor = DTYPES[dname]
    cls = LARGE_TREE.get(kind) or LARGE_VEC[kind]
    inst = large_materialize(c)
    size = len(inst["x"])
    band = "size<60" if size < 60 else "size60-199" if size < 200 else "size200+"
    labels = {cls, dname, band}
    res = Res(nontrivial=False, key=c, tags={"cls": cls, "dtype": dname, "size": band})
    G, S, ok = large_reference(c, inst)
    if not ok:
        res.labels = tuple(sorted(labels | {"skipped:documented_value_out_of_range"}))
        return res
    old = torch.get_default_dtype()
    torch.set_default_dtype(dtype)
    try:
        tp = _large_build(c, inst, dname)
        T = tp.transform
        X = tp.x.tensor
        if type(T).__name__ != cls or X.dtype != dtype:
            _fail(res, "build", "class", {"built": type(T).__name__, "dtype": str(X.dtype)})
            return res
        Y, e = _try(lambda: T(X))
        if e is not None or _notprov(Y):
            _fail(res, "large_forward", "not_provided", {"case": c}, e)
            return res
        L, e = _try(lambda: T.log_abs_det_jacobian(X, Y))
        called, e2 = _try(lambda: tp())
    finally:
        torch.set_default_dtype(old)
    d = {"case": c, "size": size}
    if e is not None:
        _fail(res, "large_ladj", "", d, e)
        return res
    if _notprov(L):
        labels.add("ladj:not_provided")
        res.labels = tuple(sorted(labels))
        return res
    Lr = _reduce(L, X.shape)
    if Lr is None:
        _fail(res, "ladj_shape", "shape", dict(d, reported_shape=list(L.shape)))
        return res
    reported = float(Lr)
    # oracle of record: slogdet of the autograd Jacobian of the same specification built in float64 (no product is
    # formed: LU pivots enter through their logarithms); beyond JAC_MAX entries the product-free documented formula
    oracle, which = G, "formula"
    if size <= JAC_MAX:
        tw = _large_build(c, inst, "float64")
        x64 = tw.x.tensor.detach().clone()
        om = _outmap(cls)
        J = arr(torch.autograd.functional.jacobian(lambda z: om(tw.transform(z)).reshape(-1), x64)).reshape(-1, size)
        o = oracle_logdet(J)
        if o is not None:
            labels.add("oracle:autodiff+formula")
            if abs(o[0] - G) > 1e-7 * max(1.0, abs(G)) + 64 * EPS * (S + o[1]) + _softplus_allowance(cls, x64):
                # the two oracles disagree: the forward map is not the documented one, or the instance is too
                # ill-conditioned for the LU; the autodiff value is the property's definition
                labels.add("oracle:formula_differs")
                _fail(res, "large_oracles", "disagree", dict(d, autodiff=o[0], formula=G, cond=o[1]))
            oracle, which = o[0], "autodiff"
    tol = (floor * max(1.0, abs(oracle)) if dname == "float64" else 0.0) + K_ULP * eps * S
    tol += _softplus_allowance(cls, torch.tensor(inst["x"], dtype=torch.float64))
    if kind in ("difference", "cumsum"):
        tol = 1e-8 if which == "autodiff" else 0.0
    if not abs(reported - oracle) <= tol:
        _fail(res, "large_ladj", "mismatch", dict(d, reported=reported, oracle=oracle, oracle_kind=which, tol=tol,
                                                 eps_units=(abs(reported - oracle) / eps if math.isfinite(reported) else None)))
    labels.add("large_ladj:checked")
    if e2 is None and not _notprov(called):
        if not np.array_equal(arr(called), arr(L), equal_nan=True):
            _fail(res, "tp_call", "mismatch:large", dict(d, called=float(_reduce(called, X.shape)), reported=reported))
    else:
        _fail(res, "tp_call", "not_provided", d, e2)
    res.nontrivial = size >= 60
    res.labels = tuple(sorted(labels))
    return res


# --------------------------------------------------------------------------- calibration of the oracle
def selftest():
    from torch.distributions import ExpTransform

    x = torch.tensor([0.3, -1.2, 2.0])
    o = oracle_logdet(_jac(ExpTransform(), x, lambda y: y))
    assert o is not None and abs(o[0] - float(x.sum())) < 1e-13, o
    A = np.array([[2.0, 1.0, 0.0], [0.5, -3.0, 1.0], [0.0, 0.25, 4.0]])
    At = torch.tensor(A)
    o = oracle_logdet(_jac(lambda z: z @ At.T, x, lambda y: y))
    assert abs(o[0] - math.log(abs(np.linalg.det(A)))) < 1e-13, o
    assert oracle_logdet(np.array([[1.0, 2.0], [2.0, 4.0]])) is None
    assert newick_from(["a", "b", "c"], [[0, 0], [0, 0]]) == "(c,(a,b));"
    assert _reduce(torch.zeros(3), (3,)).shape == () and _reduce(torch.zeros(()), (3,)).shape == ()
    assert _reduce(torch.zeros(2), (3,)) is None
    import mpmath as mp

    with mp.workdps(60):
        # conditioning of log(expm1(y)) at a tiny y is ~1 relative-to-absolute; a 16-ulp budget at |G| ~ 25
        f, g, l = _mp_refs("SoftPlusTransform")
        y = [mp.mpf(1.388794386496402e-11)]
        G = g(y)
        assert abs(float(G[0]) + 25.0) < 1e-9, G
        t = _mp_tolerance(g, y, G, 2.220446049250313e-16, 0.0)
        assert 16 * 2.2e-16 * 25 < t[0] < 16 * 2.3e-16 * 27, t
        assert abs(float(l([mp.mpf(0)])[0]) + math.log(2.0)) < 1e-15
        f, g, l = _mp_refs("CumSumExpTransform")
        assert [float(v) for v in g(f([mp.mpf(1), mp.mpf(-3)]))] == [1.0, -3.0]
        assert float(l([mp.mpf(1), mp.mpf(-3)])[0]) == -1.0
    t = {"n": 3, "newick": "(c,(a,b));", "taxa": ["a", "b", "c"]}
    assert parse_newick(t["newick"]) == ["c", ["a", "b"]] and parent_map(t) == ({0: 3, 1: 3, 2: 4, 3: 4}, 4)


def _vec_pretags(c):
    return {"cls": c["cls"]}


def _h_pretags(c):
    return {"cls": "GeneralNodeHeightTransform" if c["param"] == "ratio" else "DifferenceNodeHeightTransform"}


def subchecks(tier):
    max_n = 16 if tier == "quick" else 24
    return [
        Sub("vector", body_vector, strategy=vector_cases, quick=3000, thorough=48000, pretags=_vec_pretags),
        Sub("heights", body_heights, strategy=lambda: height_cases(max_n), quick=1000, thorough=16000,
            pretags=_h_pretags),
        Sub("extreme", body_extreme, strategy=extreme_cases, quick=3000, thorough=30000,
            pretags=lambda c: {"cls": c["cls"], "dtype": c["dtype"]}),
        Sub("large", body_large, strategy=lambda: large_cases(200 if tier == "quick" else 300, 400), quick=600,
            thorough=4000, pretags=lambda c: {"cls": LARGE_TREE.get(c["kind"]) or LARGE_VEC[c["kind"]], "dtype": c["dtype"]}),
        Sub("rates", body_rates, strategy=lambda: rate_cases(min(max_n, 12)), quick=500, thorough=8000,
            pretags=_vec_pretags),
    ]
