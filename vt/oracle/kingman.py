"""Kingman coalescent log density for an arbitrary population-size function N(t)
(numpy / scipy / mpmath only).

log p = - sum over inter-event intervals (a,b) with k lineages of C(k,2) * int_a^b dt/N(t)
        - sum over coalescent times t of log N(t)

Demographic functions (documented conventions, DESIGN A.5):
  Constant(theta)                     N = theta
  Exponential(theta, g)               N = theta * exp(-g t)
  Skyride(thetas, coal_times)         theta_j on the interval that ends at the j-th coalescent event
  Skygrid(thetas, grid)               theta_0 on [0,g_1), theta_j on [g_j,g_{j+1}), theta_{m-1} beyond
  Linear(thetas, grid)                linear interpolation through (0,theta_0),(g_1,theta_1)..., constant beyond
Each provides N(t), the closed-form integral of 1/N over (a,b) inside one piece, the breakpoints,
and a bound on the round-off a double-precision implementation of the same closed form must be allowed.
"""
import math

import numpy as np

EPS = 2.220446049250313e-16


class Constant:
    def __init__(self, theta):
        self.theta = theta
        self.breaks = []

    def N(self, t):
        return self.theta

    def integral(self, a, b):
        return (b - a) / self.theta, 4 * EPS * (abs(a) + abs(b)) / self.theta


class Exponential:
    def __init__(self, theta, g):
        self.theta, self.g = theta, g
        self.breaks = []

    def N(self, t):
        return self.theta * math.exp(-self.g * t)

    def integral(self, a, b):
        g, th = self.g, self.theta
        val = math.exp(g * a) * math.expm1(g * (b - a)) / (g * th)
        # an implementation computing (e^{gb} - e^{ga}) / (theta g) carries this absolute round-off
        err = 4 * EPS * (math.exp(g * a) + math.exp(g * b)) * (1 + abs(g) * max(abs(a), abs(b))) / (abs(g) * th)
        return val, err


class Piecewise:
    """piecewise constant on [breaks[i], breaks[i+1]) with values[i]; values[-1] beyond the last break"""

    def __init__(self, values, breaks):
        self.values = list(values)
        self.breaks = list(breaks)  # len(values)-1 increasing break points

    def idx(self, t):
        return int(np.searchsorted(self.breaks, t, side="right"))

    def N(self, t):
        return self.values[self.idx(t)]

    def N_left(self, t):
        """value just before t (for events sitting exactly on a break: skyride coalescent times)"""
        return self.values[int(np.searchsorted(self.breaks, t, side="left"))]

    def integral(self, a, b):
        th = self.values[self.idx(0.5 * (a + b))]
        return (b - a) / th, 4 * EPS * (abs(a) + abs(b)) / th


class Linear:
    def __init__(self, thetas, grid):
        self.th = list(thetas)
        self.g = [0.0] + list(grid)
        self.breaks = list(grid)

    def N(self, t):
        g, th = self.g, self.th
        if t >= g[-1]:
            return th[-1]
        i = int(np.searchsorted(g, t, side="right")) - 1
        return th[i] + (th[i + 1] - th[i]) * (t - g[i]) / (g[i + 1] - g[i])

    def integral(self, a, b):
        g, th = self.g, self.th
        mid = 0.5 * (a + b)
        if mid >= g[-1]:
            return (b - a) / th[-1], 4 * EPS * (abs(a) + abs(b)) / th[-1]
        i = int(np.searchsorted(g, mid, side="right")) - 1
        slope = (th[i + 1] - th[i]) / (g[i + 1] - g[i])
        if slope == 0.0:
            return (b - a) / th[i], 4 * EPS * (abs(a) + abs(b)) / th[i]
        na, nb = self.N(a), self.N(b)
        val = math.log(nb / na) / slope if abs(nb / na - 1) > 1e-3 else math.log1p((nb - na) / na) / slope
        err = 8 * EPS * (abs(math.log(na)) + abs(math.log(nb)) + 2.0 + (abs(a) + abs(b)) / max(b - a, 1e-300) * abs(math.log(nb / na))) / abs(slope)
        return val, err


def log_density(sampling, coalescent, demo, left_at_coalescent=False):
    """returns (log density, allowed absolute round-off)"""
    ev = sorted([(t, 0) for t in sampling] + [(t, 1) for t in coalescent])
    cuts = sorted(set(demo.breaks))
    k = 0
    lp = 0.0
    err = 0.0
    prev = ev[0][0]
    for t, kind in ev:
        if t > prev and k > 1:
            pts = [prev] + [b for b in cuts if prev < b < t] + [t]
            for a, b in zip(pts[:-1], pts[1:]):
                v, e = demo.integral(a, b)
                lp -= k * (k - 1) / 2.0 * v
                err += k * (k - 1) / 2.0 * e
        if kind == 1:
            n_t = demo.N_left(t) if left_at_coalescent else demo.N(t)
            lp -= math.log(n_t)
            k -= 1
        else:
            k += 1
        prev = t
    return lp, err


def log_density_quad(sampling, coalescent, demo, left_at_coalescent=False):
    """audit: the same by numerical quadrature of 1/N(t)"""
    from scipy.integrate import quad

    ev = sorted([(t, 0) for t in sampling] + [(t, 1) for t in coalescent])
    cuts = sorted(set(demo.breaks))
    k = 0
    lp = 0.0
    prev = ev[0][0]
    for t, kind in ev:
        if t > prev and k > 1:
            pts = [prev] + [b for b in cuts if prev < b < t] + [t]
            for a, b in zip(pts[:-1], pts[1:]):
                mid_shift = (b - a) * 1e-12
                I = quad(lambda s: 1.0 / demo.N(min(max(s, a + mid_shift), b - mid_shift)), a, b, epsabs=1e-14, epsrel=1e-13, limit=200)[0]
                lp -= k * (k - 1) / 2.0 * I
        if kind == 1:
            lp -= math.log(demo.N_left(t) if left_at_coalescent else demo.N(t))
            k -= 1
        else:
            k += 1
        prev = t
    return lp


def skyride(thetas, coalescent):
    cs = sorted(coalescent)
    # theta_j applies on (c_{j-1}, c_j]; beyond the root irrelevant
    return Piecewise(list(thetas), cs[:-1])
