"""Valid genealogies by construction (no rejection): sampling times with ties / serial
sampling, coalescent times consistent with the lineage counts (k >= 2 just before every
coalescence), a topology given as the sequence of joined lineages, and grids that never
coincide with a coalescent time (DESIGN section 6, "sort ties").

A genealogy is a JSON-serialisable dict
    {"n": n, "samp": [n sampling times, min 0, in taxon order],
     "coal": [n-1 coalescent times, increasing], "joins": [[a, b], ...]}
joins[i] = labels of the two lineages merged by the i-th coalescence (tips 0..n-1 = taxon
index, internal nodes n+j = the node born at coal[j]).
"""
from hypothesis import strategies as st

from .basic import fl, logu


@st.composite
def genealogies(draw, min_n=2, max_n=12, hetero=None):
    n = draw(st.integers(min_n, max_n))
    if hetero is None:
        hetero = draw(st.booleans())
    if hetero:
        step = draw(st.sampled_from([0.25, 0.5, 1.0, 3.0]))
        kmax = draw(st.sampled_from([1, 2, 4, 12]))  # few distinct values => ties are common
        samp = [step * draw(st.integers(0, kmax)) for _ in range(n)]
        samp[draw(st.integers(0, n - 1))] = 0.0
    else:
        samp = [0.0] * n
    order = sorted(range(n), key=lambda i: (samp[i], i))
    pending = [samp[i] for i in order]
    idx = 0  # next pending sample
    t = 0.0
    active = []  # lineage labels: tips 0..n-1 (taxon index), internal n..2n-2 by birth order
    coal, joins = [], []

    def absorb_upto(tm):
        nonlocal idx
        while idx < n and pending[idx] <= tm:
            active.append(order[idx])
            idx += 1

    for i in range(n - 1):
        absorb_upto(t)
        while len(active) < 2:
            t = pending[idx]
            absorb_upto(t)
        # optionally let more samples enter before this coalescence
        if idx < n:
            extra = draw(st.sampled_from([0, 0, 0, 1, 2, n]))
            for _ in range(extra):
                if idx >= n:
                    break
                t = max(t, pending[idx])
                absorb_upto(t)
        if idx < n:
            # strictly inside (t, next sampling time); the fraction grid keeps it away from both ends
            nxt = pending[idx]
            f = draw(fl(0.05, 0.95))
            tc = t + f * (nxt - t)
            if not (t < tc < nxt):  # pathological rounding: go to the middle
                tc = 0.5 * (t + nxt)
        else:
            tc = t + draw(logu(1e-3, 10.0))
        a = draw(st.integers(0, len(active) - 1))
        b = draw(st.integers(0, len(active) - 2))
        if b >= a:
            b += 1
        la, lb = active[a], active[b]
        joins.append([la, lb])
        for x in sorted([a, b], reverse=True):
            active.pop(x)
        active.append(n + i)
        coal.append(tc)
        t = tc
    return {"n": n, "samp": samp, "coal": coal, "joins": joins}


@st.composite
def genealogies_scaled(draw, min_n=2, max_n=12, hetero=None):
    """a genealogy in a drawn time unit: all sampling and coalescent times multiplied by
    2**k, k = 0 half of the time, else uniform in -30..20 (1e-9 .. 1e6, log-uniform over the
    decades). A power of two is exact, so order, ties and distinctness are those of the unit
    genealogy. The factor is recorded as g["tscale"]."""
    g = draw(genealogies(min_n, max_n, hetero))
    k = draw(st.one_of(st.just(0), st.integers(-30, 20)))
    s = 2.0 ** k
    g["samp"] = [t * s for t in g["samp"]]
    g["coal"] = [t * s for t in g["coal"]]
    g["tscale"] = s
    return g


def tscale_band(g):
    s = g.get("tscale", 1.0)
    if s == 1.0:
        return "time-unit=1"
    if s < 1e-6:
        return "time-unit<1e-6"
    if s < 1.0:
        return "time-unit 1e-6..1"
    if s <= 1e3:
        return "time-unit 1..1e3"
    return "time-unit>1e3"


def taxon_names(n):
    return ["t%d" % i for i in range(n)]


def tree_of(g, coal=None):
    """newick (children in join order), and the internal heights in torchtree's node-index
    order (internal nodes numbered n.. in post-order, children left to right as written)"""
    n = g["n"]
    samp = g["samp"]
    coal = g["coal"] if coal is None else coal
    children = {n + i: (a, b) for i, (a, b) in enumerate(g["joins"])}
    root = 2 * n - 2
    names = taxon_names(n)
    post = []  # birth label of internal nodes in post-order

    def nw(node):
        if node < n:
            return names[node]
        l, r = children[node]
        s = "(%s,%s)" % (nw(l), nw(r))
        post.append(node)
        return s

    newick = nw(root) + ";"
    heights = [coal[b - n] for b in post]
    return newick, heights, children


def taxa_spec(g, id_="taxa"):
    names = taxon_names(g["n"])
    return {
        "id": id_,
        "type": "Taxa",
        "taxa": [{"id": nm, "type": "Taxon", "attributes": {"date": float(s)}} for nm, s in zip(names, g["samp"])],
    }


def time_tree_spec(g, heights_rows=None, id_="tree"):
    """TimeTreeModel JSON; heights_rows = list of coalescent-time vectors (one per batch row,
    each in birth order like g['coal']) or None for the unbatched tree"""
    if heights_rows is None:
        newick, h, _ = tree_of(g)
        tensor = h
    else:
        tensor = []
        for row in heights_rows:
            newick, h, _ = tree_of(g, row)
            tensor.append(h)
    return {
        "id": id_,
        "type": "TimeTreeModel",
        "newick": newick,
        "internal_heights": {"id": id_ + ".heights", "type": "Parameter", "tensor": tensor},
        "taxa": taxa_spec(g, id_ + ".taxa"),
    }


def times_events(g):
    """the `times` / `events` JSON form (events: 1 = sampling, 0 = coalescent), in an order
    that interleaves both kinds (by time) so that the selection by mask is exercised"""
    ev = [(t, 1) for t in g["samp"]] + [(t, 0) for t in g["coal"]]
    ev.sort(key=lambda e: (e[0], -e[1]))
    return [e[0] for e in ev], [e[1] for e in ev]


@st.composite
def grids(draw, coal_rows, m, regular=None, samp=(), tscale=1.0):
    """m-1 increasing grid points (theta has m entries), none equal to a coalescent time of any
    row; points before the first coalescence and beyond the root are drawn on purpose.
    positive sampling times (`samp`) are used as grid points now and then (harmless coincidence).
    returns {"grid": [...]} or {"cutoff": c} for the regular grid linspace(0, c, m)[1:]"""
    allc = sorted(set(c for row in coal_rows for c in row))
    root = allc[-1]
    scale = max(root, 1e-3 * tscale)  # tscale: time unit of the genealogy (genealogies_scaled)
    if regular is None:
        regular = draw(st.booleans())

    def clash(pts):
        return any(abs(p - c) <= 1e-9 * scale for p in pts for c in allc)

    if regular:
        cutoff = root * draw(st.sampled_from([0.3, 0.8, 1.013, 1.7, 4.0])) * draw(fl(0.9, 1.1))
        for _ in range(50):
            pts = [cutoff * k / (m - 1) for k in range(1, m)]
            if not clash(pts):
                break
            cutoff *= 1.0 + 1.0 / 1024
        return {"cutoff": cutoff}
    marks = [0.0] + allc
    stimes = sorted(set(float(t) for t in samp if t > 0))
    pts = set()
    tries = 0
    while len(pts) < m - 1 and tries < 10 * m:
        tries += 1
        where = draw(st.integers(0, len(marks) + 1))
        f = draw(fl(0.1, 0.9))
        if stimes and where == 0 and f < 0.5:
            p = stimes[draw(st.integers(0, len(stimes) - 1))]
        elif where >= len(marks) - 1:  # beyond the root (twice as likely as any one gap)
            p = root * (1.0 + 2.0 * f) + (1e-3 * tscale if root == 0 else 0.0)
        else:
            p = marks[where] + f * (marks[where + 1] - marks[where])
        if p > 0 and not clash([p]):
            pts.add(p)
    k = 1
    while len(pts) < m - 1:  # fill up (only when many draws collided): points beyond everything
        p = (max(pts) if pts else root) * (1.0 + 0.37 * k) + 0.011 * k * tscale
        k += 1
        if not clash([p]):
            pts.add(p)
    return {"grid": sorted(pts)}


def node_order(g):
    """birth labels of the internal nodes in torchtree's node-index order, and children"""
    newick, _, children = tree_of(g)
    n = g["n"]
    post = []

    def walk(node):
        if node >= n:
            walk(children[node][0])
            walk(children[node][1])
            post.append(node)

    walk(2 * n - 2)
    return post, children


def heights_from_ratios(g, ratios, root_height):
    """documented ratio parameterisation (ReparameterizedTimeTreeModel): ratios are indexed by
    internal node index - n (root excluded, it is the last); height = bound + ratio * (parent
    height - bound), bound = oldest tip below the node. Returns heights in node-index order."""
    n = g["n"]
    post, children = node_order(g)
    idx = {b: i for i, b in enumerate(post)}  # birth label -> node index - n
    bound = {}

    def bnd(node):
        if node < n:
            return float(g["samp"][node])
        if node not in bound:
            bound[node] = max(bnd(children[node][0]), bnd(children[node][1]))
        return bound[node]

    root = 2 * n - 2
    h = {root: float(root_height)}
    if not h[root] > bnd(root):
        raise ValueError("root height below the oldest tip")

    def down(node):
        for ch in children[node]:
            if ch >= n:
                b = bnd(ch)
                h[ch] = b + float(ratios[idx[ch]]) * (h[node] - b)
                down(ch)

    down(root)
    return [h[b] for b in post]


def ratio_tree_spec(g, ratios_rows, root_rows, batched, id_="tree"):
    """ReparameterizedTimeTreeModel JSON (ratios / root_height parameters `tree.ratios`, `tree.root_height`)"""
    newick, _, _ = tree_of(g)
    return {
        "id": id_,
        "type": "ReparameterizedTimeTreeModel",
        "newick": newick,
        "ratios": {"id": id_ + ".ratios", "type": "Parameter", "tensor": ratios_rows if batched else ratios_rows[0]},
        "root_height": {"id": id_ + ".root_height", "type": "Parameter", "tensor": [[r] for r in root_rows] if batched else [root_rows[0]]},
        "taxa": taxa_spec(g, id_ + ".taxa"),
    }
