"""basic bounded strategies"""
import math

from hypothesis import strategies as st


def fl(lo, hi):
    return st.floats(min_value=lo, max_value=hi, allow_nan=False, allow_infinity=False, allow_subnormal=False)


def logu(lo, hi):
    """log-uniform float in [lo, hi]"""
    lo, hi = float(lo), float(hi)
    return fl(math.log(lo), math.log(hi)).map(lambda v: min(hi, max(lo, math.exp(v))))


def sample_shapes(max_s=5):
    """[], [S], [S,K]"""
    return st.one_of(
        st.just([]),
        st.lists(st.integers(1, max_s), min_size=1, max_size=1),
        st.lists(st.integers(1, max_s), min_size=2, max_size=2),
    )


@st.composite
def simplex(draw, k, spread=None):
    """frequencies = normalised exponentials of a vector whose spread is itself drawn"""
    s = draw(fl(0.0, math.log(1e4))) if spread is None else spread
    v = [draw(fl(0.0, 1.0)) * s for _ in range(k)]
    m = max(v)
    e = [math.exp(x - m) for x in v]
    t = sum(e)
    return [x / t for x in e]
