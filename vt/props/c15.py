"""C15 - every MCMC transition is a Metropolis-Hastings step on the stated target.

A generated case is a complete run: target + operator set + loggers, built from JSON and run
through the real MCMC.run().  Nothing is added to /repo: the per-iteration record is
reconstructed from the harness side (DESIGN 2.6, A.8) by
  * replacing mcmc.joint by a recording CallableModel that delegates to the real joint,
  * replacing the bound step / accept / reject / tune of every operator instance,
  * replacing torch.rand / randn / randint by recorders for the duration of run() (the
    acceptance draw is the torch.rand call whose caller frame is `run` in mcmc.py),
  * recording the momentum drawn by an HMC operator's Hamiltonian.sample_momentum.
"""
import contextlib
import csv
import math
import os
import shutil
import sys
import tempfile

import numpy as np
import torch
from hypothesis import strategies as st
from scipy.special import gammaln

from vt import tt
from vt.gen import coal as gc
from vt.gen.basic import fl, logu, simplex
from vt.oracle import gmrf as og
from vt.oracle import leapfrog as lf
from vt.runner import HarnessError, Res, Sub, impl_frame, raises_kind

PROPERTY = "C15"
LEVEL = "exploration"
RULE = (
    "A case is one complete MCMC run built from JSON and executed by the real MCMC.run(): target in {toy = "
    "JointDistributionModel of 2-6 generated blocks (Normal, MVN, gamma-through-exp with Jacobian, Gamma, LogNormal, "
    "Dirichlet, hierarchical Normal whose loc and scale are themselves sampled parameters, GMRF field whose precision is "
    "a positive parameter sampled without transform and without validated prior: NaN target outside the support); skygrid = generated "
    "genealogy (3-8 tips, serial or contemporaneous) + PiecewiseConstantCoalescentGridModel (generated grid / "
    "cutoff) + GMRF on log theta + Gamma prior on the precision; phylo = 4-5 taxon unrooted HKY (+Weibull) "
    "likelihood on a generated alignment with priors on branch lengths, kappa (plain or log-parameterised with "
    "Jacobian), frequencies, shape}; 1-5 operators drawn from "
    "{ScalerOperator on 1-3 positive parameters, SlidingWindowOperator on 1-3 parameters that are unconstrained or "
    "positive-without-validation (proposals outside the support give a non-finite target: outright rejection), "
    "DirichletOperator on a simplex, GMRFPiecewiseCoalescentBlockUpdatingOperator on (log theta, precision), HMCOperator "
    "on 1-3 toy parameters, unconstrained or positive sampled without transform with step sizes up to 1.5 (trajectories "
    "that leave the support are retried with a fresh momentum; ten failures = infinite ratio = outright rejection) (steps 1-8, identity / diagonal / dense mass, no adaptor or AdaptiveStepSize)} with generated "
    "weights, initial tuning parameters, target acceptance probabilities and adaptation on / off (HMC: generated "
    "divergence_threshold incl. small values; block update: generated stop_value / max_iterations through the constructor); "
    "every sampled parameter is written as a Parameter or (about half of them) as a slice ViewParameter 'a:b' / strided "
    "'a:b:k' / index-list ('b:a:-1') view of a larger base, a CatParameter of two Parameters, or (positive ones) a "
    "TransformedParameter exp(x) with the target a density in the transformed variable - the chain state is the list of "
    "underlying Parameters including the part of a base no view covers; HMC only on plain Parameters (it raises "
    "AttributeError on the others); 20-200 "
    "iterations; 1-2 loggers (file Logger with generated delimiter / ContainerLogger, every in 1,2,3,7) logging all "
    "parameters and the joint; torch.manual_seed from the case. Every transition is checked against (a) the target "
    "from a fresh rebuild of the specification at the proposed values, (b) the decision rule with the recorded "
    "uniform, (c) an independent Hastings ratio per operator type, (d) bit-identical restoration after a reject "
    "(and the proposed state after an accept), (f) tuning direction; every logged row against (e). Non-trivial = "
    "the run contains an accept, a reject and >= 2 operator types. Distinct = the complete generated "
    "case (target, operator set, loggers, iterations, seed)."
)
ASSUMPTIONS = [
    "operators are attached to parameters of the kind their callers attach them to (scaler: positive; sliding window / "
    "HMC: unconstrained; Dirichlet: simplex; block update: skygrid log-field + precision); other attachments leave the "
    "support and are mis-specified runs",
    "density comparisons: |used - fresh| <= 1e-9 * max(1,|fresh|); decision rule not asserted when |log u - (delta + H)| "
    "< 1e-7 (rounding tie); delta and H in the decision rule are the oracle's values (fresh rebuild, independent Hastings "
    "ratio); where the Hastings reference is unguarded or already reported as different, the ratio returned by the operator "
    "is used so that one root cause gives one bucket; the acceptance probability handed to tune() is compared with "
    "min(1, exp(delta + H)) to 1e-7 (kind acceptance_probability: a stale carried log density shows here at every "
    "iteration, in the decision only when u falls between the two values)",
    "Hastings oracle: scaler / sliding window - the factor / shift is read off the states and matched to the recorded "
    "uniform (s = a + u(1/a - a), shift = w(u - 1/2)); uniform-in-s gives -log s, a symmetric shift gives 0. Dirichlet - "
    "log Dir(x | c x') - log Dir(x' | c x) with scipy gammaln, and the proposal is re-drawn from "
    "torch.distributions.Dirichlet(c x) at the recorded generator state. Block update - Gaussian forward / backward "
    "densities re-implemented in numpy (sufficient statistics from the Kingman oracle, GMRF structure matrix from its "
    "definition, the operator's documented Newton rule: start at the current field, stop when |gradient| <= 0.1 or after "
    "200 iterations); the precision factor is matched to the recorded uniforms of the Knorr-Held/Rue mixture "
    "(density proportional to 1 + 1/f on [1/A, A]), whose Hastings contribution is 0. HMC - the recorded momentum is "
    "pushed through a numpy reference leapfrog with closed-form gradients of the toy target; H = K0 - K1. HMC transitions "
    "whose reference trajectory amplifies a 1e-9 perturbation more than 1e3 times (unstable step size) are only checked "
    "for (a), (b), (d)",
    "HMC is generated on toy targets only (closed-form gradients); the integrator itself is C16's subject. An infinite "
    "ratio from HMC is accepted as 'no proposal' only if the reference trajectory of the last recorded momentum also fails; "
    "if that trajectory is a good proposal the true ratio is K0 - K1 (kind hastings)",
    "non-plain parameters: the Hastings oracle works on the values the operator sees (resolved from the bases); a proposal "
    "may change only the covered part of the bases of the operator's parameters; restoration after a reject is bit-identical "
    "on the bases; values seen through exp(log(.)) count as unchanged up to 1e-13 relative in the proposal-form check only",
    "block update tolerance 1e-10 * max(1,|H|) * max(1, amplification) (torch and numpy agree to 5e-14 on HEAD); the numpy "
    "reference follows the operator's stopping rule: start at the conditioning field, iterate while |gradient| > stop_value "
    "and fewer than max_iterations steps",
    "tuning direction: the size of the proposal is boldness(type, tuning_parameter), read off the proposal law (scaler / block "
    "update: log-width of the multiplier interval between t and 1/t - the same on both sides of 1; sliding window: |width|; "
    "Dirichlet: total variance 1/(c+1); HMC: |step size|), evaluated before and after every tune() call; selftest() samples "
    "proposals of every operator with common random numbers on a grid of tuning parameters (scaler on both sides of 1) and "
    "requires their spread to grow exactly as boldness() says; DualAveragingStepSize is not generated (not monotone per step)",
    "sub-check tune_sequences: an operator built from JSON on a fixed small target, initial tuning parameter over the whole "
    "admissible range incl. next to the boundary, tune() called directly up to 8000 times with generated segments of "
    "acceptance probabilities (0, below target, above target, 1; lengths 1..3000): same clause after every call",
    "non-finite combinations the statement determines: current -inf (zero density, only possible at the start of a run: a start "
    "outside a bounded prior made with validate_args=False through the Distribution constructor) and finite proposal: change = "
    "+inf, min(1, exp(.)) = 1, the move must be accepted whatever the draw and tune() gets 1; finite -> -inf and finite -> NaN: "
    "0, rejected; -inf -> -inf (another operator moves while the chain is still outside): the proposal has zero density, rejected",
    "outright rejection (re-derived from the statement): a proposal whose target is 0 / undefined (-inf or NaN from the fresh "
    "rebuild), or that the operator could not make (infinite ratio), has acceptance probability min(1, exp(.)) = 0: it must "
    "be rejected, every parameter restored bit-identically, tune() must be handed 0 (kind acceptance_probability, tag "
    "outright) and, 0 being below any target, must not make the operator bolder. For EVERY iteration the tuning direction is "
    "judged by the oracle's acceptance probability of that iteration's own proposal, not by the value tune() received",
    "HMC with retries: every momentum drawn inside step() is recorded; the Hastings term must be K(p_used) - K(p_L) for the "
    "last momentum drawn (the trajectory that produced the proposal, re-computed by the numpy leapfrog, whose gradient is "
    "undefined outside the support so that abandoned trials are recognisable); that abandoned trials really left the support "
    "is counted, not asserted",
    "exceptions: ZeroDivisionError of the end-of-run summary when an operator was never selected, and torch argument "
    "validation errors after a proposal left the support by underflow, are counted (labels) and the transitions before "
    "them are still checked; the property does not say that a run never raises. Any other exception is reported",
    "logged rows: the row with sample index i is compared with the chain state after iteration i (a row written before "
    "accept/reject is resolved is not the state of the chain)",
]

TOL = 1e-9
BLOCK = "GMRFPiecewiseCoalescentBlockUpdatingOperator"
OPCLS = {"scaler": "ScalerOperator", "sliding": "SlidingWindowOperator", "dirichlet": "DirichletOperator", "block": BLOCK, "hmc": "HMCOperator"}
TOPOLOGIES4 = ["((A,B),C,D);", "((A,C),B,D);", "((A,D),B,C);"]
TOPOLOGIES5 = ["(((A,B),C),D,E);", "((A,B),(C,D),E);", "((A,E),(B,D),C);"]


def close(a, b, tol=TOL):
    a, b = float(a), float(b)
    if math.isnan(a) or math.isnan(b):
        return False
    if math.isinf(a) or math.isinf(b):
        return a == b
    return abs(a - b) <= tol * max(1.0, abs(b))


def rnd(v, nd=6):
    if isinstance(v, (list, tuple)):
        return [rnd(x, nd) for x in v]
    if isinstance(v, float):
        return float("%.*g" % (nd, v))
    return v


# =========================================================================== generation
def _spd(draw, d, smin, smax):
    B = np.array([[draw(fl(-1.0, 1.0)) for _ in range(d)] for _ in range(d)], dtype=float).reshape(d, d)
    s = draw(logu(smin, smax))
    A = s * (B @ B.T / d + draw(fl(0.2, 1.0)) * np.eye(d))
    return (0.5 * (A + A.T)).tolist()


@st.composite
def toy_block(draw, i, kind):
    n = draw(st.integers(1, 4))
    b = {"kind": kind, "id": "x%d" % i, "n": n}
    if kind == "normal":
        b.update(loc=[draw(fl(-3.0, 3.0)) for _ in range(n)], scale=[draw(logu(0.2, 5.0)) for _ in range(n)], init=[draw(fl(-3.0, 3.0)) for _ in range(n)])
        # now and then the whole block lives on a tiny absolute scale (values, moves and rejections of order 1e-9 .. 1e-12:
        # far below the absolute tolerance of any approximate comparison)
        unit = draw(st.sampled_from([None, None, None, None, 1e-9, 1e-12]))
        if unit:
            b.update(unit=unit, loc=[v * unit for v in b["loc"]], scale=[v * unit for v in b["scale"]], init=[v * unit for v in b["init"]])
    elif kind == "loggamma":
        b.update(conc=[draw(logu(0.5, 8.0)) for _ in range(n)], rate=[draw(logu(0.2, 5.0)) for _ in range(n)], init=[draw(fl(-2.0, 2.0)) for _ in range(n)])
    elif kind == "mvn":
        n = max(n, 2)
        b.update(n=n, loc=[draw(fl(-3.0, 3.0)) for _ in range(n)], prec=_spd(draw, n, 0.1, 10.0), init=[draw(fl(-3.0, 3.0)) for _ in range(n)])
    elif kind == "gamma":
        b.update(conc=[draw(logu(0.5, 8.0)) for _ in range(n)], rate=[draw(logu(0.2, 5.0)) for _ in range(n)], init=[draw(logu(0.05, 10.0)) for _ in range(n)])
    elif kind == "lognormal":
        b.update(loc=[draw(fl(-2.0, 2.0)) for _ in range(n)], scale=[draw(logu(0.2, 2.0)) for _ in range(n)], init=[draw(logu(0.05, 10.0)) for _ in range(n)])
        if draw(st.sampled_from([False, False, True])):
            # narrow target: most proposals of an operator of ordinary size are rejected (long reject sequences, tuning under load)
            b["scale"] = [draw(logu(0.003, 0.05)) for _ in range(n)]
            b["init"] = [math.exp(m) * draw(fl(0.95, 1.05)) for m in b["loc"]]
    elif kind == "dirichlet":
        n = draw(st.integers(2, 5))
        b.update(n=n, alpha=[draw(fl(1.5, 6.0)) for _ in range(n)], init=draw(simplex(n, spread=draw(fl(0.0, 2.0)))))
    elif kind == "uniform":
        # bounded prior: x ~ Uniform(low, high) x Normal(loc, scale), the Uniform made by the shipped Distribution's
        # constructor with validate_args=False (outside the support the log density is -inf, not an exception); the
        # start is outside the support half of the time: a run that begins on a state of zero density
        n = 1
        low, width = draw(fl(-2.0, 2.0)), draw(logu(0.5, 4.0))
        where = draw(st.sampled_from(["inside", "below", "above", "above"]))
        d = draw(logu(0.05, 2.0))
        init = {"inside": low + width * draw(fl(0.05, 0.95)), "below": low - d, "above": low + width + d}[where]
        b.update(n=1, low=low, high=low + width, loc=[low + width * draw(fl(0.0, 1.0))], scale=[draw(logu(0.2, 3.0))], init=[init])
    elif kind == "gmrf":
        # field ~ GMRF(precision); the precision is a positive parameter sampled WITHOUT a transform and without a
        # validated prior: outside its support the target is NaN (not an exception), the case MCMC.run rejects outright
        n = max(n, 2)
        b.update(n=n, init=[draw(fl(-2.0, 2.0)) for _ in range(n)], tau_init=draw(logu(0.3, 3.0)))
    elif kind == "hnormal":
        n = max(n, 2)
        b.update(n=n, init=[draw(fl(-3.0, 3.0)) for _ in range(n)], m_loc=draw(fl(-2.0, 2.0)), m_scale=draw(logu(0.5, 3.0)), m_init=draw(fl(-2.0, 2.0)),
                 s_conc=draw(logu(1.0, 6.0)), s_rate=draw(logu(0.5, 4.0)), s_init=draw(logu(0.3, 3.0)))
    return b


REAL_KINDS = ["normal", "normal", "loggamma", "mvn", "hnormal", "gmrf", "gmrf"]
POS_KINDS = ["gamma", "gamma", "lognormal"]


@st.composite
def toy_target(draw):
    kinds = [draw(st.sampled_from(REAL_KINDS)), draw(st.sampled_from(POS_KINDS))]
    extra = draw(st.lists(st.sampled_from(REAL_KINDS + POS_KINDS + ["dirichlet", "dirichlet", "dirichlet", "uniform", "uniform", "uniform"]), min_size=0, max_size=4))
    kinds += extra
    if "uniform" not in kinds and draw(st.sampled_from([False, False, True])):
        kinds.append("uniform")
    return {"blocks": [draw(toy_block(i, k)) for i, k in enumerate(kinds)]}


@st.composite
def skygrid_target(draw):
    g = draw(gc.genealogies(3, 8))
    m = draw(st.integers(2, 6))
    grid = draw(gc.grids([g["coal"]], m, samp=g["samp"]))
    # log population sizes start within a factor e^2 of the time scale of the genealogy (far away the Newton
    # iteration of the block update diverges and its proposal is numerically chaotic; such transitions are
    # recognised by the probe in hastings_oracle and only checked for (a), (b), (d))
    off = math.log(max(g["coal"]))
    return {"g": g, "m": m, "grid": grid, "gamma": [off + draw(fl(-2.0, 2.0)) for _ in range(m)], "tau": draw(logu(0.1, 10.0)),
            "tau_prior": [draw(logu(0.5, 3.0)), draw(logu(0.1, 2.0))]}


@st.composite
def phylo_target(draw):
    n = draw(st.sampled_from([4, 4, 5]))
    nsites = draw(st.integers(4, 12))
    p = {"n": n, "topology": draw(st.integers(0, 2)),
         "seqs": ["".join(draw(st.sampled_from("ACGTACGTACGTACGTN-")) for _ in range(nsites)) for _ in range(n)],
         "bl": [draw(logu(0.01, 0.5)) for _ in range(2 * n - 3)], "kappa": draw(logu(0.5, 8.0)), "kappa_log": draw(st.booleans()),
         "freqs": draw(simplex(4, spread=draw(fl(0.0, 1.5)))), "freqs_alpha": draw(fl(1.5, 5.0)),
         # (a flat prior on the branch lengths + a sliding window on them is NOT generated: a negative length is outside
         # the domain of the likelihood, which then returns finite numbers that depend on the history of the instance,
         # and the chain accepts such states; that is a mis-specified run, not an outright rejection)
         "flat_bl": False}
    if draw(st.booleans()):
        p["shape"] = draw(logu(0.2, 5.0))
        p["categories"] = draw(st.integers(2, 4))
    return p


def params_of(c):
    """ordered list of (id, kind, initial values) of the sampled parameters of the target"""
    t = c["target"]
    if t == "toy":
        out = []
        for b in c["blocks"]:
            k = b["kind"]
            if k == "uniform":
                out.append((b["id"], "bounded", b["init"]))
            elif k == "gmrf":
                out.append((b["id"], "real", b["init"]))
                out.append((b["id"] + ".tau", "posfree", [b["tau_init"]]))
            elif k == "hnormal":
                out.append((b["id"] + ".m", "real", [b["m_init"]]))
                out.append((b["id"] + ".s", "positive", [b["s_init"]]))
                out.append((b["id"], "real", b["init"]))
            elif k in ("normal", "loggamma", "mvn"):
                out.append((b["id"], "real", b["init"]))
            elif k in ("gamma", "lognormal"):
                out.append((b["id"], "positive", b["init"]))
            else:
                out.append((b["id"], "simplex", b["init"]))
        return out
    if t == "skygrid":
        return [("theta.log", "real", c["gamma"]), ("tau", "positive", [c["tau"]])]
    p = c["phylo"]
    out = [("bl", "posfree" if p.get("flat_bl") else "positive", p["bl"])]
    out.append(("kappa.log", "real", [math.log(p["kappa"])]) if p["kappa_log"] else ("kappa", "positive", [p["kappa"]]))
    out.append(("freqs", "simplex", p["freqs"]))
    if "shape" in p:
        out.append(("shape", "positive", [p["shape"]]))
    return out


# ------------------------------------------------------------------ how a sampled parameter is written
# c["reps"][id] describes the object the operators (and the target) see under `id`:
#   absent / {"rep": "plain"}                       a Parameter
#   {"rep": "slice", "pre": [...], "post": [...]}    ViewParameter "a:b" of the Parameter id.base = pre + values + post
#   {"rep": "strided", "step": k, "fill": [...]}     ViewParameter "0:n*k:k" of id.base (values interleaved with fill)
#   {"rep": "neg", "pre": [...], "post": [...]}      ViewParameter "b:a:-1" (an index-list view) of id.base = pre + reversed values + post
#   {"rep": "cat", "cut": k}                         CatParameter of the Parameters id.p0 = values[:k], id.p1 = values[k:]
#   {"rep": "exp"}                                   TransformedParameter exp of the Parameter id.log (the target is a density in
#                                                    the transformed variable: no Jacobian term, so that a scaler's -log s applies)
# The chain state is the list of underlying Parameters (bases), including the part of a base no view covers.
REP_CLASS = {"plain": "plain", "slice": "slice_view", "strided": "slice_view", "neg": "index_view", "cat": "cat", "exp": "transformed"}


def rep_of(c, i):
    return (c.get("reps") or {}).get(i) or {"rep": "plain"}


def layout(c):
    """-> (bases: [(base id, initial values)], derived: [JSON of the non-plain objects], cover: {base id: (param id, covered index list)})"""
    bases, derived, cover = [], [], {}
    for i, kind, v in params_of(c):
        v = [float(x) for x in v]
        n = len(v)
        r = rep_of(c, i)
        k = r["rep"]
        if k == "plain":
            bases.append((i, v))
            cover[i] = (i, list(range(n)))
        elif k == "slice":
            a = len(r["pre"])
            bases.append((i + ".base", list(r["pre"]) + v + list(r["post"])))
            derived.append({"id": i, "type": "ViewParameter", "parameter": i + ".base", "indices": "%d:%d" % (a, a + n)})
            cover[i + ".base"] = (i, list(range(a, a + n)))
        elif k == "strided":
            st_ = r["step"]
            base = []
            for j, x in enumerate(v):
                base += [x] + [r["fill"][(j * (st_ - 1) + t) % len(r["fill"])] for t in range(st_ - 1)]
            bases.append((i + ".base", base))
            derived.append({"id": i, "type": "ViewParameter", "parameter": i + ".base", "indices": "0:%d:%d" % (n * st_, st_)})
            cover[i + ".base"] = (i, list(range(0, n * st_, st_)))
        elif k == "neg":
            a = len(r["pre"])
            bases.append((i + ".base", list(r["pre"]) + v[::-1] + list(r["post"])))
            derived.append({"id": i, "type": "ViewParameter", "parameter": i + ".base", "indices": "%d:%d:-1" % (a + n - 1, a - 1)})
            cover[i + ".base"] = (i, list(range(a + n - 1, a - 1, -1)))
        elif k == "cat":
            cut = r["cut"]
            bases.append((i + ".p0", v[:cut]))
            bases.append((i + ".p1", v[cut:]))
            derived.append({"id": i, "type": "CatParameter", "parameters": [i + ".p0", i + ".p1"], "dim": -1})
            cover[i + ".p0"] = (i, list(range(cut)))
            cover[i + ".p1"] = (i, list(range(n - cut)))
        elif k == "exp":
            bases.append((i + ".log", [math.log(x) for x in v]))
            derived.append({"id": i, "type": "TransformedParameter", "transform": "torch.distributions.ExpTransform", "x": i + ".log"})
            cover[i + ".log"] = (i, list(range(n)))
        else:
            raise HarnessError("unknown representation %r" % (k,))
    return bases, derived, cover


def initial_state(c):
    return {b: list(v) for b, v in layout(c)[0]}


def resolve(c, state):
    """values of the sampled parameters as the operators see them (id -> list), from the values of the bases"""
    out = {}
    for i, kind, v in params_of(c):
        n = len(v)
        r = rep_of(c, i)
        k = r["rep"]
        if k == "plain":
            out[i] = list(state[i])
        elif k == "slice":
            a = len(r["pre"])
            out[i] = list(state[i + ".base"][a:a + n])
        elif k == "strided":
            out[i] = list(state[i + ".base"][0:n * r["step"]:r["step"]])
        elif k == "neg":
            a = len(r["pre"])
            out[i] = list(state[i + ".base"][a:a + n][::-1])
        elif k == "cat":
            out[i] = list(state[i + ".p0"]) + list(state[i + ".p1"])
        else:
            out[i] = [math.exp(x) if x < 700 else float("inf") for x in state[i + ".log"]]
    return out


@st.composite
def representations(draw, c):
    reps = {}
    for i, kind, v in params_of(c):
        n = len(v)
        choices = ["plain", "plain", "plain", "slice", "strided", "neg"]
        if n >= 2:
            choices.append("cat")
        if kind == "positive":
            choices.append("exp")
        k = draw(st.sampled_from(choices))
        fillv = fl(0.5, 9.0) if kind != "real" else fl(-9.0, 9.0)
        if k == "slice":
            reps[i] = {"rep": k, "pre": [draw(fillv) for _ in range(draw(st.integers(0, 2)))], "post": [draw(fillv) for _ in range(draw(st.integers(0, 2)))]}
            if not reps[i]["pre"] and not reps[i]["post"]:
                reps[i]["post"] = [7.0]
        elif k == "strided":
            reps[i] = {"rep": k, "step": draw(st.integers(2, 3)), "fill": [draw(fillv) for _ in range(2)]}
        elif k == "neg":
            reps[i] = {"rep": k, "pre": [draw(fillv) for _ in range(draw(st.integers(1, 2)))], "post": [draw(fillv) for _ in range(draw(st.integers(0, 2)))]}
        elif k == "cat":
            reps[i] = {"rep": k, "cut": draw(st.integers(1, n - 1))}
        elif k == "exp":
            reps[i] = {"rep": k}
    return reps


@st.composite
def op_common(draw, kind):
    return {"type": kind, "weight": draw(logu(0.2, 5.0)), "target_acc": draw(fl(0.1, 0.9)), "adapt": draw(st.sampled_from([True, True, True, False]))}


@st.composite
def subset(draw, ids, kmax=3):
    k = draw(st.integers(1, min(kmax, len(ids))))
    return list(draw(st.permutations(ids)))[:k]


@st.composite
def operators(draw, c):
    ps = params_of(c)
    units = {b["id"]: b["unit"] for b in c.get("blocks", []) if b.get("unit")}
    tiny = [i for i, k, _ in ps if i in units]  # sampled by a dedicated sliding window whose width is of their own scale
    real = [i for i, k, _ in ps if k == "real" and i not in units]
    free = [i for i, k, _ in ps if k == "posfree"]  # positive, no transform, out of support = non-finite target
    pos = [i for i, k, _ in ps if k == "positive"] + free
    sim = [i for i, k, _ in ps if k == "simplex"]
    size = {i: len(v) for i, _, v in ps}
    avail = []
    if pos:
        avail.append("scaler")
    if real or free:
        avail.append("sliding")
    if sim:
        avail += ["dirichlet"]
    # HMCOperator needs parameter.grad / a requires_grad setter: Parameter only (views, concatenations and transformed
    # parameters raise AttributeError on HEAD), so it is attached to plainly written parameters
    plain_hmc = [i for i in real + pos if rep_of(c, i)["rep"] == "plain"]
    if c["target"] == "toy" and plain_hmc:
        avail += ["hmc"]
    if c["target"] == "skygrid":
        avail += ["block", "block"]
    kinds = draw(st.lists(st.sampled_from(avail), min_size=1, max_size=5))
    if c["target"] == "skygrid" and "block" not in kinds:
        kinds[0] = "block"
    if len(set(kinds)) < 2 and len(set(avail)) >= 2 and draw(st.sampled_from([True] * 9 + [False])):
        kinds.append(draw(st.sampled_from([k for k in avail if k != kinds[0]])))
    ops = []
    for j, kind in enumerate(kinds):
        o = draw(op_common(kind))
        o["id"] = "op%d" % j
        if kind == "scaler":
            o["params"] = draw(subset(pos))
            # incl. scale factors within 1e-7..1e-2 of one (moves far smaller than any tolerance-based comparison)
            o["tuning"] = draw(st.one_of(logu(1e-3, 0.95), fl(0.5, 0.999), logu(1e-7, 1e-2).map(lambda e: 1.0 - e)))  # whole range (0,1), up to the boundary
        elif kind == "sliding":
            # on unconstrained parameters, or on positive ones whose out-of-support value gives a non-finite
            # target (outright rejection in MCMC.run); never on a parameter whose density validates its argument
            o["params"] = draw(subset(real + free + free))
            o["params"] = [i for k_, i in enumerate(o["params"]) if i not in o["params"][:k_]]
            o["tuning"] = draw(st.one_of(logu(0.01, 10.0), logu(0.01, 10.0), logu(1e-7, 1e-2)))  # incl. tiny windows
        elif kind == "dirichlet":
            o["params"] = [draw(st.sampled_from(sim))]
            o["tuning"] = draw(logu(20.0, 2000.0))
            o["target_acc"] = min(o["target_acc"], 0.6)
        elif kind == "block":
            o["params"] = ["theta.log", "tau"]
            o["tuning"] = draw(st.one_of(st.just(1.0), logu(1.05, 5.0), logu(1.05, 5.0), logu(1.05, 5.0)))
            # constructor keywords of the operator (not JSON attributes): stopping rule of its Newton-Raphson search
            if draw(st.sampled_from([False, False, True])):
                o["stop_value"] = draw(st.sampled_from([0.1, 2.0, 0.5, 1e-3, 5.0]))
                o["max_iterations"] = draw(st.sampled_from([200, 2, 1, 3, 5]))
        else:
            # unconstrained parameters, and positive ones sampled without a transform: a trajectory that leaves
            # the support raises inside the operator (argument validation / NaN potential) and is retried
            o["params"] = draw(subset(plain_hmc))
            d = sum(size[i] for i in o["params"])
            o["tuning"] = draw(logu(1e-3, 0.3)) if all(i in real for i in o["params"]) else draw(logu(1e-2, 1.5))
            o["steps"] = draw(st.integers(1, 8))
            mk = draw(st.sampled_from(["identity", "diag", "dense"]))
            if mk == "identity":
                o["mass"] = [1.0] * d
            elif mk == "diag":
                o["mass"] = [draw(logu(0.3, 3.0)) for _ in range(d)]
            else:
                o["mass"] = _spd(draw, d, 0.3, 3.0)
            o["adaptor"] = draw(st.sampled_from(["none", "none", "adaptive"]))
            # the threshold only triggers a message; None = default (1000)
            o["divergence"] = draw(st.sampled_from([None, None, 1e-3, 0.05, 0.5, 5.0, "inf"]))
            if o["adaptor"] == "adaptive":
                o["adapt"] = True
        ops.append(o)
    for i in [i for i, k, _ in ps if k == "bounded"]:
        # a window of the size of the support: proposals from outside land inside (-inf -> finite: acceptance probability 1)
        # and proposals from inside leave it (finite -> -inf: 0)
        b = [b for b in c["blocks"] if b["id"] == i][0]
        o = draw(op_common("sliding"))
        o["id"] = "op%d" % len(ops)
        o["params"] = [i]
        o["tuning"] = draw(logu(0.5, 4.0)) * (b["high"] - b["low"] + 2 * max(0.0, b["low"] - b["init"][0], b["init"][0] - b["high"]))
        ops.append(o)
    if tiny:
        o = draw(op_common("sliding"))
        o["id"] = "op%d" % len(ops)
        o["params"] = draw(subset(tiny))
        o["tuning"] = draw(logu(0.3, 10.0)) * min(units[i] for i in o["params"])
        ops.append(o)
    return ops


@st.composite
def cases(draw, targets=("toy", "toy", "toy", "skygrid", "skygrid", "phylo"), max_iter=200):
    t = draw(st.sampled_from(list(targets)))
    # three small draws (small ranges are drawn evenly; one wide integer range is biased to a few values)
    tseed = sum(draw(st.integers(0, 255)) << (8 * k) for k in range(3))
    c = {"target": t, "torch_seed": tseed, "iterations": draw(st.integers(20, max_iter if t != "phylo" else min(max_iter, 100)))}
    if t == "toy":
        c.update(draw(toy_target()))
    elif t == "skygrid":
        c.update(draw(skygrid_target()))
    else:
        c["phylo"] = draw(phylo_target())
    reps = draw(representations(c))
    if reps:
        c["reps"] = reps
    c["ops"] = draw(operators(c))
    nlog = draw(st.integers(1, 2))
    c["loggers"] = [{"kind": draw(st.sampled_from(["file", "file", "container"])), "every": draw(st.sampled_from([1, 1, 2, 3, 7])),
                     "delimiter": draw(st.sampled_from([None, "\t", ";"]))} for _ in range(nlog)]
    c["every"] = draw(st.sampled_from([0, 0, 7, 100]))
    return c


# =========================================================================== specifications
def _dist(id_, name, x, **params):
    return {"id": id_, "type": "Distribution", "distribution": "torch.distributions." + name, "x": x, "parameters": params}


def target_spec(c, state):
    """JSON of the target with the sampled parameters at `state` (id -> list of values).
    All sampled parameters come first as top-level elements; the last element is the joint."""
    bases, derived, _ = layout(c)
    out = [tt.P(b, [float(v) for v in state[b]]) for b, _ in bases] + derived
    t = c["target"]
    if t == "toy":
        dists = []
        for b in c["blocks"]:
            k, x = b["kind"], b["id"]
            if k == "normal":
                dists.append(_dist("d." + x, "Normal", x, loc=b["loc"], scale=b["scale"]))
            elif k == "loggamma":
                out.append({"id": x + ".z", "type": "TransformedParameter", "transform": "torch.distributions.ExpTransform", "x": x})
                dists.append(_dist("d." + x, "Gamma", x + ".z", concentration=b["conc"], rate=b["rate"]))
                dists.append(x + ".z")  # log |dz/dx|
            elif k == "mvn":
                dists.append({"id": "d." + x, "type": "MultivariateNormal", "x": x, "parameters": {"loc": tt.P("d.%s.loc" % x, b["loc"]), "precision_matrix": tt.P("d.%s.prec" % x, b["prec"])}})
            elif k == "gamma":
                dists.append(_dist("d." + x, "Gamma", x, concentration=b["conc"], rate=b["rate"]))
            elif k == "lognormal":
                dists.append(_dist("d." + x, "LogNormal", x, loc=b["loc"], scale=b["scale"]))
            elif k == "dirichlet":
                dists.append(_dist("d." + x, "Dirichlet", x, concentration=b["alpha"]))
            elif k == "uniform":
                dists.append("d." + x + ".bound")  # made by the constructor in build_all (validate_args is not a JSON attribute)
                dists.append(_dist("d." + x, "Normal", x, loc=b["loc"], scale=b["scale"]))
            elif k == "gmrf":
                dists.append({"id": "d." + x, "type": "GMRF", "x": x, "precision": x + ".tau"})
            else:
                dists.append(_dist("d." + x + ".m", "Normal", x + ".m", loc=[b["m_loc"]], scale=[b["m_scale"]]))
                dists.append(_dist("d." + x + ".s", "Gamma", x + ".s", concentration=[b["s_conc"]], rate=[b["s_rate"]]))
                dists.append(_dist("d." + x, "Normal", x, loc=x + ".m", scale=x + ".s"))
        out.append({"id": "joint", "type": "JointDistributionModel", "distributions": dists})
        return out
    if t == "skygrid":
        theta = {"id": "theta", "type": "TransformedParameter", "transform": "torch.distributions.ExpTransform", "x": "theta.log"}
        coalescent = {"id": "coalescent", "type": "PiecewiseConstantCoalescentGridModel", "theta": theta, "tree_model": gc.time_tree_spec(c["g"])}
        coalescent.update(c["grid"])
        gmrf = {"id": "gmrf", "type": "GMRF", "x": "theta.log", "precision": "tau"}
        prior = _dist("prior.tau", "Gamma", "tau", concentration=[c["tau_prior"][0]], rate=[c["tau_prior"][1]])
        out.append({"id": "joint", "type": "JointDistributionModel", "distributions": [coalescent, gmrf, prior]})
        return out
    p = c["phylo"]
    n = p["n"]
    names = list("ABCDE")[:n]
    out.append({"id": "taxa", "type": "Taxa", "taxa": [{"id": s, "type": "Taxon"} for s in names]})
    out.append({"id": "alignment", "type": "Alignment", "datatype": {"id": "dt", "type": "NucleotideDataType"}, "taxa": "taxa",
                "sequences": [{"taxon": s, "sequence": q} for s, q in zip(names, p["seqs"])]})
    dists, extra = [], []
    if p["kappa_log"]:
        out.append({"id": "kappa", "type": "TransformedParameter", "transform": "torch.distributions.ExpTransform", "x": "kappa.log"})
        extra.append("kappa")
    site = {"id": "sm", "type": "ConstantSiteModel"}
    if "shape" in p:
        site = {"id": "sm", "type": "WeibullSiteModel", "categories": p["categories"], "shape": "shape"}
        dists.append(_dist("prior.shape", "Exponential", "shape", rate=1.0))
    newick = (TOPOLOGIES4 if n == 4 else TOPOLOGIES5)[p["topology"]]
    like = {"id": "like", "type": "TreeLikelihoodModel",
            "tree_model": {"id": "tree", "type": "UnRootedTreeModel", "newick": newick, "branch_lengths": "bl", "taxa": "taxa"},
            "site_model": site, "substitution_model": {"id": "subst", "type": "HKY", "kappa": "kappa", "frequencies": "freqs"},
            "site_pattern": {"id": "patterns", "type": "SitePattern", "alignment": "alignment"}}
    dists = [like] + ([] if p.get("flat_bl") else [_dist("prior.bl", "Exponential", "bl", rate=10.0)]) + [_dist("prior.kappa", "LogNormal", "kappa", loc=1.0, scale=1.25),
             _dist("prior.freqs", "Dirichlet", "freqs", concentration=[p["freqs_alpha"]] * 4)] + dists + extra
    out.append({"id": "joint", "type": "JointDistributionModel", "distributions": dists})
    return out


def op_spec(c, o, sizes):
    d = {"id": o["id"], "type": OPCLS[o["type"]], "weight": o["weight"], "target_acceptance_probability": o["target_acc"], "disable_adaptation": not o["adapt"]}
    k = o["type"]
    if k == "scaler":
        d.update(parameters=o["params"], scaler=o["tuning"])
    elif k == "sliding":
        d.update(parameters=o["params"], width=o["tuning"])
    elif k == "dirichlet":
        d.update(parameters=o["params"], scaler=o["tuning"])
    elif k == "block":
        d.update(coalescent="coalescent", gmrf="gmrf", scaler=o["tuning"])
    else:
        d.update(joint="joint", parameters=o["params"], mass_matrix=tt.P(o["id"] + ".mass", o["mass"]),
                 integrator={"id": o["id"] + ".leapfrog", "type": "LeapfrogIntegrator", "steps": o["steps"], "step_size": o["tuning"]})
        if o.get("divergence") is not None:
            d["divergence_threshold"] = o["divergence"]
        if o.get("adaptor") == "adaptive":
            d["adaptors"] = [{"id": o["id"] + ".adaptor", "type": "AdaptiveStepSize", "integrator": o["id"] + ".leapfrog", "target_acceptance_probability": o["target_acc"]}]
            d["disable_adaptation"] = False
    return d


def mcmc_spec(c, tmp, containers):
    ids = [b for b, _ in layout(c)[0]]
    sizes = {i: len(v) for i, _, v in params_of(c)}
    loggers = []
    for j, lg in enumerate(c["loggers"]):
        if lg["kind"] == "file":
            d = {"id": "logger%d" % j, "type": "Logger", "parameters": ids + ["joint"], "every": lg["every"], "file_name": os.path.join(tmp, "log%d.csv" % j)}
            if lg.get("delimiter"):
                d["delimiter"] = lg["delimiter"]
        else:
            d = {"id": "logger%d" % j, "type": "ContainerLogger", "inputs": ids + ["joint"], "every": lg["every"], "container": containers[j]}
        loggers.append(d)
    return {"id": "mcmc", "type": "MCMC", "joint": "joint", "iterations": c["iterations"],
            "operators": [o["id"] if _by_constructor(o) else op_spec(c, o, sizes) for o in c["ops"]],
            "loggers": loggers, "checkpoint": os.path.join(tmp, "checkpoint.json"), "checkpoint_frequency": 10**9, "every": c["every"]}


def _by_constructor(o):
    return o["type"] == "block" and ("stop_value" in o or "max_iterations" in o)


def build_all(c, state, tmp=None, containers=None, with_mcmc=True):
    dic = {}
    spec = target_spec(c, state)
    for s in spec[:-1]:
        tt.build(s, dic)
    for b in c.get("blocks", []) if c["target"] == "toy" else []:
        if b["kind"] == "uniform":
            from torchtree.core.parameter import Parameter
            from torchtree.distributions.distributions import Distribution

            x = b["id"]
            dic["d." + x + ".bound"] = Distribution("d." + x + ".bound", torch.distributions.Uniform, dic[x],
                                                    {"low": Parameter(None, tt.T([b["low"]])), "high": Parameter(None, tt.T([b["high"]]))}, validate_args=False)
    tt.build(spec[-1], dic)
    mc = None
    if with_mcmc:
        for o in c["ops"]:
            if _by_constructor(o):
                # stop_value / max_iterations are keywords of the constructor only: the operator is made by its
                # constructor from the objects of the specification and the MCMC specification refers to it by id
                from torchtree.inference.mcmc.gmrf_block_updating import GMRFPiecewiseCoalescentBlockUpdatingOperator as B

                dic[o["id"]] = B(o["id"], dic["coalescent"], dic["gmrf"], o["weight"], o["target_acc"], o["tuning"], disable_adaptation=not o["adapt"],
                                 stop_value=o.get("stop_value", 0.1), max_iterations=o.get("max_iterations", 200))
        mc, _ = tt.build(mcmc_spec(c, tmp, containers), dic)
    return dic, mc


def fresh_density(c, state):
    """the target evaluated from scratch: a new object graph from the specification"""
    dic, _ = build_all(c, state, with_mcmc=False)
    with torch.no_grad():
        v = dic["joint"]()
    return float(v.sum()) if v.numel() == 1 else float("nan")


# =========================================================================== numpy oracles
_L2PI = math.log(2.0 * math.pi)


def _dir_logpdf(x, a):
    x, a = np.asarray(x, float), np.asarray(a, float)
    with np.errstate(all="ignore"):
        return float(gammaln(a.sum()) - gammaln(a).sum() + ((a - 1.0) * np.log(x)).sum())


def toy_logp(c, state):
    """closed-form log density of the toy target (calibration of the specification; numpy / scipy only)"""
    tot = 0.0
    for b in c["blocks"]:
        k = b["kind"]
        x = np.asarray(state[b["id"]], float)
        if k in ("normal", "mvn"):
            tot += lf.Block(b).logp(x)
        elif k == "loggamma":
            tot += lf.Block(dict(b, kind="gamma")).logp(x)
        elif k == "gamma":
            a, r = np.asarray(b["conc"]), np.asarray(b["rate"])
            tot += float(np.sum(a * np.log(r) - gammaln(a) + (a - 1) * np.log(x) - r * x))
        elif k == "lognormal":
            m, s = np.asarray(b["loc"]), np.asarray(b["scale"])
            tot += float(np.sum(-np.log(x) - np.log(s) - 0.5 * _L2PI - 0.5 * ((np.log(x) - m) / s) ** 2))
        elif k == "dirichlet":
            tot += _dir_logpdf(x, b["alpha"])
        elif k == "uniform":
            tot += lf.Block(dict(b, kind="normal")).logp(x)
            tot += -math.log(b["high"] - b["low"]) if b["low"] <= x[0] < b["high"] else -math.inf
        elif k == "gmrf":
            tot += og.gmrf_logpdf(x, float(state[b["id"] + ".tau"][0]), np.ones(len(x) - 1))
        else:
            m = float(state[b["id"] + ".m"][0])
            s = float(state[b["id"] + ".s"][0])
            tot += float(np.sum(-0.5 * ((x - m) / s) ** 2 - math.log(s) - 0.5 * _L2PI))
            tot += -0.5 * ((m - b["m_loc"]) / b["m_scale"]) ** 2 - math.log(b["m_scale"]) - 0.5 * _L2PI
            a, r = b["s_conc"], b["s_rate"]
            tot += a * math.log(r) - float(gammaln(a)) + (a - 1) * math.log(s) - r * s
    return tot


def toy_grad(c, state, ids):
    """gradient of toy_logp with respect to the (unconstrained) parameters `ids`, concatenated"""
    out = []
    by = {}
    for b in c["blocks"]:
        by[b["id"]] = b
    for i in ids:
        x = np.asarray(state[i], float)
        if i in by:
            b = by[i]
            k = b["kind"]
            if k in ("normal", "mvn"):
                out.append(lf.Block(b).grad(x))
            elif k == "loggamma":
                out.append(lf.Block(dict(b, kind="gamma")).grad(x))
            elif k == "hnormal":
                m, s = float(state[i + ".m"][0]), float(state[i + ".s"][0])
                out.append(-(x - m) / (s * s))
            elif k == "gamma":
                out.append((np.asarray(b["conc"]) - 1.0) / x - np.asarray(b["rate"]))
            elif k == "lognormal":
                out.append(-1.0 / x - (np.log(x) - np.asarray(b["loc"])) / (np.asarray(b["scale"]) ** 2 * x))
            elif k == "gmrf":
                tau = float(state[i + ".tau"][0])
                out.append(-tau * (og.gmrf_structure(np.ones(len(x) - 1)) @ x))
            else:
                raise HarnessError("no gradient for block kind %s" % k)
        elif i.endswith(".m"):
            b = by[i[:-2]]
            xx = np.asarray(state[b["id"]], float)
            s = float(state[b["id"] + ".s"][0])
            out.append(np.array([np.sum(xx - x[0]) / (s * s) - (x[0] - b["m_loc"]) / b["m_scale"] ** 2]))
        elif i.endswith(".s"):
            b = by[i[:-2]]
            xx = np.asarray(state[b["id"]], float)
            m = float(state[b["id"] + ".m"][0])
            out.append(np.array([(b["s_conc"] - 1.0) / x[0] - b["s_rate"] + np.sum((xx - m) ** 2) / x[0] ** 3 - len(xx) / x[0]]))
        elif i.endswith(".tau"):
            b = by[i[:-4]]
            xx = np.asarray(state[b["id"]], float)
            out.append(np.array([(len(xx) - 1) / (2.0 * x[0]) - 0.5 * float(np.sum(np.diff(xx) ** 2))]))
        else:
            raise HarnessError("no gradient for parameter %s" % i)
    return np.concatenate(out)


def block_reference(c, gamma, tau, gamma_new, tau_new, stop=0.1, maxit=200):
    """log q(gamma | gamma', tau) - log q(gamma' | gamma, tau') of the block update, and the forward
    mean / precision (for the path check). Gaussian approximation of
    p(gamma | data, tau) at the point where Newton (started at the conditioning field) stops."""
    g = c["g"]
    m = c["m"]
    grid = list(c["grid"]["grid"]) if "grid" in c["grid"] else np.linspace(0.0, c["grid"]["cutoff"], m)[1:].tolist()
    ss, cc = og.piecewise_stats("skygrid", g["samp"], g["coal"], m, grid)
    S = og.gmrf_structure(np.ones(m - 1))
    gamma, gamma_new = np.asarray(gamma, float), np.asarray(gamma_new, float)

    def mode(g0, Q):
        x = g0.copy()
        grad = np.full(m, np.inf)
        it = 0
        with np.errstate(all="ignore"):
            while np.linalg.norm(grad) > stop and it < maxit:
                J = Q + np.diag(np.exp(-x) * ss)
                grad = -(Q @ x) - cc + np.exp(-x) * ss
                x = x + np.linalg.solve(J, grad)
                it += 1
        return x

    def gauss(x, g_from, Q):
        mo = mode(g_from, Q)
        QW = Q + np.diag(ss * np.exp(-mo))
        b = ss * np.exp(-mo) * (mo + 1.0) - cc
        mu = np.linalg.solve(QW, b)
        d = x - mu
        sign, ld = np.linalg.slogdet(QW)
        if sign <= 0:
            return float("nan"), mu, QW
        return 0.5 * ld - 0.5 * float(d @ QW @ d), mu, QW

    with np.errstate(all="ignore"):
        back, _, _ = gauss(gamma, gamma_new, tau * S)
        fwd, mu_f, QW_f = gauss(gamma_new, gamma, tau_new * S)
    return back - fwd, mu_f, QW_f


# =========================================================================== recording
_REC = {}


def rec_class():
    if "cls" in _REC:
        return _REC["cls"]
    tt.load_all()
    from torchtree.core.model import CallableModel

    class RecordingJoint(CallableModel):
        """delegates to the real joint and records what every caller was given"""

        def __init__(self, inner, snap):
            super().__init__("c15.recording.joint")
            self.inner = inner
            self._snap = snap
            self.calls = []

        def __call__(self, *a, **k):
            v = self.inner(*a, **k)
            fr = sys._getframe(1)
            self.calls.append((v.detach().clone(), self._snap(), fr.f_code.co_name, os.path.basename(fr.f_code.co_filename)))
            return v

        def _call(self, *a, **k):
            return self.inner(*a, **k)

        def _sample_shape(self):
            return self.inner.sample_shape

        @classmethod
        def from_json(cls, data, dic):
            raise NotImplementedError

    _REC["cls"] = RecordingJoint
    return RecordingJoint


class Recorder:
    """wraps the operators of one MCMC object, its joint and the torch generators"""

    def __init__(self, mc, dic, ids):
        self.mc, self.dic, self.ids = mc, dic, ids
        self.trace = []
        self.cur = None
        self.stray = []  # generator draws / joint calls outside step..tune
        self.rec = rec_class()(mc.joint, self.snap)
        mc.joint = self.rec
        for k, op in enumerate(mc._operators):
            self._wrap(k, op)

    def snap(self):
        return {i: self.dic[i].tensor.detach().clone() for i in self.ids}

    def _wrap(self, k, op):
        st_, ac, rj, tn = op.step, op.accept, op.reject, op.tune
        R = self

        def step():
            R.cur = {"k": k, "cls": type(op).__name__, "epoch": R.mc._epoch, "before": R.snap(), "tp": float(op.tuning_parameter), "rands": [],
                     "momenta": [], "rng": torch.get_rng_state() if type(op).__name__ == "DirichletOperator" else None, "decisions": [],
                     "ncalls0": len(R.rec.calls), "adapt_count": op._adapt_count}
            h = st_()
            R.cur["H"] = h.detach().clone() if isinstance(h, torch.Tensor) else h
            R.cur["proposed"] = R.snap()
            R.cur["nrand_step"] = len(R.cur["rands"])
            return h

        def accept():
            ac()
            if R.cur is not None:
                R.cur["decisions"].append("accept")
                R.cur["after"] = R.snap()

        def reject():
            rj()
            if R.cur is not None:
                R.cur["decisions"].append("reject")
                R.cur["after"] = R.snap()

        def tune(acceptance_prob, *a, **kw):
            tp0 = float(op.tuning_parameter)
            tn(acceptance_prob, *a, **kw)
            if R.cur is not None:
                R.cur["acc_prob"] = float(acceptance_prob)
                R.cur["tp_tune0"] = tp0
                R.cur["tp_after"] = float(op.tuning_parameter)
                R.cur["end"] = R.snap()
                R.cur["calls"] = R.rec.calls[R.cur["ncalls0"]:]
                R.trace.append(R.cur)
                R.cur = None

        op.step, op.accept, op.reject, op.tune = step, accept, reject, tune
        if hasattr(op, "_hamiltonian"):
            sm = op._hamiltonian.sample_momentum

            def sample_momentum(*a, **kw):
                p = sm(*a, **kw)
                if R.cur is not None:
                    R.cur["momenta"].append(p.detach().clone())
                return p

            object.__setattr__(op._hamiltonian, "sample_momentum", sample_momentum)

    @contextlib.contextmanager
    def generators(self):
        real = {n: getattr(torch, n) for n in ("rand", "randn", "randint")}
        R = self

        def make(name):
            fn = real[name]

            def wrapped(*a, **k):
                v = fn(*a, **k)
                fr = sys._getframe(1)
                item = (name, fr.f_code.co_name, os.path.basename(fr.f_code.co_filename), v.detach().clone())
                (R.cur["rands"] if R.cur is not None else R.stray).append(item)
                return v

            return wrapped

        try:
            for n in real:
                setattr(torch, n, make(n))
            yield
        finally:
            for n, f in real.items():
                setattr(torch, n, f)


def to_state(snap):
    return {i: t.detach().reshape(-1).tolist() for i, t in snap.items()}


def same(a, b):
    """bit-identical parameter snapshots"""
    for i in a:
        x, y = a[i], b[i]
        if x.shape != y.shape or x.dtype != y.dtype or not torch.equal(x, y):
            return False
    return True


def diff_ids(a, b):
    return [i for i in a if a[i].shape != b[i].shape or a[i].dtype != b[i].dtype or not torch.equal(a[i], b[i])]


# =========================================================================== Hastings oracles
def _np(t):
    return t.detach().cpu().numpy().astype(float).reshape(-1)


def _draws(r, name, fn=None):
    return [x[3] for x in r["rands"][: r["nrand_step"]] if x[0] == name and (fn is None or x[1] == fn)]


def hastings_oracle(c, o, op, r):
    """-> (H or None when nothing can be asserted, problem string or None, info dict)"""
    kind = o["type"]
    info = {}
    _, _, cover = layout(c)
    sb, sp = to_state(r["before"]), to_state(r["proposed"])
    # the proposal may only touch what the operator was given: its parameters, and of a base only the part its view covers
    for b in diff_ids(r["before"], r["proposed"]):
        owner, idx = cover[b]
        if owner not in o["params"]:
            return None, "proposal_changed_foreign_parameter", {"changed": b}
        outside = [j for j in range(len(sb[b])) if j not in idx and (j >= len(sp[b]) or sb[b][j] != sp[b][j])]
        if outside or len(sb[b]) != len(sp[b]):
            return None, "proposal_changed_outside_view", {"base": b, "positions": outside, "before": sb[b], "proposed": sp[b]}
    vb, vp = resolve(c, sb), resolve(c, sp)
    before = {i: np.asarray(vb[i], float) for i in o["params"]}
    prop = {i: np.asarray(vp[i], float) for i in o["params"]}
    loose = {i: rep_of(c, i)["rep"] == "exp" for i in o["params"]}  # values pass through exp(log(.)): equal up to rounding
    if kind in ("scaler", "sliding"):
        us = _draws(r, "rand", "_step")
        # exactly one element of one parameter moves
        moved = []
        for i in o["params"]:
            a, b = before[i], prop[i]
            for j in np.nonzero(np.abs(a - b) > 1e-13 * np.abs(a) if loose[i] else a != b)[0]:
                moved.append((i, int(j), a[j], b[j]))
        if len(moved) > 1:
            return None, "proposal_form", {"moved": [(i, j) for i, j, _, _ in moved]}
        if len(us) != 1:
            return None, "proposal_form", {"uniform_draws_in_step": len(us)}
        u = float(us[0].reshape(-1)[0])
        tp = r["tp"]
        if kind == "scaler":
            s = tp + u * (1.0 / tp - tp)
            info.update(s=s, u=u)
            if moved:
                i, j, a, b = moved[0]
                if not close(b, a * s, 1e-12):
                    return None, "proposal_form", {"old": a, "new": b, "expected_factor": s, "observed_factor": b / a if a else None}
            elif s != 1.0 and not all(before[i].size == 0 for i in o["params"]):
                # s * x == x can only happen by rounding
                if abs(s - 1.0) > 1e-15:
                    return None, "proposal_form", {"moved": [], "factor": s}
            return -math.log(s), None, info
        shift = tp * (u - 0.5)
        info.update(shift=shift, u=u)
        if moved:
            i, j, a, b = moved[0]
            if not abs((b - a) - shift) <= 1e-12 * max(1.0, abs(a), abs(shift)):
                return None, "proposal_form", {"old": a, "new": b, "expected_shift": shift}
        return 0.0, None, info
    if kind == "dirichlet":
        i = o["params"][0]
        x, y = before[i], prop[i]
        cc_ = r["tp"]
        H = _dir_logpdf(x, cc_ * y) - _dir_logpdf(y, cc_ * x)
        # the proposal is a draw from Dirichlet(c x): same generator state, same draw
        st0 = torch.get_rng_state()
        try:
            torch.set_rng_state(r["rng"])
            redraw = torch.distributions.Dirichlet(tt.T(x.tolist()) * cc_).sample()
        finally:
            torch.set_rng_state(st0)
        if not torch.allclose(redraw, tt.T(y.tolist()), rtol=1e-12, atol=0.0):
            return H, "proposal_form", {"proposed": y.tolist(), "draw_from_Dirichlet(c*x)": _np(redraw).tolist()}
        if abs(y.sum() - 1.0) > 1e-9 or np.any(y < 0):
            return H, "proposal_form", {"proposed": y.tolist(), "not_on_simplex": True}
        return H, None, info
    if kind == "block":
        g0, g1 = before["theta.log"], prop["theta.log"]
        t0, t1 = float(before["tau"][0]), float(prop["tau"][0])
        A = r["tp"]
        # precision: factor f with density prop. to 1 + 1/f on [1/A, A] (symmetric: contributes 0)
        us = [float(x.reshape(-1)[0]) for x in _draws(r, "rand", "propose_precision")]
        f = t1 / t0
        if A == 1.0:
            if t1 != t0:
                return None, "proposal_form", {"scaler": 1.0, "tau": t0, "tau_new": t1}
        else:
            length = A - 1.0 / A
            if len(us) != 2:
                return None, "proposal_form", {"uniform_draws_in_propose_precision": len(us)}
            fe = (1.0 / A + length * us[1]) if us[0] < length / (length + 2.0 * math.log(A)) else A ** (2.0 * us[1] - 1.0)
            if not close(f, fe, 1e-12):
                return None, "proposal_form", {"factor": f, "expected": fe, "scaler": A}
            if not (1.0 / A) * (1 - 1e-12) <= f <= A * (1 + 1e-12):
                return None, "proposal_form", {"factor": f, "scaler": A}
        rule = {"stop": o.get("stop_value", 0.1), "maxit": o.get("max_iterations", 200)}
        H, mu_f, QW_f = block_reference(c, g0, t0, g1, t1, **rule)
        # round-off probe: the same reference with the fields perturbed by 1e-10; a Newton iteration that
        # diverges (or whose iteration count flips) amplifies it without bound
        sg = np.where(np.arange(len(g0)) % 2 == 0, 1.0, -1.0)
        eta = 1e-10
        H2, _, _ = block_reference(c, g0 + eta * sg * np.maximum(1.0, np.abs(g0)), t0, g1 - eta * sg * np.maximum(1.0, np.abs(g1)), t1, **rule)
        amp = abs(H2 - H) / (eta * max(1.0, abs(H))) if math.isfinite(H) and math.isfinite(H2) else math.inf
        info.update(tau=t0, tau_new=t1, amplification=amp)
        if not amp < 1e3:
            return None, None, dict(info, unguarded=True)
        zs = _draws(r, "randn", "_step")
        if len(zs) == 1 and np.all(np.isfinite(QW_f)) and np.all(np.isfinite(mu_f)):
            z = _np(zs[0])
            try:
                cond = float(np.linalg.cond(QW_f))
                U = np.linalg.cholesky(QW_f).T
                path = mu_f + np.linalg.solve(U, z)
                # mean = QW^-1 b: round-off is amplified by the condition number of QW (the GMRF part is singular)
                tolp = max(1e-8, 1e-13 * cond) * max(1.0, float(np.max(np.abs(g1))))
                if cond < 1e10 and not np.all(np.abs(path - g1) <= tolp):
                    return H, "proposal_form", {"proposed_field": g1.tolist(), "mean_plus_draw": path.tolist(), "condition_number": cond}
            except np.linalg.LinAlgError:
                pass
        return H, None, info
    # HMC
    if not r["momenta"]:
        return None, "proposal_form", {"momenta": 0}
    ids = o["params"]
    p0 = _np(r["momenta"][-1])
    state = vb  # HMC parameters are plainly written (id = base id); the others enter the gradient through their values
    sizes = [len(state[i]) for i in ids]
    q0 = np.concatenate([np.asarray(state[i], float) for i in ids])
    mass = np.asarray(o["mass"], float)
    minv = lf.invert_mass(mass)

    kinds = {i: k for i, k, _ in params_of(c)}
    positive = np.concatenate([np.full(n, kinds[i] in ("positive", "posfree")) for i, n in zip(ids, sizes)])

    def grad(q):
        # a position outside the support of a parameter sampled without a transform has no gradient: the operator's
        # trial fails there (argument validation or NaN potential) and the reference trajectory ends (non-finite)
        if np.any(q[positive] <= 0.0) or not np.all(np.isfinite(q)):
            return np.full(q.shape, np.nan)
        s = dict(state)
        k = 0
        for i, n in zip(ids, sizes):
            s[i] = q[k:k + n].tolist()
            k += n
        with np.errstate(all="ignore"):
            return toy_grad(c, s, ids)

    eps, L = r["tp"], o["steps"]
    # every momentum the operator drew is recorded; all but the last belong to abandoned trials
    info.update(trials=len(r["momenta"]))
    for pm in r["momenta"][:-1]:
        if lf.leapfrog(q0, _np(pm), eps, L, minv, grad)["finite"]:
            info["abandoned_trial_inside_support"] = True
    base = lf.leapfrog(q0, p0, eps, L, minv, grad)
    amp, _ = lf.probe(q0, p0, eps, L, minv, grad, base=base)
    info.update(amplification=amp)
    if not base["finite"] or not amp < 1e3 or base["scale"] > 1e4:
        return None, None, dict(info, unguarded=True)
    q1 = np.concatenate([prop[i] for i in ids])
    S = base["scale"]
    if q1.shape != base["q"].shape or not np.all(np.abs(q1 - base["q"]) <= 1e-9 * S * max(1.0, amp)):
        return None, "proposal_form", {"proposed": q1.tolist(), "reference_leapfrog": base["q"].tolist(), "momentum": p0.tolist()}
    H = lf.kinetic(p0, minv) - lf.kinetic(base["p"], minv)
    info.update(scale=S)
    return H, None, info


# =========================================================================== tuning direction (measured)
def _measure_case(kind):
    if kind == "block":
        g = {"n": 4, "samp": [0.0, 0.5, 1.0, 0.0], "coal": [1.5, 2.5, 4.0], "joins": [[0, 1], [2, 3], [4, 5]]}
        c = {"target": "skygrid", "g": g, "m": 4, "grid": {"grid": [1.0, 2.0, 3.0]}, "gamma": [1.0, 0.5, 1.5, 0.8], "tau": 2.0, "tau_prior": [1.0, 1.0]}
        par, lo, hi = ["theta.log", "tau"], 1.3, 3.0
    else:
        blocks = [{"kind": "normal", "id": "x0", "n": 3, "loc": [0.0, 1.0, -1.0], "scale": [1.0, 2.0, 0.5], "init": [0.3, -0.2, 0.1]},
                  {"kind": "gamma", "id": "x1", "n": 2, "conc": [2.0, 3.0], "rate": [1.0, 2.0], "init": [1.0, 2.0]},
                  {"kind": "dirichlet", "id": "x2", "n": 3, "alpha": [2.0, 3.0, 4.0], "init": [0.2, 0.3, 0.5]}]
        c = {"target": "toy", "blocks": blocks}
        par, lo, hi = {"scaler": (["x1"], 0.3, 0.8), "sliding": (["x0"], 0.2, 2.0), "dirichlet": (["x2"], 30.0, 300.0), "hmc": (["x0"], 0.02, 0.2)}[kind]
    c.update(iterations=1, loggers=[], every=0, torch_seed=0)
    return c, par, lo, hi


def boldness(kind, tp):
    """size of the proposal as a function of the tuning parameter, read off the proposal law itself (not off a sign
    convention of the tuning parameter); calibrated against the spread of sampled proposals in selftest():
      scaler     multiplier uniform on the interval between tp and 1/tp: width of that interval on the log scale
      sliding    shift uniform on an interval of width |tp|
      dirichlet  Dirichlet(tp * x): total variance sum x_i (1 - x_i) / (tp + 1)
      block      precision factor on [1/tp, tp]: width on the log scale
      hmc        leapfrog with step size tp: displacement proportional to |tp|"""
    tp = float(tp)
    if kind in ("scaler", "block"):
        return 2.0 * abs(math.log(tp)) if tp > 0 else math.inf
    if kind == "dirichlet":
        return 1.0 / (tp + 1.0)
    return abs(tp)


BOLD_GRID = {"scaler": [0.97, 0.8, 1.6, 0.3, 5.0, 0.05], "sliding": [1e-3, 0.05, 0.2, 2.0, 20.0], "dirichlet": [2000.0, 300.0, 30.0, 5.0],
             "block": [1.05, 1.3, 3.0, 6.0], "hmc": [0.002, 0.02, 0.2]}


def measured_spread(kind, tp, nseeds=120):
    """squared jump of the parameters whose proposal the tuning parameter scales (block update: the precision), one value
    per generator seed (common random numbers across tuning parameters)"""
    c, par, _, _ = _measure_case(kind)
    o = {"type": kind, "id": "op0", "params": par, "weight": 1.0, "target_acc": 0.3, "adapt": False, "tuning": tp, "steps": 3, "mass": [1.0] * 3, "adaptor": "none"}
    cc_ = dict(c, ops=[o])
    state = initial_state(cc_)
    tmp = tempfile.mkdtemp(prefix="c15m-")
    try:
        dic, mc = build_all(cc_, state, tmp, [])
    finally:
        shutil.rmtree(tmp, ignore_errors=True)
    op = mc._operators[0]
    watch = ["tau"] if kind == "block" else par
    js = []
    for seed in range(nseeds):
        torch.manual_seed(1000 + seed)
        for i in state:  # the harness, not the operator, puts the state back (reject() is under test)
            dic[i].tensor = tt.T(state[i])
        b = {i: dic[i].tensor.detach().clone() for i in watch}
        op.step()
        js.append(sum(float(((dic[i].tensor.detach() - b[i]) ** 2).sum()) for i in watch))
    return np.asarray(js)


def calibrate_boldness():
    """the spread of proposals actually sampled from each operator grows along the grid exactly as boldness() says
    (the grid of the scaler has values on both sides of 1)"""
    for kind, grid in BOLD_GRID.items():
        grid = sorted(grid, key=lambda v: boldness(kind, v))
        spreads = [measured_spread(kind, v) for v in grid]
        for a, b, sa, sb in zip(grid[:-1], grid[1:], spreads[:-1], spreads[1:]):
            d = sb - sa
            sd = d.std(ddof=1)
            t = d.mean() / (sd / math.sqrt(len(d))) if sd > 0 else (math.inf if d.mean() > 0 else -math.inf)
            if not t > 4.0:
                raise HarnessError("C15: sampled proposals of %s at tuning parameter %r are not bolder than at %r (paired t = %s)" % (kind, b, a, t))


# =========================================================================== body
def _classify_exception(e, mc, c):
    fr = impl_frame(e) or ""
    if isinstance(e, ZeroDivisionError) and fr.endswith("mcmc.py:run") and mc._epoch > c["iterations"]:
        return "summary_division_by_zero(operator never selected)"
    if isinstance(e, ValueError) and "to satisfy the constraint" in str(e):
        return "left_support"
    return None


def body(c):
    tmp = tempfile.mkdtemp(prefix="c15-")
    try:
        return _body(c, tmp)
    finally:
        shutil.rmtree(tmp, ignore_errors=True)


def _tags(c):
    return {"target": c["target"], "ops": sorted(set(OPCLS[o["type"]] for o in c["ops"]))}


def _body(c, tmp):
    state0 = initial_state(c)
    ids = list(state0)
    _, _, cover = layout(c)
    containers = [[] for _ in c["loggers"]]
    dic, mc = build_all(c, state0, tmp, containers)
    res = Res(nontrivial=False, key=None, tags=_tags(c))
    labels = {}
    reported = set()

    current = {"rep": None}  # how the parameters of the operator of the current transition are written

    def fail(kind, detail, cls=None, **tags):
        if current["rep"] is not None:
            tags["rep"] = current["rep"]
            tags.update(current.get("extra") or {})
        key = (kind, cls, repr(sorted(tags.items())))
        if key in reported:
            return
        reported.add(key)
        if cls:
            tags["cls"] = cls
        res.fail(kind, detail, **tags)

    cache = {}

    def fresh(state):
        k = tuple((i, tuple(state[i])) for i in ids)
        if k not in cache:
            cache[k] = fresh_density(c, state)
        return cache[k]

    if c["target"] == "toy":
        ref = toy_logp(c, resolve(c, state0))
        got = fresh(state0)
        if not close(got, ref, 1e-9):
            raise HarnessError("C15: toy specification and its closed form disagree: %r vs %r" % (got, ref))

    R = Recorder(mc, dic, ids)
    start = R.snap()
    torch.manual_seed(c["torch_seed"])
    exc = None
    with R.generators():
        try:
            mc.run()
        except Exception as e:  # noqa
            if impl_frame(e) is None:
                raise
            exc = e
    for lg in mc.loggers:  # a run that raised leaves files open
        f = getattr(lg, "f", None)
        if f is not None and f is not sys.stdout and not f.closed:
            f.close()
    if exc is not None:
        what = _classify_exception(exc, mc, c)
        if what is None:
            fail(raises_kind(exc), {"message": str(exc)[:300], "after_transitions": len(R.trace)})
        else:
            labels["raised:" + what] = 1

    trace = R.trace
    # ---------------------------------------------------------------- the chain
    cur = start
    if not same(cur, {i: tt.T(state0[i]) for i in ids}):
        fail("initial_state", {"changed": diff_ids(cur, {i: tt.T(state0[i]) for i in ids})})
    run_calls = [x for x in R.rec.calls if x[2] == "run" and x[3] == "mcmc.py"]
    if run_calls:
        v0 = float(run_calls[0][0])
        f0 = fresh(to_state(start))
        if not close(v0, f0):
            fail("initial_density", {"used": v0, "fresh": f0})
    state_at = {0: start}
    n_acc = n_rej = 0
    used_types = set()
    nchecked = {"a": 0, "b": 0, "c": 0, "d": 0, "f": 0}
    for n, r in enumerate(trace):
        o = c["ops"][r["k"]]
        op = mc._operators[r["k"]]
        cls = r["cls"]
        used_types.add(cls)
        where = {"iteration": r["epoch"], "operator": o["id"]}
        current["rep"] = sorted(set(REP_CLASS[rep_of(c, i)["rep"]] for i in o["params"]))
        current["extra"] = {"field_rep": REP_CLASS[rep_of(c, "theta.log")["rep"]]} if o["type"] == "block" else {}
        labels["transition_on:" + "+".join(current["rep"])] = labels.get("transition_on:" + "+".join(current["rep"]), 0) + 1
        if not same(cur, r["before"]):
            fail("state_changed_between_iterations", dict(where, changed=diff_ids(cur, r["before"])), cls)
        if len(r["decisions"]) != 1:
            fail("decision_calls", dict(where, calls=r["decisions"]), cls)
            cur = r.get("after", r["proposed"])
            state_at[r["epoch"]] = cur
            continue
        accepted = r["decisions"][0] == "accept"
        n_acc += accepted
        n_rej += not accepted
        labels["transition:" + o["type"]] = labels.get("transition:" + o["type"], 0) + 1
        H_impl = float(r["H"]) if isinstance(r["H"], torch.Tensor) and r["H"].numel() == 1 else float("nan")
        s_before, s_prop = to_state(r["before"]), to_state(r["proposed"])
        calls = [x for x in r["calls"] if x[2] == "run" and x[3] == "mcmc.py"]
        us = [x for x in r["rands"][r["nrand_step"]:] if x[0] == "rand" and x[1] == "run" and x[2] == "mcmc.py"]
        gave_up = math.isinf(H_impl)
        # ---- (c) Hastings ratio
        H_ref = None
        unguarded = False
        if gave_up:
            labels["operator_gave_up"] = labels.get("operator_gave_up", 0) + 1
            if cls == "HMCOperator" and r["momenta"]:
                # an infinite ratio says "no proposal could be made"; if the trajectory of the last momentum drawn is a
                # perfectly good proposal (reference leapfrog finite, inside the support, guarded) the true ratio is
                # K0 - K1 and the move has a positive acceptance probability
                H_would, problem, info = hastings_oracle(c, o, op, dict(r, proposed=r.get("proposed", r["before"])))
                if H_would is not None and not problem and not same(r["proposed"], r["before"]):
                    fail("hastings", dict(where, reported=H_impl, reference=H_would, trials=len(r["momenta"])), cls)
        else:
            H_ref, problem, info = hastings_oracle(c, o, op, r)
            if problem:
                fail(problem, dict(where, **info), cls)
            unguarded = bool(info.get("unguarded"))
            if info.get("trials", 1) > 1:
                labels["hmc_retried_then_succeeded"] = labels.get("hmc_retried_then_succeeded", 0) + 1
            if info.get("abandoned_trial_inside_support"):
                labels["hmc_abandoned_trial_inside_support(reference)"] = labels.get("hmc_abandoned_trial_inside_support(reference)", 0) + 1
            if unguarded:
                labels["unguarded:" + o["type"]] = labels.get("unguarded:" + o["type"], 0) + 1
            if H_ref is not None and not problem:
                nchecked["c"] += 1
                scale = max(1.0, abs(H_ref), info.get("scale", 1.0) ** 2 if cls == "HMCOperator" else 1.0)
                tolh = 1e-8 * scale * (max(1.0, info.get("amplification", 1.0)) if cls == "HMCOperator" else 1.0)
                if cls == BLOCK:
                    # torch and numpy agree to ~5e-14 on HEAD (amplification <= 1e3 by the guard)
                    tolh = 1e-10 * scale * max(1.0, info.get("amplification", 1.0))
                bad_h = math.isnan(H_impl) or (not math.isnan(H_ref) and not abs(H_impl - H_ref) <= tolh)
                if bad_h:
                    fail("hastings", dict(where, reported=H_impl, reference=H_ref, **{k: v for k, v in info.items() if isinstance(v, float)}), cls)
                if math.isnan(H_ref):
                    H_ref = None
                elif bad_h and math.isfinite(H_impl):
                    # reported once as 'hastings'; the decision rule is then checked with the ratio the operator gave
                    H_ref, unguarded = None, True
        # ---- (a) density used for the proposal
        f_cur = fresh(s_before)
        used = None
        # acceptance probability of THIS iteration's proposal, min(1, exp(delta + H)); 0 when the proposal is rejected
        # outright (the operator could not propose: infinite ratio; or the target is 0 / undefined at the proposed state)
        alpha_ref = None
        outright = False
        if gave_up:
            alpha_ref, outright = 0.0, True
            if calls or us or accepted:
                fail("gave_up_not_rejected", dict(where, joint_calls=len(calls), uniforms=len(us), accepted=accepted), cls)
        else:
            if len(calls) != 1:
                fail("joint_calls", dict(where, calls=len(calls)), cls)
            if calls:
                used = float(calls[-1][0]) if calls[-1][0].numel() == 1 else float("nan")
                if not same(calls[-1][1], r["proposed"]):
                    fail("density_not_at_proposed_state", dict(where, changed=diff_ids(calls[-1][1], r["proposed"])), cls)
                f_prop = fresh(s_prop)
                nchecked["a"] += 1
                both_undefined = (math.isnan(used) or used == -math.inf) and (math.isnan(f_prop) or f_prop == -math.inf)
                if not close(used, f_prop) and not both_undefined:
                    fail("stale_density", dict(where, used=used, fresh=f_prop, proposed=rnd(s_prop)), cls)
                # ---- (b) decision
                finite = math.isfinite(f_prop)
                if not finite:
                    labels["nonfinite_proposal"] = labels.get("nonfinite_proposal", 0) + 1
                    if math.isnan(f_prop) or f_prop < 0:
                        alpha_ref, outright = 0.0, True
                    if accepted:
                        fail("accepted_nonfinite", dict(where, fresh=f_prop), cls)
                elif (H_ref is not None or (unguarded and math.isfinite(H_impl))) and (math.isfinite(f_cur) or f_cur == -math.inf):
                    # current state of zero density (log density -inf), finite proposal: change = +inf, min(1, exp(.)) = 1
                    if f_cur == -math.inf:
                        labels["escape_from_zero_density"] = labels.get("escape_from_zero_density", 0) + 1
                    la = (f_prop - f_cur) + (H_ref if H_ref is not None else H_impl)
                    alpha = alpha_ref = math.exp(min(0.0, la))
                    hh = H_ref if H_ref is not None else H_impl
                    nchecked["b"] += 1
                    if la >= 0:
                        # min(1, exp(.)) = 1: accepted whatever the uniform draw (includes change = +inf, i.e. leaving a
                        # state of zero density)
                        if not accepted:
                            fail("decision", dict(where, u=None, alpha=1.0, accepted=accepted, delta=f_prop - f_cur, current=f_cur, proposed=f_prop, hastings=hh), cls)
                    elif len(us) != 1:
                        fail("acceptance_draws", dict(where, draws=len(us)), cls)
                    else:
                        u = float(us[0][3].reshape(-1)[0])
                        margin = abs(math.log(u) - la) if u > 0 else math.inf
                        if margin < 1e-7:
                            labels["decision_tie"] = labels.get("decision_tie", 0) + 1
                        elif accepted != (u < alpha):
                            fail("decision", dict(where, u=u, alpha=alpha, accepted=accepted, delta=f_prop - f_cur, hastings=hh), cls)
                    if "acc_prob" in r and not abs(r["acc_prob"] - alpha) <= 1e-7:
                        fail("acceptance_probability", dict(where, passed_to_tune=r["acc_prob"], reference=alpha, delta=f_prop - f_cur, hastings=hh), cls)
        if outright:
            labels["outright_rejection"] = labels.get("outright_rejection", 0) + 1
            # the acceptance probability handed to tune() must be the one of this proposal: 0
            if "acc_prob" in r and not abs(r["acc_prob"]) <= 1e-12:
                fail("acceptance_probability", dict(where, passed_to_tune=r["acc_prob"], reference=0.0, outright_rejection="operator gave up" if gave_up else "non-finite target"), cls, outright=True)
        # ---- (d) state after the decision
        after = r["after"]
        nchecked["d"] += 1
        if accepted:
            if not same(after, r["proposed"]):
                fail("accept_changed_state", dict(where, changed=diff_ids(after, r["proposed"])), cls)
        else:
            if not same(after, r["before"]):
                ch = diff_ids(after, r["before"])
                fail("reject_not_restored", dict(where, changed=ch, before=rnd({i: s_before[i] for i in ch}), after=rnd({i: to_state(after)[i] for i in ch})), cls,
                     position=(["first" if cover[i][0] == o["params"][0] else "later" for i in ch if cover[i][0] in o["params"]] or ["foreign"])[0])
        if "end" in r and not same(r["end"], after):
            fail("state_changed_after_decision", dict(where, changed=diff_ids(r["end"], after)), cls)
        # ---- (f) tuning
        if "acc_prob" in r:
            tp0, tp1, acc = r["tp_tune0"], r["tp_after"], r["acc_prob"]
            if tp0 != r["tp"]:
                fail("tuning_parameter_moved_outside_tune", dict(where, at_step=r["tp"], before_tune=tp0), cls)
            adapting = o["adapt"]
            if not adapting:
                if tp1 != tp0:
                    fail("tune_disabled", dict(where, before=tp0, after=tp1), cls)
            else:
                nchecked["f"] += 1
                move = boldness(o["type"], tp1) - boldness(o["type"], tp0)  # > 0: the next proposals are bolder
                if alpha_ref is not None:  # judged by this iteration's own acceptance probability, whatever tune() was handed
                    acc = alpha_ref
                side = "above" if acc > o["target_acc"] else ("below" if acc < o["target_acc"] else None)
                bad = (side == "above" and move < 0) or (side == "below" and move > 0)
                if bad:
                    extra = {}
                    if cls == BLOCK:
                        extra["reflected"] = bool(math.sqrt(max(tp0 - 1.0, 0.0)) + (acc - o["target_acc"]) / (2 + r["adapt_count"]) < 0)
                    fail("tune_direction", dict(where, acceptance=acc, passed_to_tune=r["acc_prob"], outright_rejection=outright, target=o["target_acc"], tuning_before=tp0, tuning_after=tp1,
                                                boldness_before=boldness(o["type"], tp0), boldness_after=boldness(o["type"], tp1)), cls, side=side, **extra)
        cur = r.get("end", after)
        state_at[r["epoch"]] = after
    current["rep"] = None
    if R.cur is not None and exc is None:
        fail("incomplete_iteration", {"iteration": R.cur.get("epoch")}, R.cur.get("cls"))
    if exc is None and len(trace) != c["iterations"]:
        fail("iterations", {"requested": c["iterations"], "performed": len(trace)})

    # ---------------------------------------------------------------- (e) logged rows
    done = len(trace)
    nrows = 0
    for j, lg in enumerate(c["loggers"]):
        rows = read_log(c, lg, j, tmp, containers, mc, ids, {i: len(state0[i]) for i in ids})
        if isinstance(rows, str):
            fail("log_format", {"logger": j, "problem": rows}, lg["kind"])
            continue
        expect = [s for s in range(0, done + 1) if s % lg["every"] == 0]
        got = [s for s, _, _ in rows]
        if got != expect:
            if lg["kind"] == "container" and got == [None] * len(rows) and len(rows) == len(expect):
                rows = [(s, v, d) for s, (_, v, d) in zip(expect, rows)]
            elif exc is None or got != expect[: len(got)]:
                fail("log_rows", {"logger": j, "samples": got[:12], "expected": expect[:12], "n": len(got), "n_expected": len(expect)}, lg["kind"])
                continue
        for s, vals, dens in rows:
            nrows += 1
            st_ = state_at.get(s)
            if st_ is None:
                continue
            want = to_state(st_)
            if vals != want:
                bad = [i for i in ids if vals[i] != want[i]]
                fail("log_state", {"logger": j, "sample": s, "parameters": bad, "logged": rnd({i: vals[i] for i in bad}), "chain": rnd({i: want[i] for i in bad})}, lg["kind"])
            try:
                f = fresh(vals)
            except Exception as e:  # values that are not a valid state
                if impl_frame(e) is None:
                    raise
                f = float("nan")
            if not close(dens, f) and not (math.isnan(dens) and math.isnan(f)):
                fail("log_density", {"logger": j, "sample": s, "logged": dens, "fresh_at_logged_values": f}, lg["kind"])
    labels.update({"target:" + c["target"]: 1, "transitions": len(trace), "accepts": n_acc, "rejects": n_rej, "logged_rows": nrows,
                   "checked:density": nchecked["a"], "checked:decision": nchecked["b"], "checked:hastings": nchecked["c"], "checked:tuning": nchecked["f"]})
    for t in used_types:
        labels["run_uses:" + t] = 1
    labels["run:adaptation_" + ("mixed" if len(set(o["adapt"] for o in c["ops"])) > 1 else ("on" if c["ops"][0]["adapt"] else "off"))] = 1
    res.nontrivial = n_acc > 0 and n_rej > 0 and len(used_types) >= 2
    res.key = c  # the complete generated run (target, operator set, loggers, iterations, seed)
    res.labels = labels
    return res


def read_log(c, lg, j, tmp, containers, mc, ids, sizes):
    """-> list of (sample or None, {id: values}, density) or a problem string"""
    width = sum(sizes[i] for i in ids)
    rows = []
    if lg["kind"] == "container":
        cont = getattr(mc.loggers[j], "container", None)
        if not isinstance(cont, list):
            return "no container"
        for row in cont:
            if len(row) != width + 1:
                return "row of length %d, expected %d" % (len(row), width + 1)
            rows.append((None, _split(row[:width], ids, sizes), float(row[-1])))
        return rows
    path = os.path.join(tmp, "log%d.csv" % j)
    if not os.path.exists(path):
        return "file missing"
    with open(path, newline="") as fh:
        data = list(csv.reader(fh, delimiter=lg.get("delimiter") or ","))
    if not data:
        return "empty file"
    header = ["sample"] + ["%s.%d" % (i, k) for i in ids for k in range(sizes[i])] + ["joint"]
    if data[0] != header:
        return "header %r" % (data[0][:6],)
    for row in data[1:]:
        if len(row) != width + 2:
            return "row of length %d, expected %d" % (len(row), width + 2)
        try:
            vals = [float(x) for x in row[1:]]
            s = int(row[0])
        except ValueError:
            return "unparsable row %r" % (row[:4],)
        rows.append((s, _split(vals[:width], ids, sizes), vals[-1]))
    return rows


def _split(vals, ids, sizes):
    out, k = {}, 0
    for i in ids:
        out[i] = [float(v) for v in vals[k:k + sizes[i]]]
        k += sizes[i]
    return out


# =========================================================================== selftest
def selftest():
    """calibration of the harness-side oracles (a failure here is a harness error)"""
    # closed-form toy gradients against central differences of the closed-form density
    c = {"target": "toy", "blocks": [
        {"kind": "normal", "id": "x0", "n": 2, "loc": [0.5, -1.0], "scale": [0.7, 2.0], "init": [0.1, 0.2]},
        {"kind": "loggamma", "id": "x1", "n": 2, "conc": [2.0, 0.7], "rate": [1.5, 0.4], "init": [0.3, -0.5]},
        {"kind": "mvn", "id": "x2", "n": 2, "loc": [0.0, 1.0], "prec": [[2.0, 0.3], [0.3, 1.0]], "init": [0.4, 0.6]},
        {"kind": "hnormal", "id": "x3", "n": 3, "init": [0.5, -0.3, 1.2], "m_loc": 0.2, "m_scale": 1.5, "m_init": 0.4, "s_conc": 2.0, "s_rate": 1.0, "s_init": 0.8},
        {"kind": "gamma", "id": "x4", "n": 1, "conc": [2.0], "rate": [1.0], "init": [1.3]},
        {"kind": "lognormal", "id": "x5", "n": 1, "loc": [0.2], "scale": [0.6], "init": [0.9]},
        {"kind": "dirichlet", "id": "x6", "n": 3, "alpha": [2.0, 3.0, 4.0], "init": [0.2, 0.3, 0.5]},
        {"kind": "gmrf", "id": "x7", "n": 3, "init": [0.4, -0.3, 0.9], "tau_init": 1.7}]}
    state = {i: list(v) for i, _, v in params_of(c)}
    ids = ["x0", "x1", "x2", "x3", "x3.m", "x3.s", "x4", "x5", "x7", "x7.tau"]
    g = toy_grad(c, state, ids)
    k = 0
    for i in ids:
        for j in range(len(state[i])):
            h = 1e-6
            sp, sm = {a: list(b) for a, b in state.items()}, {a: list(b) for a, b in state.items()}
            sp[i][j] += h
            sm[i][j] -= h
            fd = (toy_logp(c, sp) - toy_logp(c, sm)) / (2 * h)
            if abs(fd - g[k]) > 1e-6 * max(1.0, abs(fd)):
                raise HarnessError("C15 selftest: gradient of %s[%d]: %r vs finite difference %r" % (i, j, g[k], fd))
            k += 1
    # the specification evaluates to the closed form (scipy as a third opinion for one block)
    from scipy import stats

    got = fresh_density(c, state)
    ref = toy_logp(c, state)
    if not close(got, ref, 1e-10):
        raise HarnessError("C15 selftest: toy specification %r vs closed form %r" % (got, ref))
    if not close(_dir_logpdf([0.2, 0.3, 0.5], [2.0, 3.0, 4.0]), stats.dirichlet.logpdf([0.2, 0.3, 0.5], [2.0, 3.0, 4.0]), 1e-12):
        raise HarnessError("C15 selftest: Dirichlet density")
    # Knorr-Held / Rue scale mixture is symmetric: p(1/f) / (f p(f)) = 1
    for f in (0.3, 0.9, 2.5):
        p = lambda x: 1.0 + 1.0 / x  # noqa
        if abs(p(1.0 / f) / (f * p(f)) - 1.0) > 1e-14:
            raise HarnessError("C15 selftest: precision proposal symmetry")
    calibrate_boldness()


# =========================================================================== tune() driven directly
LEVELS = ["zero", "below", "below", "above", "above", "one"]


@st.composite
def tune_cases(draw):
    kind = draw(st.sampled_from(["scaler", "scaler", "sliding", "dirichlet", "block", "hmc", "hmc_adaptive"]))
    base = kind.split("_")[0]
    tuning = draw({
        "scaler": st.one_of(logu(1e-4, 0.5), fl(0.5, 0.999), logu(1e-7, 1e-3).map(lambda e: 1.0 - e)),
        "sliding": logu(1e-7, 1e3), "dirichlet": logu(1e-2, 1e5),
        "block": st.one_of(st.just(1.0), logu(1e-6, 10.0).map(lambda e: 1.0 + e)), "hmc": logu(1e-6, 10.0)}[base])
    target = draw(fl(0.05, 0.95))
    segs = []
    for _ in range(draw(st.integers(1, 6))):
        segs.append({"n": draw(st.sampled_from([1, 2, 5, 20, 100, 1000, 3000])), "level": draw(st.sampled_from(LEVELS)), "f": draw(fl(0.0, 1.0))})
    return {"kind": kind, "tuning": tuning, "target_acc": target, "segments": segs}


def _level_acc(seg, target):
    if seg["level"] == "zero":
        return 0.0
    if seg["level"] == "one":
        return 1.0
    if seg["level"] == "below":
        return target * seg["f"]
    return target + (1.0 - target) * seg["f"]


def body_tune(c):
    """an operator built from its specification; tune() called directly with a generated sequence of acceptance
    probabilities (long runs of rejections, then acceptances, ...): after every call the proposal law must not be more
    timid when the acceptance was above target, nor bolder when it was below"""
    kind = c["kind"].split("_")[0]
    cc_, par, _, _ = _measure_case(kind)
    o = {"type": kind, "id": "op0", "params": par, "weight": 1.0, "target_acc": c["target_acc"], "adapt": True, "tuning": c["tuning"], "steps": 3, "mass": [1.0] * 3,
         "adaptor": "adaptive" if c["kind"].endswith("adaptive") else "none"}
    cc_ = dict(cc_, ops=[o])
    tmp = tempfile.mkdtemp(prefix="c15t-")
    try:
        dic, mc = build_all(cc_, initial_state(cc_), tmp, [])
    finally:
        shutil.rmtree(tmp, ignore_errors=True)
    op = mc._operators[0]
    cls = type(op).__name__
    res = Res(nontrivial=False, key=c, tags={"cls": cls, "route": "direct_tune"})
    n = above = below = 0
    reported = set()
    for seg in c["segments"]:
        acc = _level_acc(seg, c["target_acc"])
        for _ in range(seg["n"]):
            if n >= 8000:
                break
            n += 1
            tp0 = float(op.tuning_parameter)
            op.tune(torch.tensor(acc), sample=n, accepted=acc >= 0.5)
            tp1 = float(op.tuning_parameter)
            move = boldness(kind, tp1) - boldness(kind, tp0)
            side = "above" if acc > c["target_acc"] else ("below" if acc < c["target_acc"] else None)
            above += side == "above"
            below += side == "below"
            if ((side == "above" and move < 0) or (side == "below" and move > 0)) and side not in reported:
                reported.add(side)
                res.fail("tune_direction", {"call": n, "acceptance": acc, "target": c["target_acc"], "tuning_before": tp0, "tuning_after": tp1,
                                            "boldness_before": boldness(kind, tp0), "boldness_after": boldness(kind, tp1)}, side=side)
    res.nontrivial = above > 0 and below > 0 and n >= 10
    res.labels = {"kind:" + c["kind"]: 1, "tune_calls": n, "calls_above_target": above, "calls_below_target": below}
    return res


def subchecks(tier):
    return [
        Sub("runs", body, strategy=(lambda: cases(max_iter=150)) if tier == "quick" else cases, quick=200, thorough=4000, raising_is_failure=True, shrink_s=40),
        Sub("tune_sequences", body_tune, strategy=tune_cases, quick=400, thorough=8000, raising_is_failure=True, shrink_s=20),
    ]
