"""C18 - a crash while writing a checkpoint never loses the last good checkpoint.

Fault enumeration.  One generated case = (payload, call site, depth L).  The body explores the
tree of fault schedules of up to L consecutive interrupted writes:

    level 1: directory = {name: V0}; the write of V1 is executed once per crash point
             (a forked child performs the write through the real torchtree call site and calls
             os._exit(137) after its k-th file-system operation, k = 1..N; nothing is flushed,
             as with SIGKILL).  After every death the directory is read back and judged.
    level i: the directory states left by level i-1 are grouped by shape (which of name / .old / .new
             is absent, complete, empty or partial); from one representative of every shape the write
             of Vi is again executed once per crash point.

so the crash points of every write are enumerated exhaustively and every *shape* of directory that
crashes can leave behind is used as the start of the next interrupted write.

A second sub-check (thorough tier, 'syscall') repeats sampled crash points on a real, uninstrumented
`python` child process that strace kills on entering the system call that would be operation k+1
(`strace -f -P name -P name.old -P name.new -e inject=<syscall>:signal=SIGKILL:when=m`; strace counts
each system call separately, so m is the ordinal of that call among the calls of its kind, taken from
the operation trace of the forked model) and requires the directory it leaves to be byte-identical
with the forked model's, besides satisfying the property.  It is skipped (and says so in the labels)
when ptrace is not permitted.
"""
import builtins
import errno
import io
import json
import os
import shutil
import signal
import subprocess
import sys
import tempfile
import traceback

import torch
from hypothesis import strategies as st

from vt import tt
from vt.gen.basic import fl
from vt.runner import HERE, REPO, HarnessError, Res, Sub, impl_frame

PROPERTY = "C18"
LEVEL = "fault_enumeration"
RULE = (
    "Hypothesis draws the payload (1-40 parameters, 1-D or 2-D, up to ~1500 numbers each so that one "
    "parameter alone spans several 8 KiB buffers; the total is bounded by the schedule depth), the call "
    "site (save_parameters with defaults; MCMC.save_full_state; Optimizer.save_full_state; the checkpoint "
    "step of MCMC.run / HMC.run / Optimizer.run executed for one real iteration - Optimizer._run with a drawn "
    "optimiser family (Adam, AdamW, SGD+momentum, Adagrad, RMSprop), Optimizer._run_closure with LBFGS, each "
    "with checkpoint_all off (one name, rewritten) and on (a file per epoch; checkpoint name with and "
    "without '.json'; the oracle there: no file that held a complete checkpoint becomes incomplete, and a "
    "complete one exists); all objects built from JSON), the number of pieces a raw write is delivered in (1 or 2: partial writes), the depth L in 1..4 "
    "and which member represents a directory shape. Per case the crash points of each write are enumerated "
    "exhaustively: one forked child per boundary 'after file-system operation k' (open, every raw write "
    "piece, close, rename, remove; 'after op k' and 'before op k+1' are the same instant of the file "
    "system and are executed once), k = N being the completed write. Level i+1 starts from one "
    "representative of every distinct directory shape left by level i. evaluations = forked executions "
    "judged by the oracle. non-trivial = the process died strictly inside the protocol (0 < k < N), the "
    "schedule has length >= 2 and an earlier write of the schedule also died strictly inside; distinct = "
    "(site, payload sizes, pieces, list of crash boundaries of the schedule). Besides death, each case draws a "
    "kind of *failing* operation (OSError ENOSPC/EDQUOT/EIO/EFBIG; 'once' = only that operation fails, 'sticky' = "
    "every later write fails too, 'rlimit' = a forked child with RLIMIT_FSIZE set to the middle of each raw write, "
    "so the kernel itself returns EFBIG): for every write of the first two levels and from every start directory, "
    "every operation of the write (open, each raw write piece, close, rename/replace, remove) is made to fail "
    "once, control returns to the program, and the oracle is applied to the directory after every later "
    "operation of that write (= death at that instant) and when the write has ended, whether it carried on or "
    "raised (raising is the loud, allowed outcome). Directories left by failed writes join the start "
    "directories of the next level. Sub-check 'fixed' runs the same "
    "exploration on a fixed list of small payloads for every call site (identical in every run; 'exhaustive' "
    "refers to that list). Sub-check 'syscall' (thorough) repeats 2-3 drawn crash points per case on an "
    "uninstrumented python process killed by strace at the corresponding system call."
)
ASSUMPTIONS = [
    "process death is modelled at the boundaries between file-system operations; a raw write is cut into at most "
    "2 pieces (kernel-level partial writes of other sizes are not enumerated); rename/remove/open are atomic",
    "no power failure: what the OS has accepted survives (os._exit / SIGKILL semantics, no fsync modelling)",
    "the first write into an empty directory is outside the property ('written over an existing one'); every "
    "schedule starts from a directory holding one complete checkpoint",
    "checkpoint_all (a fresh file name per epoch, overwrite=True): consecutive writes of a schedule are the checkpoints of "
    "consecutive epochs; a re-run that meets per-epoch files of an earlier run (in-place overwrite by design) is not generated",
    "a failing operation is not performed at all (a write that fails has written nothing; with 2 pieces per raw write "
    "the first piece may be on disk); close releases the descriptor even when it reports an error; 'sticky' "
    "failures affect writes only (rename/remove need no space)",
    "'previous' after several interrupted writes = any complete checkpoint written earlier in the schedule; the oracle "
    "only demands that some complete one exists and that `name` is complete whenever it exists",
    "the crash children are forked from a single-threaded python worker (OS thread count is recorded in the "
    "labels as os_threads=N; other native threads, if any, are idle BLAS pool threads holding no lock the "
    "child needs: the child only encodes JSON and performs file operations, then os._exit)",
    "a write is a deterministic function of (objects, directory): the op trace of the completed run is used "
    "to place the crash points; a crash child that does not die at its point is a harness error",
]

SUFFIXES = ("", ".old", ".new")
CK = "checkpoint.json"
CK_NOEXT = "checkpoint"  # a checkpoint name the user chose without the ".json" ending
EXIT_CRASH = 137
EXIT_RAISED = 3
EXIT_HARNESS = 4


# =========================================================================== crash injection (child side)
class _Counter:
    """counts file-system operations in the child.  Two kinds of fault:
    * death: the process dies (os._exit, nothing flushed) after operation number `crash_at`;
    * failure: operation number fault['at'] is not performed and raises OSError(fault['errno']) into the
      program, which then carries on or fails as it sees fit (mode 'once': only that operation fails;
      'sticky': every later write fails too, as on a full disk; 'rlimit': nothing is simulated, the kernel
      refuses to let a file grow beyond fault['limit'] bytes and os.write itself raises EFBIG).
      From the failure on, `observe()` is called after every operation: the directory at that instant is
      what a death at that instant would leave."""

    def __init__(self, crash_at, pieces, fault=None, observe=None):
        self.n = 0
        self.crash_at = crash_at
        self.pieces = pieces
        self.trace = []
        self.nbytes = []
        self.fault = fault
        self.faulted = False
        self.observe = observe

    def done(self, what, nbytes=0):
        self.n += 1
        self.trace.append(what)
        self.nbytes.append(nbytes)
        if self.crash_at is not None and self.n >= self.crash_at:
            os._exit(EXIT_CRASH)
        if self.faulted and self.observe:
            self.observe(self.n, what)

    def _failed(self, what, err):
        self.n += 1
        what = "%s !%s" % (what, err)
        self.trace.append(what)
        self.nbytes.append(0)
        self.faulted = True
        if self.observe:
            self.observe(self.n, what)

    def op(self, what, fn, nbytes=0, on_fail=None):
        """perform one file-system operation, or fail it"""
        f = self.fault
        if f and f["mode"] != "rlimit":
            idx = self.n + 1
            if idx == f["at"] or (self.faulted and f["mode"] == "sticky" and what.startswith("write ")):
                if on_fail:
                    on_fail()
                self._failed(what, f["errno"])
                if f["mode"] == "interrupt":
                    # the process is being taken down by an exception that unwinds the stack (Ctrl-C, a SIGTERM
                    # handler calling sys.exit): `finally` blocks and context managers run before it dies, and what
                    # they leave behind is what the next run finds (seed C18-11)
                    raise KeyboardInterrupt()
                code = getattr(errno, f["errno"])
                raise OSError(code, os.strerror(code))
        try:
            r = fn()
        except OSError as e:
            if f and f["mode"] == "rlimit":  # the kernel said no (EFBIG): a real failing operation
                self._failed(what, errno.errorcode.get(e.errno, str(e.errno)) + "(kernel)")
            raise
        self.done(what, nbytes)
        return r


class _CountingRaw(io.RawIOBase):
    """the raw layer of a file opened for writing: plain os.open/os.write/os.close, each counted.
    The buffered and text layers above it are Python's own, so chunking and the data that is still in
    user-space buffers at the moment of death are the real ones."""

    def __init__(self, counter, path, flags):
        super().__init__()
        self._c = counter
        self._path = os.fspath(path)
        self._base = os.path.basename(self._path)
        self._fd = -1
        self.name = self._path
        self._fd = counter.op("open %s" % self._base, lambda: os.open(self._path, flags, 0o666))

    def writable(self):
        return True

    def readable(self):
        return False

    def seekable(self):
        return True

    def fileno(self):
        return self._fd

    def tell(self):
        return os.lseek(self._fd, 0, os.SEEK_CUR)

    def seek(self, pos, whence=0):
        return os.lseek(self._fd, pos, whence)

    def truncate(self, size=None):
        if size is None:
            size = self.tell()
        self._c.op("truncate %s" % self._base, lambda: os.ftruncate(self._fd, size))
        return size

    def _write_all(self, chunk):
        off = 0
        while off < len(chunk):
            off += os.write(self._fd, chunk[off:])

    def write(self, b):
        data = bytes(b)
        n = len(data)
        if n == 0:
            return 0
        k = self._c.pieces
        cuts = [0] + [n * i // k for i in range(1, k)] + [n]
        for a, z in zip(cuts, cuts[1:]):
            if z > a:
                self._c.op("write %s" % self._base, lambda: self._write_all(data[a:z]), z - a)
        return n

    def close(self):
        if not self.closed:
            try:
                super().close()  # marks closed, flushes nothing at the raw level
            finally:
                fd, self._fd = self._fd, -1
                if fd >= 0:  # as on Linux, the descriptor is released even when close reports an error
                    self._c.op("close %s" % self._base, lambda: os.close(fd), on_fail=lambda: os.close(fd))


def _install(counter, watch_dir):
    """replace the ways python code reaches the file system for writing, inside the forked child only"""
    real_open = builtins.open
    watch_dir = os.path.realpath(watch_dir)

    def watched(p):
        try:
            return os.path.dirname(os.path.realpath(os.fspath(p))) == watch_dir
        except TypeError:
            return False

    def my_open(file, mode="r", buffering=-1, encoding=None, errors=None, newline=None, closefd=True, opener=None):
        if isinstance(file, int) or not any(c in mode for c in "wax+") or not watched(file):
            return real_open(file, mode, buffering, encoding, errors, newline, closefd, opener)
        if "+" in mode:
            raise HarnessError("C18 harness: open mode %r on the checkpoint is not modelled" % mode)
        if "w" in mode:
            flags = os.O_WRONLY | os.O_CREAT | os.O_TRUNC
        elif "a" in mode:
            flags = os.O_WRONLY | os.O_CREAT | os.O_APPEND
        else:
            flags = os.O_WRONLY | os.O_CREAT | os.O_EXCL
        flags |= getattr(os, "O_CLOEXEC", 0)
        raw = _CountingRaw(counter, file, flags)
        binary = "b" in mode
        if buffering == 0:
            if not binary:
                raise ValueError("can't have unbuffered text I/O")
            return raw
        size = io.DEFAULT_BUFFER_SIZE if buffering in (-1, 1) else buffering
        buf = io.BufferedWriter(raw, size)
        if binary:
            return buf
        return io.TextIOWrapper(buf, encoding or "utf-8", errors, newline, buffering == 1)

    builtins.open = my_open
    io.open = my_open

    def wrap2(name):
        real = getattr(os, name)

        def f(src, dst, *a, **k):
            if not (watched(src) or watched(dst)):
                return real(src, dst, *a, **k)
            return counter.op("%s %s -> %s" % (name, os.path.basename(os.fspath(src)), os.path.basename(os.fspath(dst))), lambda: real(src, dst, *a, **k))

        setattr(os, name, f)

    def wrap1(name):
        real = getattr(os, name)

        def f(p, *a, **k):
            if isinstance(p, int) or not watched(p):
                return real(p, *a, **k)
            return counter.op("%s %s" % (name, os.path.basename(os.fspath(p))), lambda: real(p, *a, **k))

        setattr(os, name, f)

    for nm in ("rename", "replace", "link", "symlink"):
        wrap2(nm)
    for nm in ("remove", "unlink", "truncate"):
        wrap1(nm)


def _send(fd, obj):
    data = json.dumps(obj).encode()
    off = 0
    while off < len(data):
        off += os.write(fd, data[off:])


def run_write(write, path, crash_at, pieces, seed=0, fault=None, versions=None, oracle=None, pre=None):
    """fork; in the child run write(path) with the k-th file-system operation being the last one.
    crash_at=None: run to completion and report the operation trace.
    fault: a failing operation (see _Counter); the child then judges the directory after every later
    operation (= what a death at that instant would leave) and reports the verdicts.
    returns (exit code, report of the child)"""
    r, w = os.pipe()
    sys.stdout.flush()
    pid = os.fork()
    if pid == 0:
        code = EXIT_HARNESS
        try:
            os.close(r)
            signal.alarm(120)  # a hung child kills itself; the parent then reports a harness error
            import gc

            gc.freeze()  # what the worker already holds is not garbage of this write (and scanning it costs 70 ms)
            sys.stdout = sys.stderr = io.StringIO()  # progress tables of the code under test die with the child
            obs = []
            real_open = builtins.open
            d_ = os.path.dirname(path)

            def observe(n, what):
                st_ = {}
                for fn in sorted(os.listdir(d_)):
                    with real_open(os.path.join(d_, fn), "rb") as fh:
                        st_[fn] = fh.read()
                v = oracle.judge(pre, st_, versions)
                obs.append({"n": n, "op": what, "verdict": v, "shape": oracle.shape(st_, versions),
                            "dir": {fn: describe(b, versions) for fn, b in st_.items()} if v else None})

            counter = _Counter(crash_at, pieces, fault, observe if fault else None)
            torch.manual_seed(seed)
            if fault and fault["mode"] == "rlimit":
                import resource

                signal.signal(signal.SIGXFSZ, signal.SIG_IGN)
                resource.setrlimit(resource.RLIMIT_FSIZE, (fault["limit"], fault["limit"]))
            _install(counter, os.path.dirname(path))
            try:
                write(path)
                gc.collect()  # a file object left to the collector is closed now, as it would be in a living process
                _send(w, {"trace": counter.trace, "nbytes": counter.nbytes, "obs": obs, "faulted": counter.faulted})
                code = 0
            except BaseException as e:  # noqa
                fr = impl_frame(e)
                harness_fault = isinstance(e, (OSError, KeyboardInterrupt)) and counter.faulted  # the injected error, or its consequence, came back out
                _send(w, {"trace": counter.trace, "nbytes": counter.nbytes, "obs": obs, "faulted": counter.faulted,
                          "raised": "%s@%s" % (type(e).__name__, fr or "?"), "impl": fr is not None or harness_fault,
                          "message": str(e)[:300], "tb": traceback.format_exc()[-1500:]})
                code = EXIT_RAISED
        finally:
            os._exit(code)
    os.close(w)
    chunks = []
    while True:
        b = os.read(r, 1 << 16)
        if not b:
            break
        chunks.append(b)
    os.close(r)
    _, status = os.waitpid(pid, 0)
    if os.WIFSIGNALED(status):
        raise HarnessError("C18 crash child killed by signal %d (crash_at=%r)" % (os.WTERMSIG(status), crash_at))
    code = os.WEXITSTATUS(status)
    info = json.loads(b"".join(chunks).decode()) if chunks else None
    if code == EXIT_HARNESS or (code not in (0, EXIT_CRASH, EXIT_RAISED)):
        raise HarnessError("C18 crash child failed with exit code %d (crash_at=%r)" % (code, crash_at))
    if code == EXIT_RAISED and not info.get("impl"):
        raise HarnessError("C18 harness code raised inside the crash child: %s\n%s" % (info.get("raised"), info.get("tb")))
    return code, info


# =========================================================================== directory states (parent side)
def read_dir(d):
    out = {}
    for fn in sorted(os.listdir(d)):
        p = os.path.join(d, fn)
        if os.path.isfile(p) and not os.path.islink(p):
            with open(p, "rb") as f:
                out[fn] = f.read()
        else:
            out[fn] = None  # something that is not a regular file
    return out


def restore_dir(d, state):
    for fn in os.listdir(d):
        p = os.path.join(d, fn)
        if os.path.isdir(p) and not os.path.islink(p):
            shutil.rmtree(p)
        else:
            os.remove(p)
    for fn, b in state.items():
        if b is None:
            raise HarnessError("C18: cannot restore a non-regular directory entry %r" % fn)
        with open(os.path.join(d, fn), "wb") as f:
            f.write(b)


def classify(b, versions):
    """'-' absent, 'V' complete (byte-identical with a whole checkpoint), '0' empty, 'p' anything else"""
    if b is None:
        return "-", None
    for i, v in enumerate(versions):
        if b == v:
            return "V", i
    if len(b) == 0:
        return "0", None
    return "p", None


def describe(b, versions):
    if b is None:
        return "absent"
    c, i = classify(b, versions)
    if c == "V":
        return "complete V%d (%d bytes)" % (i, len(b))
    if c == "0":
        return "empty file"
    for i, v in enumerate(versions):
        if v.startswith(b):
            return "truncated V%d (%d of %d bytes)" % (i, len(b), len(v))
    return "mixture / foreign content (%d bytes)" % len(b)


def shape_of(state, versions, name=CK):
    return "|".join("%s:%s" % (lab, classify(state.get(name + suf), versions)[0]) for lab, suf in (("name", ""), ("old", ".old"), ("new", ".new")))


def judge(state, versions, name=CK):
    """the property's oracle on one directory: list of (kind, text)"""
    out = []
    cls = {suf: classify(state.get(name + suf), versions)[0] for suf in SUFFIXES}
    if name in state and cls[""] != "V":
        b = state[name]
        trunc = b is not None and any(v.startswith(b) for v in versions)
        out.append(("name_truncated" if trunc else "name_corrupt", describe(b, versions)))
    if not any(c == "V" for c in cls.values()):
        out.append(("lost", "no complete checkpoint under name/.old/.new"))
    return out


class Oracle:
    """the property on one directory.  Single checkpoint name: `judge` / `shape_of` above.  all_files
    (checkpoint_all: a file per epoch): whichever file a write goes over, a file that held a complete
    checkpoint before the write began never becomes an incomplete one, and some complete checkpoint
    exists; a file that did not exist before may be partial (nothing is written over)."""

    def __init__(self, name=CK, all_files=False):
        self.name = name
        self.all_files = all_files

    def shape(self, state, versions):
        if not self.all_files:
            return shape_of(state, versions, self.name)
        return "|".join("%s:%s" % (fn, classify(b, versions)[0]) for fn, b in sorted(state.items())) or "empty"

    def judge(self, pre, post, versions):
        if not self.all_files:
            return judge(post, versions, self.name)
        out = []
        for fn, b in sorted(post.items()):
            if classify(b, versions)[0] != "V" and classify(pre.get(fn), versions)[0] == "V":
                trunc = b is not None and any(v.startswith(b) for v in versions)
                out.append(("name_truncated" if trunc else "name_corrupt", "%s: %s" % (fn, describe(b, versions))))
        if not any(classify(b, versions)[0] == "V" for b in post.values()):
            out.append(("lost", "no complete checkpoint in the directory"))
        return out


def opkind(op):
    return op.split(" ", 1)[0]


# =========================================================================== exploration of the schedule tree
def crash_states(write, state, d, path, pieces, seed):
    """all deaths of one write started from directory `state`: returns (exit code of the uninterrupted run,
    its report, [directory after dying behind operation k, k = 1..N]); N-th entry = the uninterrupted run"""
    restore_dir(d, state)
    code, info = run_write(write, path, None, pieces, seed)
    n_ops = len(info["trace"])
    full_state = read_dir(d)
    posts = []
    for k in range(1, n_ops):
        restore_dir(d, state)
        rc, _ = run_write(write, path, k, pieces, seed)
        if rc != EXIT_CRASH:
            raise HarnessError("C18: crash child for boundary %d/%d exited with %d: the write is not deterministic" % (k, n_ops, rc))
        posts.append(read_dir(d))
    if n_ops:
        posts.append(full_state)
    return code, info, posts


def _describe_dir(state, versions):
    return {fn: describe(v, versions) for fn, v in state.items()}


FAULT_LEVELS = 2  # failing operations are injected into the writes of the first two levels of the schedule tree


def fault_points(fault, trace, nbytes):
    """the failing-operation faults to inject into a write whose uninterrupted operation trace is `trace`"""
    if not fault:
        return []
    mode = fault["mode"]
    out = []
    if mode == "rlimit":  # the file may grow to the middle of each raw write, and no further
        size = {}
        for op, nb in zip(trace, nbytes):
            if opkind(op) == "write":
                fn = op.split(" ", 1)[1]
                out.append({"mode": "rlimit", "errno": "EFBIG", "limit": size.get(fn, 0) + nb // 2, "at": None, "what": op})
                size[fn] = size.get(fn, 0) + nb
        return out
    for j, op in enumerate(trace, 1):
        out.append({"mode": mode, "errno": fault["errno"], "at": j, "what": op})
    return out


def explore(write_of, versions, depth, pieces, picks, tmp, res, tags, ident, seed=0, max_fail=6, name=CK, fault=None, oracle=None, first_name=None):
    """write_of(i) -> callable(path) that writes version i (run in a forked child).
    Appends failures to res; returns (executions, non-trivial keys, label counts, frontier per level)."""
    d = os.path.join(tmp, "run")
    os.makedirs(d, exist_ok=True)
    path = os.path.join(d, name)
    oracle = oracle or Oracle(name)
    labels = {}
    keys = []
    evals = 0

    def lab(k, n=1):
        labels[k] = labels.get(k, 0) + n

    reported = set()

    def report(kind, key, detail, **t):
        if key in reported or len(reported) >= max_fail:
            return
        reported.add(key)
        res.fail(kind, detail, **t)

    # a frontier entry: (state, history, inside) ; history = list of step descriptions
    frontier = [({first_name or name: versions[0]}, [], False)]
    for level in range(1, depth + 1):
        known = versions[: level + 1]
        write = write_of(level)
        classes = {}  # shape -> list of (state, history, inside)
        for state, hist, had_inside in frontier:
            pre_shape = oracle.shape(state, versions[:level])
            code, info, posts = crash_states(write, state, d, path, pieces, seed)
            trace = info["trace"]
            n_ops = len(trace)
            if code == EXIT_RAISED:
                lab("writer_raised")
                report("raises:" + info["raised"], ("raises", pre_shape),
                       {"message": info["message"], "schedule": hist, "directory_before": _describe_dir(state, versions)},
                       prestate=pre_shape, level=level, bucket=pre_shape)
            if n_ops == 0:
                lab("write_without_file_operations")
            for k, post in enumerate(posts, 1):
                evals += 1
                inside = k < n_ops
                step = {"write": level, "point": "k%d" % k, "died_after_op": k, "of": n_ops, "op": trace[k - 1], "completed": (not inside) and code == 0}
                lab("level%d" % level)
                lab(("died_after:" + opkind(trace[k - 1])) if inside else "completed")
                lab("pre:" + pre_shape)
                if inside and level >= 2 and had_inside:
                    keys.append((ident, [h["point"] for h in hist] + [step["point"]]))
                verdict = oracle.judge(state, post, known)
                if verdict:
                    for kind, text in verdict:
                        report(kind, (kind, pre_shape), {"what": text, "schedule": hist + [step], "directory_before": _describe_dir(state, versions),
                                                         "directory_after": _describe_dir(post, versions)},
                               prestate=pre_shape, level=level, died_after=opkind(trace[k - 1]), bucket=pre_shape)
                    continue  # nothing is explored behind a state that already violates the property
                sh = oracle.shape(post, known)
                step = dict(step, leaves=sh)
                classes.setdefault(sh, []).append((post, hist + [step], had_inside or inside))
            # ---- operations that fail (OSError) and hand control back to the program
            if level > FAULT_LEVELS or code != 0:
                continue
            for f in fault_points(fault, trace, info.get("nbytes") or [0] * n_ops):
                restore_dir(d, state)
                rc, finfo = run_write(write, path, None, pieces, seed, fault=f, versions=known, oracle=oracle, pre=state)
                if not finfo.get("faulted"):
                    lab("fault_not_reached")
                    continue
                evals += 1
                post = read_dir(d)
                fkind = opkind(f["what"])
                ftag = "%s:%s@%s" % (f["errno"], f["mode"], fkind)
                outcome = "failed_loudly" if rc == EXIT_RAISED else "carried_on"
                lab("level%d" % level)
                lab("pre:" + pre_shape)
                lab("fault:%s:%s" % (f["mode"], fkind))
                lab("fault_outcome:" + outcome)
                pid_ = "f%s:%s" % (f["at"] if f["at"] else f["limit"], f["mode"])
                step = {"write": level, "point": pid_, "failed_op": f["at"], "op": f["what"], "error": f["errno"], "mode": f["mode"], "outcome": outcome,
                        "operations": finfo["trace"]}
                if f["mode"] == "rlimit":
                    step["file_size_limit"] = f["limit"]
                if level >= 2 and had_inside:
                    keys.append((ident, [h["point"] for h in hist] + [pid_]))
                bad = False
                for o in finfo["obs"]:  # the directory at every instant from the failure on
                    for kind, text in o["verdict"]:
                        bad = True
                        report(kind, (kind, pre_shape, "fault", fkind),
                               {"what": text, "schedule": hist + [step], "instant": "after operation %d (%s) of that write" % (o["n"], o["op"]),
                                "directory_before": _describe_dir(state, versions), "directory_at_that_instant": o["dir"],
                                "directory_when_the_write_ended": _describe_dir(post, versions)},
                               prestate=pre_shape, level=level, fault=ftag, failed_op=fkind, outcome=outcome, bucket="%s/%s failed" % (pre_shape, fkind))
                for kind, text in oracle.judge(state, post, known):
                    bad = True
                    report(kind, (kind, pre_shape, "fault", fkind),
                           {"what": text, "schedule": hist + [step], "instant": "after the write ended (%s)" % outcome,
                            "directory_before": _describe_dir(state, versions), "directory_when_the_write_ended": _describe_dir(post, versions)},
                           prestate=pre_shape, level=level, fault=ftag, failed_op=fkind, outcome=outcome, bucket="%s/%s failed" % (pre_shape, fkind))
                if not bad:
                    sh = oracle.shape(post, known)
                    classes.setdefault(sh, []).append((post, hist + [dict(step, leaves=sh)], True))
        frontier = []
        for i, sh in enumerate(sorted(classes)):
            members = classes[sh]
            pick = picks[(level - 1) % len(picks)] if picks else 0
            frontier.append(members[(pick + i) % len(members)])
        lab("shapes_after_level%d" % level, len(classes))
    return evals, keys, labels, frontier


# =========================================================================== payloads and call sites
SITES = ["save_parameters", "mcmc", "optimizer", "mcmc_run", "optimizer_run", "hmc_run"]  # one checkpoint name, rewritten
RUN_SITES = ["lbfgs_run"]  # Optimizer._run_closure (torch.optim.LBFGS only); optimizer_run = Optimizer._run
ALL_SITES = ["optimizer_run_all", "lbfgs_run_all"]  # checkpoint_all=true: one file per epoch
ALGORITHMS = {  # every optimiser family the JSON route accepts goes through Optimizer._run, except LBFGS
    "Adam": {"lr": 0.01}, "SGD": {"lr": 0.001, "momentum": 0.9}, "Adagrad": {"lr": 0.01}, "RMSprop": {"lr": 0.001}, "AdamW": {"lr": 0.01},
}
OPTIMIZER_SITES = ("optimizer", "optimizer_run", "optimizer_run_all", "lbfgs_run", "lbfgs_run_all")


def _values(n, q, a):
    """deterministic 17-digit values, all positive; a = the version's scale"""
    return (a * (1.0 + (torch.arange(n, dtype=torch.float64) + q) / 7.0))


def _shaped(t, two_d):
    if two_d and t.numel() >= 2 and t.numel() % 2 == 0:
        return t.reshape(2, -1)
    return t


class Site:
    """objects of one case, built from JSON in the parent; `prepare(i)` puts them into the state that
    is written as version i, `write(path)` performs one checkpoint write through the call site"""

    def __init__(self, case):
        self.case = case
        self.kind = case["site"]
        sizes = case["sizes"]
        two = case.get("two_d", [False] * len(sizes))
        self.all = self.kind.endswith("_all")
        self.fname = case.get("ckname") or (CK_NOEXT if self.all else CK)
        self.level = 0
        if "_run" in self.kind:  # the algorithms themselves are only defined for vectors
            two = [False] * len(sizes)
        self.two = two
        dic = {}
        a0 = case["scales"][0]
        specs = [tt.P("p%d" % q, _shaped(_values(n, q, a0), two[q]).tolist()) for q, n in enumerate(sizes)]
        ids = [s["id"] for s in specs]
        self.params = [tt.build(s, dic)[0] for s in specs]
        self.obj = None
        k = self.kind
        if k == "save_parameters":
            return
        if k in OPTIMIZER_SITES:  # the optimisers really move the parameters: a density defined on the whole line
            dist, dpar = "torch.distributions.Normal", {"loc": [0.0], "scale": [10.0]}
        else:
            dist, dpar = "torch.distributions.Gamma", {"concentration": [2.0], "rate": [1.0]}
        dists = [{"id": "d%d" % q, "type": "Distribution", "distribution": dist, "x": pid, "parameters": dpar} for q, pid in enumerate(ids)]
        tt.build({"id": "joint", "type": "JointDistributionModel", "distributions": dists}, dic)
        if k in ("mcmc", "mcmc_run"):
            if k == "mcmc":
                ops = [{"id": "op%d" % q, "type": "ScalerOperator" if q % 2 == 0 else "SlidingWindowOperator", "parameters": pid, "weight": 1.0 + q}
                       for q, pid in enumerate(ids)]
            else:
                ops = [{"id": "op", "type": "ScalerOperator", "parameters": ids, "weight": 1.0, "scaler": 0.9}]
            spec = {"id": "mcmc", "type": "MCMC", "joint": "joint", "iterations": 1, "checkpoint": CK, "checkpoint_frequency": 1,
                    "every": 0, "operators": ops}
        elif k in OPTIMIZER_SITES:
            if k.startswith("lbfgs"):
                algo, options = "LBFGS", {"lr": 0.05, "max_iter": 3, "history_size": 3}
            else:
                algo = case.get("algo") or "Adam"
                options = ALGORITHMS[algo]
            spec = {"id": "opt", "type": "Optimizer", "algorithm": "torch.optim." + algo, "options": options, "maximize": True,
                    "iterations": 1, "checkpoint": self.fname, "checkpoint_frequency": 1, "loss": "joint", "parameters": ids}
            if self.all:  # one file per checkpoint: "<name minus extension>-<epoch><extension>"
                spec["checkpoint_all"] = True
        elif k == "hmc_run":
            spec = {"id": "hmc", "type": "HMC", "joint": "joint", "parameters": ids, "iterations": 1, "checkpoint": CK,
                    "checkpoint_frequency": 1, "every": 1000000,
                    "integrator": {"id": "lf", "type": "LeapfrogIntegrator", "steps": 2, "step_size": 0.001}}
        else:
            raise HarnessError("unknown call site %r" % k)
        self.obj = tt.build(spec, dic)[0]

    def prepare(self, i):
        a = self.case["scales"][i]
        for q, p in enumerate(self.params):
            n = self.case["sizes"][q]
            v = _shaped(_values(n, q, a), self.two[q])
            if self.kind in OPTIMIZER_SITES:  # in place: the torch optimiser holds these very tensors
                with torch.no_grad():
                    p.tensor.copy_(v)
                p.fire_parameter_changed()
            else:
                p.tensor = v
        if self.kind in ("mcmc", "optimizer"):
            self.obj._epoch = 1000 * i + 7

    def write(self, path):
        k = self.kind
        if k == "save_parameters":
            from torchtree.core.parameter_utils import save_parameters

            save_parameters(path, self.params)
        elif k == "mcmc":
            self.obj.checkpoint = path
            self.obj.save_full_state()
        elif k == "optimizer":
            self.obj.save_full_state(path)
        else:  # one real iteration of the algorithm; its checkpoint step performs the write
            import numpy as np

            np.random.seed(self.case.get("torch_seed", 0) % (2**32))
            epoch = self.level + 1 if self.all else 1  # checkpoint_all: version i is the checkpoint of epoch i+1
            self.obj.checkpoint = path
            self.obj.iterations = epoch
            self.obj._epoch = epoch
            self.obj.run()

    def write_of(self, i):
        def w(path):
            self.level = i
            self.prepare(i)
            self.write(path)

        return w


def reference_texts(write_of, n, tmp, pieces, seed, name=CK, names_out=None):
    """what an uninterrupted write of version i produces in a fresh directory (one child per version)"""
    out = []
    for i in range(n):
        d = os.path.join(tmp, "ref%d" % i)
        os.makedirs(d)
        p = os.path.join(d, name)
        code, info = run_write(write_of(i), p, None, pieces, seed)
        if code != 0:
            return None, info
        st_ = read_dir(d)
        if len(st_) != 1:  # (the file need not be called `name`: checkpoint_all derives a name per epoch)
            raise HarnessError("C18: a write into an empty directory left %r" % sorted(st_))
        out.append(list(st_.values())[0])
        if names_out is not None:
            names_out.append(list(st_)[0])
        shutil.rmtree(d)
    return out, None


# =========================================================================== generator
FAULTS = [{"mode": "sticky", "errno": "ENOSPC"}, {"mode": "sticky", "errno": "EDQUOT"}, {"mode": "once", "errno": "EIO"},
          {"mode": "once", "errno": "ENOSPC"}, {"mode": "rlimit", "errno": "EFBIG"}, {"mode": "sticky", "errno": "EFBIG"},
          {"mode": "interrupt", "errno": "KeyboardInterrupt"}, {"mode": "interrupt", "errno": "KeyboardInterrupt"}]
BUDGET = {"quick": {1: 9000, 2: 2200, 3: 900, 4: 350}, "thorough": {1: 40000, 2: 9000, 3: 2500, 4: 900}}


def cases(tier="quick", sites=tuple(SITES + RUN_SITES + ALL_SITES)):
    @st.composite
    def gen(draw):
        depth = draw(st.sampled_from([1, 2, 2, 3, 3, 4]))
        site = draw(st.sampled_from(sites))
        budget = BUDGET[tier][depth]
        if site in ALL_SITES and depth == 4:
            depth = 3  # every epoch adds a file, and with it directory shapes
        if site.startswith("lbfgs"):
            budget = max(20, budget // 10)  # the state of LBFGS (history of directions) is ~8 times the parameters
        elif site in OPTIMIZER_SITES:
            budget = max(30, budget // 4)  # optimiser moments
        elif site != "save_parameters":
            budget = max(40, budget // 2)  # operator state comes on top
        npar = draw(st.integers(1, 40))
        sizes = []
        left = budget
        for q in range(npar):
            if left < 1:
                break
            hi = min(left, 1500)
            n = draw(st.one_of(st.integers(1, min(hi, 12)), st.integers(1, hi)))
            sizes.append(n)
            left -= n
        two = [draw(st.booleans()) for _ in sizes]
        scales = draw(st.lists(fl(0.1, 10.0), min_size=depth + 1, max_size=depth + 1, unique=True))
        algo = draw(st.sampled_from(sorted(ALGORITHMS))) if site in ("optimizer", "optimizer_run", "optimizer_run_all") else None
        ckname = draw(st.sampled_from([CK, CK_NOEXT])) if site in ALL_SITES else None
        return {"site": site, "sizes": sizes, "two_d": two, "scales": scales, "depth": depth, "algo": algo, "ckname": ckname,
                "pieces": draw(st.sampled_from([1, 1, 2])), "picks": draw(st.lists(st.integers(0, 50), min_size=1, max_size=4)),
                "fault": draw(st.sampled_from(FAULTS)), "torch_seed": draw(st.integers(0, 2**31 - 1))}

    return gen()


def os_threads():
    try:
        with open("/proc/self/status") as f:
            for line in f:
                if line.startswith("Threads:"):
                    return int(line.split()[1])
    except OSError:
        pass
    return -1


def size_band(nbytes):
    return "1buf" if nbytes <= 8192 else ("2-4buf" if nbytes <= 4 * 8192 else ">4buf")


def pretags(c):
    return {"site": c["site"], "cls": c["site"]}


def body(c):
    tmp = tempfile.mkdtemp(prefix="vt-c18-")
    try:
        return _body(c, tmp)
    finally:
        shutil.rmtree(tmp, ignore_errors=True)


def _body(c, tmp):
    import threading

    site = Site(c)
    res = Res(tags={"site": c["site"], "cls": c["site"]})
    if threading.active_count() != 1:
        raise HarnessError("C18: fork from a multi-threaded python process")
    seed = c.get("torch_seed", 0)
    names = []
    versions, info = reference_texts(site.write_of, c["depth"] + 1, tmp, 1, seed, site.fname, names)
    if versions is None:
        return res.fail("raises:" + info["raised"], {"message": info["message"], "where": "write into an empty directory"}, prestate="empty", bucket="empty")
    for i, v in enumerate(versions):
        try:
            json.loads(v.decode())
        except ValueError as e:
            return res.fail("unparseable", {"version": i, "error": str(e)[:200]}, prestate="empty", bucket="empty")
    if len(set(versions)) != len(versions):
        raise HarnessError("C18: two versions of the checkpoint have identical text")
    ident = (c["site"], c["sizes"], c["two_d"], c["pieces"])
    fault = c.get("fault")
    evals, keys, labels, _ = explore(site.write_of, versions, c["depth"], c["pieces"], c["picks"], tmp, res, res.tags, ident, seed, name=site.fname, fault=fault,
                                    oracle=Oracle(site.fname, site.all), first_name=names[0] if site.all else None)
    labels["faults:%s" % (("%s/%s" % (fault["mode"], fault["errno"])) if fault else "none")] = 1
    labels["site:" + c["site"]] = evals
    labels["file:" + size_band(max(len(v) for v in versions))] = evals
    labels["pieces:%d" % c["pieces"]] = evals
    labels["depth:%d" % c["depth"]] = evals
    labels["os_threads=%d" % os_threads()] = 1
    labels["cases"] = 1
    res.evals = evals
    res.keys = keys
    res.labels = labels
    return res


# =========================================================================== selftest: the machinery on toy writers
def _toy(protocol):
    def write_of(i):
        lines = json.dumps({"v": i, "data": list(range(1500 + i))}, indent=1).splitlines(True)

        def w(path):
            if protocol == "inplace":
                with open(path, "w") as f:
                    for ln in lines:
                        f.write(ln)
            elif protocol == "safe":
                with open(path + ".new", "w") as f:
                    for ln in lines:
                        f.write(ln)
                os.replace(path + ".new", path)
            elif protocol == "noflush":  # the tail of the text is still in python's buffer when the file gets its name
                f = open(path + ".new", "w")
                for ln in lines:
                    f.write(ln)
                os.replace(path + ".new", path)
                f.close()
            elif protocol == "swallow":  # safe against death, but an I/O error is swallowed and the stump installed
                try:
                    with open(path + ".new", "w") as f:
                        for ln in lines:
                            f.write(ln)
                except OSError:
                    pass
                os.replace(path + ".new", path)

        return w

    return write_of


def selftest():
    tmp = tempfile.mkdtemp(prefix="vt-c18-self-")
    try:
        unsafe = {"name_truncated", "lost"}
        sticky, rlimit = {"mode": "sticky", "errno": "ENOSPC"}, {"mode": "rlimit", "errno": "EFBIG"}
        for protocol, fault, expect in (("safe", None, set()), ("safe", sticky, set()), ("safe", rlimit, set()), ("inplace", None, unsafe),
                                        ("noflush", None, unsafe), ("swallow", None, set()), ("swallow", sticky, unsafe), ("swallow", rlimit, unsafe)):
            wo = _toy(protocol)
            sub = os.path.join(tmp, "%s-%s" % (protocol, fault["mode"] if fault else "kill"))
            os.makedirs(sub)
            versions, info = reference_texts(wo, 3, sub, 1, 0)
            if versions is None:
                raise HarnessError("C18 selftest: toy writer raised %r" % (info,))
            # the counting file object must produce exactly what the real one does
            w = wo(1)
            real = os.path.join(sub, "real.json")
            w(real)
            with open(real, "rb") as f:
                if f.read() != versions[1]:
                    raise HarnessError("C18 selftest: counted file object and real file object disagree")
            os.remove(real)
            res = Res(tags={"site": "toy"})
            evals, keys, labels, _ = explore(wo, versions, 1 if fault else 2, 2, [1], sub, res, res.tags, "toy", fault=fault)
            kinds = {f.kind for f in res.fails}
            if kinds != expect:
                raise HarnessError("C18 selftest: toy protocol %r with faults %r gave %r, expected %r" % (protocol, fault, sorted(kinds), sorted(expect)))
            if fault and not any(k.startswith("fault:") for k in labels):
                raise HarnessError("C18 selftest: no failing operation was injected (%r)" % (fault,))
            if evals < 10 or (protocol == "safe" and not fault and not keys):
                raise HarnessError("C18 selftest: exploration too small (%d executions)" % evals)
    finally:
        shutil.rmtree(tmp, ignore_errors=True)


# =========================================================================== syscall-level repetition under strace
SYSCALLS = {  # operation kind of the forked model -> system calls python may use for it (strace counts each separately)
    "open": ["openat", "open", "creat"],
    "write": ["write"],
    "close": ["close"],
    "rename": ["rename", "renameat", "renameat2"],
    "replace": ["rename", "renameat", "renameat2"],
    "remove": ["unlink", "unlinkat"],
    "unlink": ["unlink", "unlinkat"],
}
_TRACED = sorted({x for v in SYSCALLS.values() for x in v})
_strace_state = {}


def strace_ok():
    """can this sandbox ptrace?  (strace kills /bin/true at its first exit_group -> terminated by SIGKILL)"""
    if "ok" not in _strace_state:
        ok = False
        exe = shutil.which("strace")
        if exe:
            try:
                r = subprocess.run([exe, "-f", "-qq", "-o", "/dev/null", "-e", "trace=exit_group", "-e", "inject=exit_group:signal=SIGKILL:when=1", "/bin/true"],
                                   stdout=subprocess.DEVNULL, stderr=subprocess.DEVNULL, timeout=60)
                ok = r.returncode in (-9, 137)
            except (OSError, subprocess.SubprocessError):
                ok = False
        _strace_state["ok"] = ok
        _strace_state["exe"] = exe
    return _strace_state["ok"]


def strace_write(casefile, version, path, trace, k):
    """a real python process performs the write with no instrumentation at all and is killed by strace on
    entering the system call that would be operation k+1 of `trace` (k = len(trace): not killed)"""
    cmd = [_strace_state["exe"], "-f", "-qq", "-o", "/dev/null"]
    for suf in SUFFIXES:
        cmd += ["-P", path + suf]
    cmd += ["-e", "trace=" + ",".join(_TRACED)]
    if k < len(trace):
        kind = opkind(trace[k])
        if kind not in SYSCALLS:
            raise HarnessError("C18: no system call known for operation %r" % trace[k])
        m = 1 + sum(1 for op in trace[:k] if SYSCALLS.get(opkind(op)) == SYSCALLS[kind])
        cmd += ["-e", "inject=%s:signal=SIGKILL:when=%d" % (",".join(SYSCALLS[kind]), m)]
    cmd += [sys.executable, "-m", "vt.props.c18", "--child", casefile, str(version), path]
    env = dict(os.environ)
    env["PYTHONPATH"] = os.pathsep.join([REPO, os.path.join(HERE, ".deps"), HERE])
    env["PYTHONDONTWRITEBYTECODE"] = "1"
    r = subprocess.run(cmd, env=env, cwd=os.path.dirname(path), stdout=subprocess.DEVNULL, stderr=subprocess.PIPE, timeout=600)
    killed = r.returncode in (-9, 137)
    if k < len(trace) and not killed:
        raise HarnessError("C18: strace child was not killed at operation %d (%s): rc=%s %s" % (k + 1, trace[k], r.returncode, r.stderr.decode()[-800:]))
    if k >= len(trace) and r.returncode != 0:
        raise HarnessError("C18: uninterrupted strace child failed: rc=%s %s" % (r.returncode, r.stderr.decode()[-800:]))


def _child_main(argv):
    casefile, version, path = argv[0], int(argv[1]), argv[2]
    torch.set_default_dtype(torch.float64)
    torch.set_num_threads(1)
    with open(casefile) as f:
        case = json.load(f)
    site = Site(case)
    sys.stdout = sys.stderr = io.StringIO()
    torch.manual_seed(case.get("torch_seed", 0))
    site.write_of(version)(path)
    os._exit(0)


def syscall_cases(tier="thorough"):
    @st.composite
    def gen(draw):
        level = draw(st.sampled_from([1, 2, 2]))
        site = draw(st.sampled_from(SITES + RUN_SITES))
        npar = draw(st.integers(1, 12))
        sizes = [draw(st.one_of(st.integers(1, 12), st.integers(1, 900))) for _ in range(npar)]
        scales = draw(st.lists(fl(0.1, 10.0), min_size=level + 1, max_size=level + 1, unique=True))
        return {"site": site, "sizes": sizes, "two_d": [draw(st.booleans()) for _ in sizes], "scales": scales, "level": level,
                "picks": draw(st.lists(st.integers(0, 50), min_size=2, max_size=2)),
                "points": draw(st.lists(st.integers(0, 10**6), min_size=2, max_size=3)),
                "torch_seed": draw(st.integers(0, 2**31 - 1))}

    return gen()


def body_syscall(c):
    tmp = tempfile.mkdtemp(prefix="vt-c18-")
    try:
        return _body_syscall(c, tmp)
    finally:
        shutil.rmtree(tmp, ignore_errors=True)


def _body_syscall(c, tmp):
    res = Res(tags={"site": c["site"], "cls": c["site"]})
    if not strace_ok():
        res.labels = {"strace_unavailable(ptrace not permitted): case skipped": 1}
        res.evals = 1
        return res
    site = Site(c)
    seed = c.get("torch_seed", 0)
    level = c["level"]
    versions, info = reference_texts(site.write_of, level + 1, tmp, 1, seed)
    if versions is None:
        return res.fail("raises:" + info["raised"], {"message": info["message"], "where": "write into an empty directory"}, prestate="empty", bucket="empty")
    casefile = os.path.join(tmp, "case.json")
    with open(casefile, "w") as f:
        json.dump(c, f)
    d = os.path.join(tmp, "run")
    os.makedirs(d)
    path = os.path.join(d, CK)
    state, hist, had_inside = {CK: versions[0]}, [], False
    if level == 2:  # start from a directory left by a death during write 1 (forked model), one that still satisfies the property
        scratch = Res(tags=res.tags)
        _, _, _, frontier = explore(site.write_of, versions[:2], 1, 1, [c["picks"][1]], tmp, scratch, res.tags, None, seed)
        if not frontier:
            return res
        state, hist, had_inside = frontier[c["picks"][0] % len(frontier)]
    pre_shape = shape_of(state, versions[:level])
    code, info, posts = crash_states(site.write_of(level), state, d, path, 1, seed)
    trace = info["trace"]
    n = len(trace)
    if code != 0 or n == 0:
        return res  # reported by the sub-check 'schedules'
    ks = sorted({1 + x % n for x in c["points"]})
    keys = []
    labels = {"pre:" + pre_shape: len(ks), "site:" + c["site"]: len(ks)}
    for k in ks:
        restore_dir(d, state)
        strace_write(casefile, level, path, trace, k)
        post = read_dir(d)
        labels["killed_entering:" + (opkind(trace[k]) if k < n else "nothing(completed)")] = labels.get("killed_entering:" + (opkind(trace[k]) if k < n else "nothing(completed)"), 0) + 1
        step = {"write": level, "died_after_op": k, "of": n, "op": trace[k - 1], "mechanism": "strace SIGKILL"}
        if post != posts[k - 1]:
            res.fail("model_mismatch", {"what": "a real process killed by strace leaves a different directory than the forked model", "schedule": hist + [step],
                                        "strace": _describe_dir(post, versions), "fork_model": _describe_dir(posts[k - 1], versions)},
                     prestate=pre_shape, level=level, bucket="model")
        for kind, text in judge(post, versions[: level + 1]):
            if any(f.kind == kind for f in res.fails):
                continue
            res.fail(kind, {"what": text, "schedule": hist + [step], "directory_before": _describe_dir(state, versions), "directory_after": _describe_dir(post, versions)},
                     prestate=pre_shape, level=level, died_after=opkind(trace[k - 1]), bucket=pre_shape)
        if k < n and level == 2 and had_inside:
            keys.append((c["site"], c["sizes"], c["two_d"], [h["point"] for h in hist] + ["k%d" % k]))
    res.evals = len(ks)
    res.keys = keys
    res.labels = labels
    return res


def fixed_cases(tier):
    """the same small payloads in every run, whatever the seed: every call site, complete schedule tree"""
    out = []
    for i, site in enumerate(SITES):
        if tier == "quick":
            out.append({"site": site, "sizes": [2], "two_d": [False], "scales": [1.5, 2.5, 3.5], "depth": 2, "pieces": 1, "picks": [0],
                        "fault": FAULTS[(0, 4, 2)[i % 3]], "torch_seed": 1})
        else:
            for j, (sizes, depth) in enumerate((([2], 4), ([700, 3], 3))):
                out.append({"site": site, "sizes": sizes, "two_d": [False] * len(sizes), "scales": [1.5, 2.5, 3.5, 4.5, 5.5][: depth + 1],
                            "depth": depth, "pieces": 2, "picks": [0, 1, 2, 3], "fault": FAULTS[(i + 3 * j) % len(FAULTS)], "torch_seed": 1})
    # Optimizer with checkpoint_all and a checkpoint name without ".json": one interrupted write
    out.append({"site": "optimizer_run_all", "sizes": [2], "two_d": [False], "scales": [1.5, 2.5], "depth": 1, "pieces": 1, "picks": [0], "fault": None, "torch_seed": 1})
    # every loop that writes a checkpoint, through Runnable.run: Optimizer._run_closure (LBFGS), Optimizer._run with every
    # optimiser family, checkpoint_all off (one name, rewritten) and on (a file per epoch)
    deep = tier != "quick"
    sc = [1.5, 2.5, 3.5, 4.5]
    base = {"sizes": [3, 2], "two_d": [False, False], "pieces": 2 if deep else 1, "picks": [0, 1, 2], "torch_seed": 1}
    out.append(dict(base, site="lbfgs_run", depth=3 if deep else 2, scales=sc[: (4 if deep else 3)], fault=FAULTS[0]))
    for algo in sorted(ALGORITHMS):
        if algo != "Adam":
            out.append(dict(base, site="optimizer_run", algo=algo, depth=2 if deep else 1, scales=sc[: (3 if deep else 2)], fault=FAULTS[2] if deep else None))
    for site, ck in (("optimizer_run_all", CK), ("lbfgs_run_all", CK), ("lbfgs_run_all", CK_NOEXT)):
        out.append(dict(base, site=site, ckname=ck, depth=3 if deep else 2, scales=sc[: (4 if deep else 3)], fault=FAULTS[4] if deep else None))
    return out


def subchecks(tier):
    subs = [
        Sub("schedules", body, strategy=lambda: cases(tier), quick=14, thorough=200, pretags=pretags, shrink_s=20),
        Sub("fixed", body, enumerate=fixed_cases, exhaustive=True, pretags=pretags),
    ]
    if tier == "thorough":
        subs.append(Sub("syscall", body_syscall, strategy=lambda: syscall_cases(tier), quick=2, thorough=96, pretags=pretags, shrink_s=30))
    return subs


if __name__ == "__main__":
    if len(sys.argv) >= 5 and sys.argv[1] == "--child":
        _child_main(sys.argv[2:])
    sys.exit(2)
