"""C19 - every configuration the CLI emits is runnable and targets the right density.

The CLI (torchtree.cli.cli.main) is driven in-process on small generated data sets; the JSON it
prints is loaded the way torchtree.torchtree.main loads it, evaluated, differentiated, compared
with the values requested on the command line, its Jacobian bookkeeping is compared with an
autograd log-determinant, and one iteration of the algorithm is run.
"""
import calendar
import contextlib
import datetime
import io
import json
import math
import os
import re
import shutil
import subprocess
import sys
import tempfile

import numpy as np
import torch
from hypothesis import strategies as st

from vt import tt
from vt.gen.basic import fl, logu
from vt.gen.trees import Topo, ins_strategy, nested_from_ins
from vt.oracle import gmrf as gmrf_oracle
from vt.runner import REPO, Res, Sub, impl_frame

PROPERTY = "C19"
LEVEL = "exploration"
RULE = (
    "Sub-check 'core' enumerates the model-defining core completely: substitution model (JC69, K80, HKY, SYM, "
    "GTR, SRD06, MG94, LG, WAG) x categories {1,4} x invariant x [no clock | clock {strict, ucln, horseshoe} x "
    "heights {ratio, shift} x tree prior {none, coalescent constant / exponential / skyride / skygrid / "
    "piecewise-linear / piecewise-exponential, birth-death constant / bdsk} with --grid/--cutoff where the CLI "
    "requires them] = 1980 model tuples, each pushed through the four sub-commands advi / map / mcmc / hmc "
    "(7920 configurations) on a generated data set (4-6 dated taxa on a generated clock-like tree, 20-66 sites; "
    "nucleotide, codon-length or amino-acid, with ambiguity codes and gaps; the 61-state MG94 tuples use 4 taxa x 9 "
    "codons), three data sets per data type and VERIF_SEED. Sub-check 'pairwise' draws, with Hypothesis, one sub-command + a core tuple + any subset of "
    "the remaining documented options (frequencies, branch-length / height / rate / coalescent initialisation, "
    "--keep, --dates, date regex/format, tip states / ambiguities / path, traits, GMRF variants, variational "
    "family / distribution / sample sizes / divergence, HMC integrator / mass matrix / adaptors / split / join, "
    "MAP options, ...), each option absent by default so that failures shrink to the few options that matter. "
    "Sub-check 'objectives' enumerates how a density is wired into an algorithm object (advi: divergence ELBO / KLpq "
    "x K_grad_samples x K_elbo_samples x family meanfield / fullrank / realnvp; hmc: single / split operators, adaptors, "
    "diagonal / dense mass matrix; mcmc) on six representative model tuples. "
    "Sub-check 'initial' enumerates the options that request initial values (--rate_init value / regression x "
    "--heights_init tree / regression x --root_height_init x --rate x --dates 0 x heights ratio / shift; --brlens_init "
    "x --keep x --frequencies; --coalescent_init value / constant / tree x coalescent) through advi and mcmc. "
    "Sub-check 'smoothing' enumerates coalescent {skyride, skygrid, piecewise-linear} x --gmrf_integrated x "
    "--disable_time_aware x --disable_gmrf_rescaling x --coalescent_non_centered through the four sub-commands. "
    "Sub-check 'executables' (thorough tier) sends a sample through the real torchtree-cli and torchtree "
    "programs in subprocesses. A configuration is counted when the CLI accepted it (exit 0 and JSON on stdout); "
    "non-trivial = accepted and (a time tree or >= 3 sampled/optimised parameter blocks); distinct = "
    "(sub-command, option assignment with numeric values reduced to their kind)."
)
ASSUMPTIONS = [
    "an argparse error / parser.error / logged error followed by exit(1) is a rejection (counted, not a violation); "
    "a Python traceback out of the CLI is counted as cli_crashed with its raising frame and is outside 'every "
    "combination the CLI accepts' (nothing was emitted)",
    "tree priors (--coalescent / --birth-death) and --heights shift are only combined with --clock: a coalescent or "
    "birth-death density is defined on time trees only (the CLI does not reject the combination; not asserted)",
    "the CLI runs in-process with default dtype float32 (as the torchtree-cli program does) and the JSON is loaded "
    "with float64 (torchtree's default); the 'executables' sub-check compares the in-process JSON with the "
    "program's stdout byte for byte",
    "clause (b) differentiates only where the algorithm uses gradients (advi: the ELBO w.r.t. the variational "
    "parameters; map, hmc: the target w.r.t. the optimised / sampled tensors); mcmc's target must be finite",
    "clause (c) compares what was explicitly requested: --rate, --rate_init, --root_height_init, --heights_init, "
    "--keep, --brlens_init, --frequencies, --coalescent_init, sampling dates (names / regex+format / csv / 0); "
    "tolerance 1e-5 relative (the CLI converts initial values in float32); regression and maximum-likelihood "
    "initial values are recomputed from the generated tree in numpy; when two options request the same quantity "
    "(--heights_init tree with --root_height_init) nothing is asserted; in addition the constrained initial values "
    "of parameters with the same id must agree between the sub-commands of one core tuple",
    "clause (d) is applied to every density that the emitted file hands to an algorithm object, located from the "
    "loaded objects and from the file's own references (Optimizer.loss.p for ELBO / KLpqImportance / ..., the "
    "convergence criterion's loss.p, MCMC.joint, the Hamiltonian of each HMC operator), not to the object that "
    "happens to be called joint.jacobian; z = the tensors moved by the MCMC operators, or the x of the variational distribution; y = the "
    "variables on which the loaded joint places densities, by class (Distribution.x, GMRF.field, CTMCScale.x, "
    "ScaleMixtureNormal.x, branch lengths for the gamma-Dirichlet prior, internal node heights for coalescent and "
    "birth-death priors; Dirichlet variables drop their last coordinate). For a block of z on which no density is placed "
    "(sitemodel.pinv, bdsk.s, srd06.mu, heights without a tree prior, ...) the transform that constrains it directly "
    "(TransformedParameter whose x is the block: sigmoid, exp, stick breaking) must be counted exactly once (implicit "
    "flat prior on the documented, constrained parameter); further terms that only depend on such blocks (a transform "
    "of a transform such as srd06.mus, the node-height transform without a tree prior) are accepted present or "
    "absent; the comparison is made at the initial point and at a deterministic perturbed point; configurations whose y is not a bijective image of the "
    "remaining blocks are counted as jac_undetermined and not asserted; map has no Jacobians by design",
    "clause (e), every sub-command: with a piecewise coalescent the GMRF term of the loaded joint is evaluated at a "
    "fixed non-constant field and compared with vt/oracle/gmrf.py for the variant the options name (skyride: "
    "time-aware, weights (d_i+d_{i+1})/2 of the loaded tree's inter-coalescent durations, divided by the root height "
    "unless --disable_gmrf_rescaling; uniform with --disable_time_aware and for the grid models; precision sampled or "
    "integrated against the gamma hyper-prior written in the file), 1e-9 relative; trees with three coinciding "
    "coalescent times (weights undefined) are skipped",
    "one iteration: --iter 1 (advi, mcmc, hmc; --samples 2 for advi, --steps 2 for hmc) is passed unless the case sets these options; "
    "map's L-BFGS is cut to one outer and one inner iteration on the loaded object (its first step is bounded by the "
    "learning rate, later ones are not, and a diverging optimiser is not this property's subject); the run happens "
    "in a fresh load, each Runnable as soon as it is constructed, as torchtree.main does; MCMC.run's closing summary "
    "divides by the number of times each operator was used and raises ZeroDivisionError after the last iteration "
    "when an operator was never picked - inevitable with a one-iteration budget, counted, not asserted",
    "generated alignments contain every nucleotide (codon data: at each of the three positions) and at least one "
    "transition and one transversion difference (empirical / F3x4 frequencies and kappa of degenerate alignments - a "
    "zero frequency makes the likelihood NaN - are not this property's subject); trees are strictly "
    "clock-like, so root-to-tip regression is exact; root heights requested lie above the oldest tip",
    "cli.main() rescans sys.path for torchtree_* plug-in packages and rebuilds the argument parsers of all four "
    "sub-commands at every call; none is installed, so the harness lets the scan happen once per process, and it only "
    "lets the parser of the sub-command in use be built (the 'executables' sub-check compares with the real program)",
    "a list-valued --elbo_samples / --grad_samples 'N,K' is not combined with --K_elbo_samples / --K_grad_samples > 1 "
    "(two spellings of the same request)",
    "not generated: --engine and plug-ins (external packages), --init_fullrank (needs a checkpoint of a previous "
    "run), NEXUS tree files",
]

CMDS = ["advi", "map", "mcmc", "hmc"]
MODELS = ["JC69", "K80", "HKY", "SYM", "GTR", "SRD06", "MG94", "LG", "WAG"]
KIND_OF_MODEL = {"MG94": "codon", "SRD06": "codon", "LG": "aa", "WAG": "aa"}
CLOCKS = [None, "strict", "ucln", "horseshoe"]
HEIGHTS = ["ratio", "shift"]
PRIORS = [
    None,
    ("coalescent", "constant"),
    ("coalescent", "exponential"),
    ("coalescent", "skyride"),
    ("coalescent", "skygrid"),
    ("coalescent", "piecewise-linear"),
    ("coalescent", "piecewise-exponential"),
    ("birth_death", "constant"),
    ("birth_death", "bdsk"),
]
GRID_COALESCENTS = ("piecewise-constant", "piecewise-exponential", "piecewise-linear", "skyglide", "skygrid")
ALL_COALESCENTS = ("constant", "exponential", "skyride") + GRID_COALESCENTS

NUC_UNITS = ["A", "C", "G", "T", "R", "Y", "N", "-"]
AA_UNITS = list("ACDEFGHIKLMNPQRSTVWY") + ["X", "-"]
_STOPS = {"TAA", "TAG", "TGA"}
CODON_UNITS = [a + b + c for a in "ACGT" for b in "ACGT" for c in "ACGT" if a + b + c not in _STOPS] + ["---"]
UNITS = {"nuc": (NUC_UNITS, 4), "aa": (AA_UNITS, 20), "codon": (CODON_UNITS, 61)}
# forced first columns: every nucleotide (at every codon position for codon data), transitions and transversions
# between taxon 0 and 1
PREFIX = {
    "nuc": (["A", "C", "G", "T", "A", "C"], ["G", "T", "A", "C", "C", "A"]),
    "codon": (["ACG", "TAC", "GGT", "CTA"], ["GTA", "CCA", "AGC", "TTG"]),
    "aa": ([], []),
}

LOCATION_REGEX = r"_([ab])_"
DMY_REGEX = r"_(\d+)-(\d+)-(\d+)$"
JOIN_MENU = {
    "heights": "tree.ratios.unres,tree.root_height.unshifted.unres",
    "subst": "substmodel.kappa.unres,substmodel.frequencies.unres",
    "two": "tree.blens.unres,substmodel.kappa.unres:sitemodel.shape.unres,sitemodel.pinv.unres",
}
VARIATIONAL_MENU = {
    "meanfield": ["meanfield"],
    "fullrank": ["fullrank"],
    "realnvp": ["realnvp"],
    "flex_heights": ["fullrank(tree.ratios,tree.root_height)"],
    "flex_gamma": ["Gamma(branchmodel.rate,coalescent.theta)"],
    "flex_mixed": ["fullrank(tree.ratios,tree.root_height)", "Normal(substmodel.kappa)"],
    "flex_blens": ["fullrank(tree.blens)"],
    "flex_realnvp": ["realnvp(tree.ratios,tree.root_height)"],
}


# =========================================================================== data sets
def _date_of(style, q):
    """decimal year of quarter index q (quarters since 2000.0) as the taxon name encodes it"""
    year, quarter = 2000 + q // 4, q % 4
    if style == "dmy":
        month = 1 + 3 * quarter
        d = datetime.date(year, month, 1)
        return year + (d.timetuple().tm_yday - 1) / (366 if calendar.isleap(year) else 365), "01-%02d-%d" % (month, year)
    v = year + quarter / 4.0
    return v, "%g" % v


class Data:
    """a generated data set, with everything the oracles need derived from the primitive draws"""

    def __init__(self, d):
        self.d = d
        self.kind = d["kind"]
        self.n = n = len(d["dates"])
        self.style = d.get("style", "plain")
        self.dates = []
        self.names = []
        for i in range(n):
            v, s = _date_of(self.style, d["dates"][i])
            self.dates.append(v)
            self.names.append("t%d_%s_%s" % (i, d["locs"][i], s))
        self.topo = Topo(nested_from_ins(d["ins"]))
        mx = max(self.dates)
        self.offset = mx - min(self.dates)
        self.height = {i: mx - self.dates[i] for i in range(n)}
        for k, (node, l, r) in enumerate(self.topo.post):
            self.height[node] = max(self.height[l], self.height[r]) + 0.25 * d["incr"][k]
        self.root_height = self.height[self.topo.root]
        self.rate = d.get("subst_rate", 0.01)
        self.blen_time = {}
        for node, l, r in self.topo.post:
            self.blen_time[l] = self.height[node] - self.height[l]
            self.blen_time[r] = self.height[node] - self.height[r]
        units, nstate = UNITS[self.kind]
        p0, p1 = PREFIX[self.kind]
        # the alignment is a pure function of the drawn integer seq_seed (own 48-bit LCG, no library RNG): a root
        # sequence over the unambiguous states; each taxon copies it and replaces a site with probability 1/4 by a
        # unit drawn from the whole alphabet (ambiguity codes and gaps included)
        state = [(int(d["seq_seed"]) * 2862933555777941757 + 3037000493) % (1 << 48)]

        def rnd(k):
            state[0] = (state[0] * 25214903917 + 11) % (1 << 48)
            return (state[0] >> 17) % k

        L = int(d["L"])
        root = [rnd(nstate) for _ in range(L)]
        self.seqs = []
        for i in range(n):
            row = [units[rnd(len(units))] if rnd(4) == 0 else units[root[j]] for j in range(L)]
            self.seqs.append("".join((p1 if i == 1 else p0) + row))

    def newick(self, which):
        scale = 1.0 if which == "time" else self.rate
        lengths = {k: v * scale for k, v in self.blen_time.items()}
        return self.topo.newick(self.names, lengths, fmt="%.10g")

    def write(self):
        with open("seq.fa", "w") as f:
            for nm, s in zip(self.names, self.seqs):
                f.write(">%s\n%s\n" % (nm, s))
        for which in ("time", "subst"):
            with open(which + ".nwk", "w") as f:
                f.write(self.newick(which) + "\n")
        with open("dates.csv", "w") as f:
            f.write("strain,date\n")
            for nm, v in zip(self.names, self.dates):
                f.write("%s,%r\n" % (nm, v))
        with open("meta.csv", "w") as f:
            f.write("taxon,host,place\n")
            for i, nm in enumerate(self.names):
                f.write("%s,%s,%s\n" % (nm, "h%d" % (i % 2), "p%d" % (i % 3)))

    # ---- oracles (numpy / plain python only)
    def internal_heights_sorted(self):
        return sorted(self.height[i] for i in self.topo.children)

    def unrooted_lengths_sorted(self, which):
        scale = 1.0 if which == "time" else self.rate
        l, r = self.topo.children[self.topo.root]
        out = [max(1e-7, v * scale) for k, v in self.blen_time.items() if k not in (l, r)]
        out.append(max(1e-7, (self.blen_time[l] + self.blen_time[r]) * scale))
        return sorted(out)

    def regression(self, which):
        """root-to-tip regression on the tree file handed to the CLI: (rate, root height)"""
        scale = 1.0 if which == "time" else self.rate
        x = np.array(self.dates)
        y = np.array([(self.root_height - self.height[i]) * scale for i in range(self.n)])
        sx = ((x - x.mean()) ** 2).sum()
        if sx == 0:
            return None
        slope = ((x - x.mean()) * (y - y.mean())).sum() / sx
        if slope == 0:
            return None
        icpt = y.mean() - slope * x.mean()
        root_date = -icpt / slope
        return float(slope), float(max(self.dates) - root_date)

    def coalescent_mle(self, per_interval):
        ev = [(self.height[i], 1) for i in range(self.n)] + [(self.height[i], -1) for i in self.topo.children]
        ev.sort(key=lambda t: (t[0], -t[1]))
        k = 0
        tot = 0.0
        cur = 0.0
        out = []
        for (h, s), (h2, s2) in zip(ev[:-1], ev[1:]):
            k += s
            cur += k * (k - 1) / 2.0 * (h2 - h)
            tot += k * (k - 1) / 2.0 * (h2 - h)
            if s2 == -1:
                out.append(cur)
                cur = 0.0
        if per_interval:
            return [max(v, 1e-6) for v in out]
        return tot / (self.n - 1)

    def empirical_frequencies(self):
        s = "".join(self.seqs).upper()
        c = np.array([s.count(x) for x in "ACGT"], dtype=float)
        return (c / c.sum()).tolist()

    def f3x4(self):
        pos = []
        for i in range(3):
            s = "".join(q[i::3] for q in self.seqs).upper()
            c = np.array([s.count(x) for x in "ACGT"], dtype=float)
            pos.append(c / c.sum())
        out = []
        for a in range(4):
            for b in range(4):
                for c in range(4):
                    if "ACGT"[a] + "ACGT"[b] + "ACGT"[c] not in _STOPS:
                        out.append(pos[0][a] * pos[1][b] * pos[2][c])
        out = np.array(out)
        return (out / out.sum()).tolist()


@st.composite
def dataset(draw, kind, small=False):
    n = 4 if small else draw(st.integers(4, 6))
    ins = draw(ins_strategy(n, "uni"))
    dates = draw(st.lists(st.integers(0, 16), min_size=n, max_size=n))
    if len(set(dates)) == 1:
        dates[1] = dates[0] + 1 if dates[0] < 16 else dates[0] - 1
    incr = draw(st.lists(st.integers(1, 12), min_size=n - 1, max_size=n - 1))
    locs = ["a", "b"] + draw(st.lists(st.sampled_from(["a", "b"]), min_size=n - 2, max_size=n - 2))
    L = (5 if small else draw(st.integers(5, 18))) if kind == "codon" else draw(st.integers(14, 54))
    style = draw(st.sampled_from(["plain", "plain", "plain", "dmy"]))
    return {"kind": kind, "ins": ins, "dates": dates, "incr": incr, "locs": locs, "L": L, "seq_seed": draw(st.integers(0, 2**31 - 1)), "style": style}


_DATA_CACHE = {}


def seeded_dataset(kind, j, small=False):
    """data set number j of a kind: a pure function of VERIF_SEED (drawn by Hypothesis under a derived seed)"""
    from hypothesis import HealthCheck, Phase, given, seed, settings

    vseed = int(os.environ.get("VERIF_SEED", "1") or 1)
    key = (vseed, kind, j, small)
    if key in _DATA_CACHE:
        return _DATA_CACHE[key]
    box = []

    @seed(vseed * 1000003 + j * 101 + {"nuc": 0, "codon": 1, "aa": 2}[kind])
    @settings(max_examples=4, database=None, deadline=None, phases=[Phase.generate], suppress_health_check=list(HealthCheck))
    @given(dataset(kind, small))
    def draw(d):
        box.append(d)

    draw()
    d = dict(box[-1])
    d["style"] = "plain"
    _DATA_CACHE[key] = d
    return d


# =========================================================================== option handling
FLAGS = {
    "invariant", "keep", "use_path", "use_ambiguities", "use_tip_states", "include_jacobian", "gmrf_integrated",
    "coalescent_non_centered", "disable_time_aware", "disable_gmrf_rescaling", "poisson", "entropy", "checkpoint_all",
    "adapt_mass_matrix", "split",
}
# every option the generators may set (evolution + sub-command specific); tags carry all of them
OPTION_NAMES = [
    "model", "categories", "invariant", "frequencies", "brlenspr", "brlens_init", "clock", "clockpr", "heights",
    "heights_init", "root_height_init", "rate", "rate_init", "dates", "date_format", "date_regex", "genetic_code",
    "keep", "use_path", "use_ambiguities", "use_tip_states", "include_jacobian", "location_regex", "metadata",
    "coalescent", "birth_death", "cutoff", "grid", "gmrf_integrated", "coalescent_non_centered",
    "coalescent_integrated", "coalescent_init", "coalescent_temperature", "disable_time_aware",
    "disable_gmrf_rescaling", "poisson",
    # advi
    "iter", "variational", "lr", "elbo_samples", "grad_samples", "K_grad_samples", "K_elbo_samples", "samples",
    "tol_rel_obj", "entropy", "distribution", "stem", "convergence_every", "divergence", "checkpoint_all",
    # hmc / mcmc
    "step_size", "steps", "log_every", "warmup", "target_acc_prob", "mass_matrix", "adapt_mass_matrix",
    "adapt_step_size", "split", "join",
    # map
    "max_iter", "max_eval", "tolerance_grad", "tolerance_change", "history_size", "line_search_fn",
]
CLI_NAME = {"birth_death": "birth-death", "variational": "variational"}
NUMERIC_KIND = {"root_height_init", "rate", "lr", "tol_rel_obj", "step_size", "target_acc_prob", "cutoff",
                "coalescent_temperature", "tolerance_grad", "tolerance_change"}


def tag_value(name, v):
    """option value as it appears in tags / keys: literal for categorical options, the kind for numbers"""
    if v is None:
        return None
    if name in NUMERIC_KIND:
        return "float"
    if name in ("rate_init", "brlens_init", "coalescent_init") and not isinstance(v, str):
        return "float"
    if name == "frequencies" and isinstance(v, list):
        return "list%d" % len(v)
    if name == "variational" and isinstance(v, list):
        return "+".join(v)
    if isinstance(v, (bool, int, str)):
        return v
    return "float" if isinstance(v, float) else str(v)


def tags_of(cmd, opts, data=None):
    t = {k: tag_value(k, opts.get(k)) for k in OPTION_NAMES}
    if data is not None and opts.get("cutoff") is not None and opts.get("clock"):
        span = 0.0 if opts.get("dates") == "0" else data.offset
        t["cutoff_vs_span"] = "below" if opts["cutoff"] <= span else "above"
    t["cmd"] = cmd
    t["bucket"] = cmd
    t["tree_file"] = opts.get("tree", None)
    if opts.get("coalescent"):
        t["prior"] = "coalescent:" + opts["coalescent"]
    elif opts.get("birth_death"):
        t["prior"] = "birth-death:" + opts["birth_death"]
    else:
        t["prior"] = "none"
    if not opts.get("clock"):
        t["clock"] = "none"
    t["regression_branch"] = bool(opts.get("clock") and "regression" in (opts.get("rate_init"), opts.get("heights_init")))
    t["regression"] = bool(t["regression_branch"] and opts.get("dates") != "0")
    return t


def tree_file_of(opts):
    which = opts.get("tree")
    if which is None:
        which = "time" if opts.get("clock") else "subst"
    return which


def build_argv(cmd, opts, data):
    """argv of one configuration (file names are relative to the case's private directory)"""
    argv = [cmd]
    if not opts.get("poisson"):
        argv += ["-i", "seq.fa"]
    argv += ["-t", tree_file_of(opts) + ".nwk"]
    for name in OPTION_NAMES:
        if name not in opts or opts[name] is None or name == "poisson":
            continue
        v = opts[name]
        flag = "--" + CLI_NAME.get(name, name)
        if name in FLAGS:
            if v:
                argv.append(flag)
        elif name == "frequencies":
            argv += [flag, ",".join("%.2f" % x for x in v) if isinstance(v, list) else v]
        elif name == "dates":
            argv += [flag, "dates.csv" if v == "csv" else "0"]
        elif name == "metadata":
            argv += [flag, "meta.csv", "--trait"] + list(v)
        elif name == "location_regex":
            argv += [flag, LOCATION_REGEX]
        elif name == "variational":
            argv += [flag] + list(v)
        elif name == "join":
            argv += [flag, JOIN_MENU.get(v, v)]
        elif isinstance(v, float):
            argv += [flag, repr(v)]
        else:
            argv += [flag, str(v)]
    if opts.get("poisson"):
        argv.append("--poisson")
    if data.style == "dmy" and opts.get("clock") and opts.get("dates") is None:
        if "date_regex" not in opts:
            argv += ["--date_regex", DMY_REGEX]
        if "date_format" not in opts:
            argv += ["--date_format", "dd-MM-yyyy"]
    # run control: one iteration unless the case says otherwise
    if cmd in ("advi", "mcmc", "hmc") and "iter" not in opts:
        argv += ["--iter", "1"]
    if cmd == "advi" and "samples" not in opts:
        argv += ["--samples", "2"]
    if cmd == "hmc" and "steps" not in opts:
        argv += ["--steps", "2"]
    if cmd in ("map", "mcmc") and "stem" not in opts:
        argv += ["--stem", "out"]
    return argv


# =========================================================================== driving the code under test
def mask(s, n=110):
    s = re.sub(r"\d+", "#", str(s))
    s = re.sub(r"\s+", " ", s).strip()
    return s[:n]


def root_exc(e):
    """deepest exception of the chain that went through the code under test"""
    best = e
    cur = e
    seen = 0
    while cur is not None and seen < 20:
        if impl_frame(cur) is not None:
            best = cur
        nxt = cur.__cause__
        if nxt is None and not cur.__suppress_context__:
            nxt = cur.__context__
        cur = nxt
        seen += 1
    return best


def in_autograd(e):
    """the exception came out of torch's backward engine (the graph was built by the code under test, but the
    traceback has no frame of it)"""
    tb = e.__traceback__
    while tb is not None:
        fn = tb.tb_frame.f_code.co_filename.replace(os.sep, "/")
        if "/torch/autograd/" in fn:
            return True
        tb = tb.tb_next
    return False


def exc_kind(stage, e):
    r = root_exc(e)
    fr = impl_frame(r) or ("torch.autograd" if in_autograd(r) else "?")
    return "%s:%s@%s:%s" % (stage, type(r).__name__, fr, mask(r))


_PLUGINS_SCANNED = []


def _scan_plugins_once():
    """cli.main() rescans sys.path for torchtree_* plug-in packages on every call (20 ms); the set of installed
    packages does not change during a run, so the scan is done once and, when it found none, skipped afterwards"""
    from torchtree.cli import PLUGIN_MANAGER

    if not _PLUGINS_SCANNED:
        PLUGIN_MANAGER.load_plugins()
        _PLUGINS_SCANNED.append(len(PLUGIN_MANAGER._plugins))
        if _PLUGINS_SCANNED[0] == 0:
            PLUGIN_MANAGER.load_plugins = lambda: None


def run_cli(argv):
    """torchtree.cli.cli.main in-process (DESIGN A.9): ('ok', stdout) | ('rejected', message) | ('crashed', exc)"""
    from torchtree.cli import cli

    _scan_plugins_once()
    old = sys.argv
    sys.argv = ["torchtree-cli"] + list(argv)
    out, err = io.StringIO(), io.StringIO()
    # main() builds the argument parsers of all sub-commands at every call (13 ms); only the one that is used is
    # built here (sub-parsers are independent of each other)
    builders = {"advi": "create_variational_parser", "map": "create_map_parser", "mcmc": "create_mcmc_parser", "hmc": "create_hmc_parser"}
    saved = {}
    if argv and argv[0] in builders:
        for c, name in builders.items():
            if c != argv[0]:
                saved[name] = getattr(cli, name)
                setattr(cli, name, lambda sub: None)
    torch.set_default_dtype(torch.float32)
    try:
        with contextlib.redirect_stdout(out), contextlib.redirect_stderr(err):
            cli.main()
    except SystemExit as e:
        if e.code in (0, None) and out.getvalue().strip().startswith("["):
            return "ok", out.getvalue()
        lines = [x for x in err.getvalue().strip().splitlines() if x.strip()]
        return "rejected", (lines[-1] if lines else "exit %r" % (e.code,))
    except Exception as e:  # noqa
        if impl_frame(e) is None:
            raise
        return "crashed", e
    finally:
        sys.argv = old
        torch.set_default_dtype(torch.float64)
        for name, f in saved.items():
            setattr(cli, name, f)
    return "ok", out.getvalue()


def load_spec(data, run=False, patch=None):
    """torchtree.torchtree.main's loop: comments, plates, process_objects per top-level element
    (run=True: each Runnable is run as soon as it is constructed, as main does)"""
    from torchtree.core.runnable import Runnable
    from torchtree.core.utils import expand_plates, process_objects, remove_comments

    remove_comments(data)
    expand_plates(data)
    dic = {}
    tops = []
    for element in data:
        obj = process_objects(element, dic)
        tops.append(obj)
        if run and isinstance(obj, Runnable):
            if patch:
                patch(obj)
            obj.run()
    return dic, tops


def try_(stage, res, tags, fn, *a, **k):
    """run code under test; an exception that went through it becomes a failure of `stage`"""
    try:
        return fn(*a, **k), True
    except Exception as e:  # noqa
        if impl_frame(root_exc(e)) is None and impl_frame(e) is None and not in_autograd(e):
            raise
        res.fail(exc_kind(stage, e), {"message": str(root_exc(e))[:400], "argv": tags.get("_argv")}, **{k2: v for k2, v in tags.items() if k2 != "_argv"})
        return None, False


# =========================================================================== oracle pieces
def algorithm_of(cmd, dic):
    return dic.get({"advi": "advi", "map": "bfgs", "mcmc": "mcmc", "hmc": "hmc"}[cmd])


def leaves_of(model, acc):
    from torchtree.distributions.joint_distribution import JointDistributionModel

    if isinstance(model, JointDistributionModel):
        for c in model._distributions.callables():
            leaves_of(c, acc)
    else:
        acc.append(model)
    return acc


def variational_x_ids(spec):
    """ids of the parameters the variational distribution of the emitted file is placed on, in order (a full-rank
    or flow distribution lists them under "x"; the loaded object only keeps their concatenation)"""
    out = []

    def ids(x):
        if isinstance(x, str):
            out.append(x)
        elif isinstance(x, dict) and "id" in x:
            out.append(x["id"])
        elif isinstance(x, list):
            for e in x:
                ids(e)

    def walk(d):
        if not isinstance(d, dict):
            return
        if "distributions" in d and isinstance(d["distributions"], list):
            for e in d["distributions"]:
                walk(e)
        elif "x" in d:
            ids(d["x"])

    for e in spec if isinstance(spec, list) else []:
        if isinstance(e, dict) and e.get("id") == "variational":
            walk(e)
    return out


def zblocks_of(cmd, dic, alg, spec=None):
    """the tensors the algorithm moves (operators' parameters / x of the variational distribution)"""
    blocks = []
    seen = set()

    def add(p):
        if id(p) not in seen:
            seen.add(id(p))
            blocks.append(p)

    if cmd in ("mcmc", "hmc"):
        for op in alg._operators:
            for p in op.parameters:
                add(p)
    elif cmd == "map":
        for p in alg.parameters:
            add(p)
    else:
        ids = variational_x_ids(spec) if spec is not None else []
        if ids and all(i in dic and hasattr(dic[i], "tensor") for i in ids):
            for i in ids:
                add(dic[i])
            return blocks
        q = dic.get("variational")
        if q is None:
            return None
        for leaf in leaves_of(q, []):
            x = getattr(leaf, "x", None)
            if isinstance(x, (list, tuple)) and all(hasattr(e, "tensor") for e in x):
                for e in x:
                    add(e)
            elif x is None or not hasattr(x, "tensor"):
                return None
            else:
                add(x)
    return blocks


def handed_densities(cmd, spec, dic, alg):
    """[(where, object)]: every density over the unconstrained parameters that the emitted file hands to an
    algorithm object, located twice: from the loaded objects (Optimizer.loss.p, its convergence criterion's loss.p,
    MCMC.joint, the Hamiltonian of every HMC operator) and from the "joint" references inside the Optimizer / MCMC
    elements of the file (loss, convergence loss, operators), resolved through the registry. One entry per distinct
    object, in a stable order, the algorithm's own target first"""
    found = []

    def add(where, obj):
        if obj is None or not callable(obj):
            return
        for i, (w, o) in enumerate(found):
            if o is obj:
                if where not in w.split(","):
                    found[i] = (w + "," + where, o)
                return
        found.append((where, obj))

    if alg is not None:
        if cmd in ("mcmc", "hmc"):
            add(cmd + ".joint", getattr(alg, "joint", None))
            for op in getattr(alg, "_operators", ()):
                h = getattr(op, "_hamiltonian", None)
                if h is not None:
                    add("operator.hamiltonian.joint", getattr(h, "joint", None))
        else:
            loss = getattr(alg, "loss", None)
            add("optimizer.loss.p", getattr(loss, "p", None) if hasattr(loss, "q") else loss)
            conv = getattr(alg, "convergence", None)
            closs = getattr(conv, "loss", None)
            if closs is not None:
                add("optimizer.convergence.loss.p", getattr(closs, "p", None) if hasattr(closs, "q") else closs)

    def walk(d, path):
        if isinstance(d, dict):
            for k, v in d.items():
                if k == "joint":
                    ref = v if isinstance(v, str) else (v.get("id") if isinstance(v, dict) else None)
                    if ref is not None and ref in dic:
                        add("json:" + path + ".joint", dic[ref])
                if k == "loss" and isinstance(v, str) and v in dic and not hasattr(dic[v], "q"):
                    add("json:" + path + ".loss", dic[v])
                walk(v, path + "." + k if path else k)
        elif isinstance(d, list):
            for e in d:
                walk(e, path)

    for e in spec if isinstance(spec, list) else []:
        if isinstance(e, dict) and e.get("type") in ("Optimizer", "MCMC"):
            walk(e, str(e.get("id")))
    return found


def prior_variables(joint):
    """[(key, getter)] for every density of the joint that is placed on a random variable; None when a class is
    not in the table"""
    out = []
    unknown = []
    for m in leaves_of(joint, []):
        name = type(m).__name__
        if name in ("TreeLikelihoodModel", "PoissonTreeLikelihood"):
            continue
        if name == "Distribution":
            x = m.x
            if isinstance(m.dist, type) and issubclass(m.dist, torch.distributions.Dirichlet):
                out.append((id(x), (lambda x=x: x.tensor[..., :-1])))
            else:
                out.append((id(x), (lambda x=x: x.tensor)))
        elif name in ("GMRF", "GMRFGammaIntegrated", "GMRFCovariate"):
            x = m.field
            out.append((id(x), (lambda x=x: x.tensor)))
        elif name in ("CTMCScale", "ScaleMixtureNormal", "BayesianBridge"):
            x = m.x
            out.append((id(x), (lambda x=x: x.tensor)))
        elif name == "CompoundGammaDirichletPrior":
            tm = m.tree_model
            out.append((("blens", id(tm)), (lambda tm=tm: tm.branch_lengths())))
        elif ("Coalescent" in name and name.endswith("Model")) or name in ("BDSKModel", "BirthDeathModel"):
            tm = m.tree_model
            out.append((("heights", id(tm)), (lambda tm=tm: tm.node_heights[..., tm.taxa_count:])))
        else:
            unknown.append(name)
    uniq = {}
    for k, g in out:
        uniq.setdefault(k, g)
    return list(uniq.values()), unknown


def _set_blocks(blocks, shapes, flat):
    off = 0
    for b, shp in zip(blocks, shapes):
        n = int(np.prod(shp)) if len(shp) else 1
        b.tensor = flat[off:off + n].reshape(shp)
        off += n


_VECTORIZE = [os.environ.get("VT_C19_VECTORIZE", "0") == "1"]


def _jac(f, x):
    """Jacobian by reverse mode; batched over the rows when every operation supports it"""
    if _VECTORIZE[0]:
        try:
            return torch.autograd.functional.jacobian(f, x, vectorize=True)
        except RuntimeError:
            pass
    return torch.autograd.functional.jacobian(f, x)


def _first_level(dic, block):
    """the TransformedParameters of the loaded file that constrain this unconstrained block directly (x is the block)"""
    from torchtree.core.parameter import TransformedParameter

    return [t for t in (dic or {}).values() if type(t) is TransformedParameter and getattr(t, "x", None) is block]


def _oracle_at(target, joint, blocks, dic, flat0, shapes, sizes, getters, terms):
    info = {}

    def fy(flat):
        _set_blocks(blocks, shapes, flat)
        ys = [g().reshape(-1) for g in getters]
        return torch.cat(ys) if ys else flat[:0]

    J = _jac(fy, flat0) if getters else torch.zeros(0, flat0.numel(), dtype=flat0.dtype)
    dep = None
    any_free = J.numel() == 0 or bool((J == 0).all(0).any())
    if terms and any_free:
        delta = 0.173 + 0.061 * torch.arange(flat0.numel(), dtype=flat0.dtype) / max(1, flat0.numel())

        def ft(flat):
            _set_blocks(blocks, shapes, flat)
            return torch.stack([t().sum() for t in terms])

        dep = _jac(ft, flat0 + delta)
    _set_blocks(blocks, shapes, flat0)
    J = J.detach()
    cols = []
    spans = []
    off = 0
    used = []
    for i, n in enumerate(sizes):
        u = bool((J[:, off:off + n] != 0).any()) if J.numel() else False
        used.append(u)
        spans.append((off, off + n))
        if u:
            cols.extend(range(off, off + n))
        off += n
    info["dim_y"] = int(J.shape[0])
    info["dim_z"] = int(flat0.numel())
    info["dim_z_used"] = len(cols)
    info["free_blocks"] = [getattr(b, "id", None) for b, u in zip(blocks, used) if not u]
    tv = target()
    jv = joint()
    observed = float((tv - jv).detach().sum())
    info["target_minus_joint"] = observed
    if J.shape[0] != len(cols):
        info["status"] = "undetermined"
        return info
    if len(cols):
        sign, logabs = torch.linalg.slogdet(J[:, cols])
        if float(sign) == 0.0 or not math.isfinite(float(logabs)):
            info["status"] = "undetermined"
            return info
        expected = float(logabs)
    else:
        expected = 0.0
    # blocks without a density: the transform that constrains them directly is still a constraining transform of a
    # sampled parameter (implicit flat prior on the documented, constrained parameter): exactly once
    mandatory = []
    mandatory_ids = []
    for bi, (blk, u) in enumerate(zip(blocks, used)):
        if u:
            continue
        for T in _first_level(dic, blk):
            a, b_ = spans[bi]

            def fc(v, T=T, blk=blk, shp=shapes[bi]):
                blk.tensor = v.reshape(shp)
                c = T.tensor.reshape(-1)
                return c[:-1] if c.numel() == v.numel() + 1 else c

            Jc = _jac(fc, flat0[a:b_]).detach()
            blk.tensor = flat0[a:b_].reshape(shapes[bi])
            if Jc.dim() == 2 and Jc.shape[0] == Jc.shape[1]:
                sg, la = torch.linalg.slogdet(Jc)
                if float(sg) != 0.0 and math.isfinite(float(la)):
                    expected += float(la)
                    mandatory.append(T)
                    mandatory_ids.append(str(getattr(T, "id", None)))
    free_terms = []
    term_values = {}
    if terms is not None:
        for ti, t in enumerate(terms):
            val = float(t().detach().sum())
            tid = getattr(t, "id", None) or type(t).__name__
            term_values[str(tid)] = val
            if dep is None:
                continue
            d_used = any(bool((dep[ti, a:b_] != 0).any()) for (a, b_), u in zip(spans, used) if u)
            d_free = any(bool((dep[ti, a:b_] != 0).any()) for (a, b_), u in zip(spans, used) if not u)
            if d_free and not d_used and not any(t is m for m in mandatory):
                free_terms.append(str(tid))
                observed -= val
    info.update(status="ok", expected=expected, observed=observed, free_terms=free_terms, terms=term_values,
                mandatory_free=mandatory_ids)
    return info


def jacobian_oracle(target, joint, blocks, dic=None, perturbed=True):
    """returns dict(status=..., expected=log|det dy/dz| over the blocks y depends on plus the log-determinant of the
    directly constraining transform of every block without a density, observed=target-joint minus the remaining
    terms that only depend on prior-free blocks, ...); evaluated at the initial point and, when that balances, at a
    perturbed point (Jacobians are not constants); everything is differentiated by autograd through whatever chain
    of (nested) transformed parameters the loaded objects form"""
    getters, unknown = prior_variables(joint)
    if unknown:
        return {"unknown": unknown, "status": "unknown_class"}
    z0 = [b.tensor.detach().clone() for b in blocks]
    shapes = [tuple(t.shape) for t in z0]
    sizes = [t.numel() for t in z0]
    flat0 = torch.cat([t.reshape(-1) for t in z0]) if z0 else torch.zeros(0)
    terms = None
    try:
        cs = list(target._distributions.callables())
        if any(c is joint for c in cs):
            terms = [c for c in cs if c is not joint]
    except AttributeError:
        terms = None
    try:
        info = _oracle_at(target, joint, blocks, dic, flat0, shapes, sizes, getters, terms)
        info["point"] = "initial"
        balanced = info["status"] == "ok" and abs(info["observed"] - info["expected"]) <= 1e-8 * max(1.0, abs(info["expected"]))
        if perturbed and balanced and flat0.numel():
            k = torch.arange(flat0.numel(), dtype=flat0.dtype)
            shift = (0.11 + 0.07 * (k % 3)) * (1.0 - 2.0 * (k % 2))
            info2 = _oracle_at(target, joint, blocks, dic, flat0 + shift, shapes, sizes, getters, terms)
            if info2["status"] == "ok":
                info2["point"] = "perturbed"
                info["perturbed_checked"] = True
                if abs(info2["observed"] - info2["expected"]) > 1e-8 * max(1.0, abs(info2["expected"])):
                    info = info2
    finally:
        _set_blocks(blocks, shapes, flat0)
    info["unknown"] = []
    return info


def explain_jacobian(info):
    """which single term, removed or added once more, would make the books balance"""
    diff = info["observed"] - info["expected"]
    tol = 1e-7 * max(1.0, abs(info["expected"]))
    extra, missing = [], []
    for tid, val in sorted(info.get("terms", {}).items()):
        if tid in info.get("free_terms", ()):
            continue
        if abs(val) > tol and abs(diff - val) <= tol:
            extra.append(mask(tid, 40))
        if abs(val) > tol and abs(diff + val) <= tol:
            missing.append(mask(tid, 40))
    missing += [m for m in info.get("mandatory_free", []) if m not in info.get("terms", {}) and m not in missing]
    info["candidates"] = {"extra": extra, "missing": missing}
    if extra:
        return "extra"
    if missing:
        return "missing"
    return "unexplained"


def rel_close(a, b, tol=1e-5):
    a = np.asarray(a, dtype=float).reshape(-1)
    b = np.asarray(b, dtype=float).reshape(-1)
    if a.shape != b.shape:
        return False
    if not (np.all(np.isfinite(a)) and np.all(np.isfinite(b))):
        return False
    return bool(np.all(np.abs(a - b) <= tol * np.maximum(1e-3, np.abs(b))))


def tensor_of(dic, id_):
    p = dic.get(id_)
    if p is None or not hasattr(p, "tensor"):
        return None
    return p.tensor.detach().reshape(-1).numpy().astype(float)


def requested_values(cmd, opts, data, dic):
    """clause (c): [(what, observed, expected)] for everything the command line explicitly asked for"""
    out = []
    missing = []
    clock = opts.get("clock")
    which = tree_file_of(opts)
    model = opts.get("model", "JC69")

    def want(what, id_, expected, sort=False):
        obs = tensor_of(dic, id_)
        if obs is None:
            missing.append((what, id_))
            return
        exp = np.asarray(expected, dtype=float).reshape(-1)
        if sort:
            obs = np.sort(obs)
            exp = np.sort(exp)
        out.append((what, obs.tolist(), exp.tolist()))

    tree = dic.get("tree")
    if clock:
        # sampling dates
        if tree is not None and hasattr(tree, "sampling_times"):
            if opts.get("dates") == "0":
                exp = [0.0] * data.n
            else:
                exp = [max(data.dates) - d for d in data.dates]
            obs = tree.sampling_times.detach().reshape(-1).numpy().astype(float)
            out.append(("dates", np.sort(obs).tolist(), sorted(exp)))
        hetero = opts.get("dates") != "0"
        reg = None
        if hetero and (opts.get("rate_init") == "regression" or opts.get("heights_init") == "regression"):
            reg = data.regression(which)
        if clock in ("strict", "horseshoe"):
            if opts.get("rate") is not None:
                want("rate", "branchmodel.rate", [opts["rate"]])
            elif isinstance(opts.get("rate_init"), float):
                want("rate_init", "branchmodel.rate", [opts["rate_init"]])
            elif opts.get("rate_init") == "regression" and reg is not None and reg[0] > 0:
                want("rate_init_regression", "branchmodel.rate", [reg[0]])
        from_tree = opts.get("heights_init") == "tree" or opts.get("keep")
        if from_tree and which == "time" and opts.get("dates") != "0" and opts.get("root_height_init") is None and tree is not None:
            obs = tree.node_heights.detach().reshape(-1).numpy().astype(float)[data.n:]
            out.append(("heights_from_tree", np.sort(obs).tolist(), data.internal_heights_sorted()))
        elif not from_tree and tree is not None and hasattr(tree, "node_heights"):
            rh = None
            if opts.get("root_height_init") is not None:
                rh = opts["root_height_init"]
            elif opts.get("heights_init") == "regression" and reg is not None and reg[0] > 0 and reg[1] > data.offset:
                rh = reg[1]
            if rh is not None and (opts.get("heights") or "ratio") in ("ratio", "shift"):
                obs = tree.node_heights.detach().reshape(-1).numpy().astype(float)
                out.append(("root_height", [float(np.max(obs))], [rh]))
        co = opts.get("coalescent")
        ci = opts.get("coalescent_init")
        if co and ci is not None and not opts.get("coalescent_non_centered") and opts.get("coalescent_integrated") is None:
            exp = None
            if isinstance(ci, float):
                exp = ci
            elif from_tree and which == "time" and opts.get("dates") != "0" and opts.get("heights_init") == "tree":
                if ci == "constant" or (ci == "tree" and co == "constant"):
                    exp = data.coalescent_mle(False)
                elif ci == "tree" and co == "skyride":
                    exp = data.coalescent_mle(True)
            if exp is not None:
                obs = tensor_of(dic, "coalescent.theta")
                if obs is None:
                    missing.append(("coalescent_init", "coalescent.theta"))
                elif isinstance(exp, list):
                    out.append(("coalescent_init_" + str(tag_value("coalescent_init", ci)), obs.tolist(), exp))
                else:
                    out.append(("coalescent_init_" + str(tag_value("coalescent_init", ci)), obs.tolist(), [exp] * len(obs)))
    else:
        bi = opts.get("brlens_init")
        if opts.get("keep") or bi == "tree":
            want("brlens_from_tree", "tree.blens", data.unrooted_lengths_sorted(which), sort=True)
        elif isinstance(bi, float):
            obs = tensor_of(dic, "tree.blens")
            if obs is None:
                missing.append(("brlens_init", "tree.blens"))
            else:
                out.append(("brlens_init", obs.tolist(), [bi] * len(obs)))
    fr = opts.get("frequencies")
    if fr is not None and not opts.get("poisson"):
        ids = []
        if model in ("K80", "HKY", "SYM", "GTR"):
            ids = ["substmodel.frequencies"]
        elif model == "SRD06":
            ids = ["substmodel.12.frequencies", "substmodel.3.frequencies"]
        elif model == "MG94":
            ids = ["substmodel.frequencies"]
        exp = None
        if isinstance(fr, list):
            exp = fr
        elif fr == "equal":
            exp = [0.25] * 4 if model != "MG94" else [1.0 / 61] * 61
        elif fr == "empirical" and model != "MG94" and data.kind != "aa":
            exp = data.empirical_frequencies()
        elif fr == "F3x4" and model == "MG94" and opts.get("genetic_code") in (0, 9, 10):
            exp = data.f3x4()
        if exp is not None:
            for id_ in ids:
                want("frequencies_" + str(tag_value("frequencies", fr)), id_, exp)
    return out, missing


def nonfinite_parameters(dic):
    """ids of plain Parameters (model, unconstrained and variational alike) whose initial tensor is not finite"""
    from torchtree.core.parameter import Parameter

    out = []
    for k, v in dic.items():
        if type(v) is Parameter:
            t = v.tensor
            if t.is_floating_point() and not bool(torch.isfinite(t).all()):
                out.append(k)
    return sorted(out)


def smoothing_prior_check(opts, spec, dic):
    """clause (e): the smoothing prior the command line asks for. With a piecewise coalescent the joint must contain
    the GMRF on the log population sizes that the options name - time-aware (weights from the tree's inter-coalescent
    durations, divided by the root height unless --disable_gmrf_rescaling) for the skyride unless
    --disable_time_aware, uniform for the grid models; precision sampled (GMRF) or integrated against the gamma
    hyper-prior of the emitted file (--gmrf_integrated). Evaluated at a non-constant field (at the CLI's constant
    start all first differences vanish and every variant coincides) against vt/oracle/gmrf.py.
    returns None (not applicable) or dict(observed, expected, variant, ...)"""
    co = opts.get("coalescent")
    if not (opts.get("clock") and co in ("skyride",) + GRID_COALESCENTS):
        return None
    g = dic.get("gmrf")
    tree = dic.get("tree")
    if g is None or tree is None:
        return {"status": "absent"}
    field = g.field
    x0 = field.tensor.detach().clone()
    n = x0.numel()
    if n < 2:
        return None
    x = [1.3 + 0.45 * ((3 * i) % 5) - 0.2 * i for i in range(n)]
    time_aware = co == "skyride" and not opts.get("disable_time_aware")
    heights = tree.node_heights.detach().reshape(-1).numpy().astype(float)[tree.taxa_count:]
    if time_aware:
        if len(heights) != n:
            return {"status": "dimension", "field": n, "internal_nodes": len(heights)}
        w = gmrf_oracle.gmrf_weights(n, "time_aware", internal_heights=heights, rescale=not opts.get("disable_gmrf_rescaling"))
        if not (np.all(np.isfinite(w)) and np.all(w > 0)):
            return None  # three coinciding coalescent times: the documented weights are not defined
    else:
        w = gmrf_oracle.gmrf_weights(n, "plain")
    gspec = None

    def find(d):
        nonlocal gspec
        if isinstance(d, dict):
            if d.get("id") == "gmrf":
                gspec = d
            for v in d.values():
                find(v)
        elif isinstance(d, list):
            for v in d:
                find(v)

    find(spec)
    try:
        field.tensor = torch.tensor(x, dtype=x0.dtype).reshape(x0.shape)
        observed = float(g().detach().sum())
        xs = field.tensor.detach().reshape(-1).numpy().astype(float)
    finally:
        field.tensor = x0
    if opts.get("gmrf_integrated"):
        if not (isinstance(gspec, dict) and isinstance(gspec.get("shape"), (int, float)) and isinstance(gspec.get("rate"), (int, float))):
            return {"status": "no_hyperprior"}
        expected = gmrf_oracle.gmrf_gamma_integrated_closed(xs, w, gspec["shape"], gspec["rate"])
    else:
        tau = tensor_of(dic, "gmrf.precision")
        if tau is None or len(tau) != 1:
            return {"status": "no_precision"}
        expected = gmrf_oracle.gmrf_logpdf(xs, float(tau[0]), w)
    return {"status": "ok", "observed": observed, "expected": float(expected),
            "variant": ("time-aware" if time_aware else "uniform") + ("/integrated" if opts.get("gmrf_integrated") else ""),
            "field": xs.tolist(), "weights": np.asarray(w).tolist()}


def constrained_snapshot(dic):
    """constrained initial values by id (for the agreement between sub-commands)"""
    from torchtree.core.abstractparameter import AbstractParameter

    snap = {}
    for k, v in dic.items():
        if isinstance(v, AbstractParameter) and not (k.startswith("var") or ".unres" in k or ".unshifted" in k or k.startswith("hmc") or ".mass.matrix" in k):
            try:
                snap[k] = v.tensor.detach().reshape(-1).numpy().astype(float)
            except Exception:  # noqa
                pass
    return snap


# =========================================================================== one configuration
def eval_config(cmd, opts, data, res, case):
    """all clauses for one (sub-command, options); returns an outcome dict"""
    tt.load_all()
    argv = build_argv(cmd, opts, data)
    tags = tags_of(cmd, opts, data)
    tags["_argv"] = " ".join(argv)
    lab = res.labels
    out = {"cmd": cmd, "accepted": False}

    def count(name, n=1):
        lab[name] = lab.get(name, 0) + n

    count("cmd:" + cmd)
    status, payload = run_cli(argv)
    if status == "rejected":
        count("rejected")
        count("rejected:" + mask(payload.split("error:")[-1], 70))
        return out
    if status == "crashed":
        count("cli_crashed")
        r = root_exc(payload)
        count("cli_crashed@%s:%s" % (impl_frame(r), type(r).__name__))
        return out
    count("accepted")
    out["accepted"] = True
    ftags = {k: v for k, v in tags.items() if k != "_argv"}
    try:
        spec = json.loads(payload)
    except ValueError as e:
        res.fail("emit:not_json", {"argv": tags["_argv"], "message": str(e)[:200], "head": payload[:200]}, **ftags)
        return out
    out["json"] = payload
    torch.manual_seed(case.get("torch_seed", 0))
    # ---- (a) loads as torchtree.main loads it
    loaded, ok = try_("load", res, tags, load_spec, json.loads(payload))
    if not ok:
        return out
    dic, tops = loaded
    count("loaded")
    out["dic"] = dic
    out["snapshot"] = constrained_snapshot(dic)
    alg = algorithm_of(cmd, dic)
    joint = dic.get("joint")
    if joint is None:
        res.fail("structure:no_joint", {"argv": tags["_argv"]}, **ftags)
        return out
    # ---- (c) the initial point: finite, and equal to what the command line requested
    nfail = len(res.fails)
    bad = nonfinite_parameters(dic)
    if bad:
        res.fail("init:nonfinite_start:" + mask(bad[0], 60), {"argv": tags["_argv"], "parameters": bad[:8]}, **ftags)
    (req, ok) = try_("init", res, tags, requested_values, cmd, opts, data, dic)
    if ok:
        vals, missing = req
        for what, id_ in missing:
            res.fail("init:missing:" + what, {"argv": tags["_argv"], "id": id_}, **ftags)
        for what, obs, exp in vals:
            count("init_checked:" + what)
            if not rel_close(obs, exp):
                res.fail("init:" + what, {"argv": tags["_argv"], "observed": obs, "requested": exp}, **ftags)
    if len(res.fails) > nfail:
        # not the requested starting point: what follows would only restate it
        return out
    blocks = zblocks_of(cmd, dic, alg, spec) if alg is not None else None
    out["nblocks"] = len(blocks) if blocks else 0
    # ---- (b) target and gradient finite at the initial point
    handed = handed_densities(cmd, spec, dic, alg)
    out["handed"] = [w for w, _ in handed]
    if handed:
        density = handed[0][1]
    else:
        # no algorithm element (advi --iter 0): the density the sampler's logger reports
        density = dic.get("joint.jacobian") if cmd != "map" else joint
    if density is None:
        res.fail("structure:no_target", {"argv": tags["_argv"]}, **ftags)
        return out
    val, ok = try_("eval", res, tags, lambda: density())
    if not ok:
        return out
    if not bool(torch.isfinite(val).all()):
        res.fail("nonfinite:target", {"argv": tags["_argv"], "value": val.detach().reshape(-1).tolist()[:5]}, **ftags)
        return out
    count("target_finite")
    if alg is not None and cmd in ("map", "hmc") and blocks:
        def grads():
            for b in blocks:
                b.requires_grad = True
            try:
                v = density()
                gs = torch.autograd.grad(v.sum(), [b.tensor for b in blocks], allow_unused=True)
            finally:
                for b in blocks:
                    b.requires_grad = False
            return gs

        gs, ok = try_("grad", res, tags, grads)
        if not ok:
            return out
        if any(g is None for g in gs):
            count("grad_independent_parameter")  # the target does not depend on it: nothing to be non-finite
        bad = [getattr(b, "id", "?") for b, g in zip(blocks, gs) if g is not None and not bool(torch.isfinite(g).all())]
        if bad:
            res.fail("nonfinite:grad", {"argv": tags["_argv"], "parameters": bad}, **ftags)
            return out
        count("grad_finite")
    if alg is not None and cmd == "advi":
        saved_x = [b.tensor.detach().clone() for b in blocks] if blocks is not None else []

        def elbo_grads():
            ps = list(alg.parameters)
            for p in ps:
                p.requires_grad = True
            try:
                v = alg.loss()
                gs = torch.autograd.grad(v.sum(), [p.tensor for p in ps], allow_unused=True)
            finally:
                for p in ps:
                    p.requires_grad = False
            return v, ps, gs

        r, ok = try_("grad", res, tags, elbo_grads)
        if not ok:
            return out
        v, ps, gs = r
        if not bool(torch.isfinite(v).all()):
            res.fail("nonfinite:objective", {"argv": tags["_argv"], "value": float(v.detach().sum())}, **ftags)
            return out
        if any(g is None for g in gs):
            count("grad_independent_parameter")
        bad = [getattr(p, "id", "?") for p, g in zip(ps, gs) if g is not None and not bool(torch.isfinite(g).all())]
        if bad:
            res.fail("nonfinite:grad", {"argv": tags["_argv"], "parameters": bad}, **ftags)
            return out
        count("grad_finite")
        # the ELBO has redrawn x; put the initial point back for clause (d)
        if blocks is not None:
            for b, t in zip(blocks, saved_x):
                b.tensor = t
    # ---- (d) Jacobian bookkeeping of every density that is handed to an algorithm object
    if cmd != "map" and alg is not None:
        if blocks is None:
            count("jac_no_z")
        else:
            for where, dens in handed:
                info, ok = try_("jacobian", res, tags, jacobian_oracle, dens, joint, blocks, dic)
                if not ok:
                    break
                st_ = info["status"]
                if st_ == "ok":
                    count("jac_checked")
                    if info["free_terms"]:
                        count("jac_free_terms")
                    if abs(info["observed"] - info["expected"]) > 1e-8 * max(1.0, abs(info["expected"])):
                        info["argv"] = tags["_argv"]
                        info["handed_to"] = where
                        info["density"] = str(getattr(dens, "id", None))
                        res.fail("jacobian:" + explain_jacobian(info), info, **ftags)
                else:
                    count("jac_" + st_)
                    for u in info.get("unknown", []):
                        count("jac_unknown_class:" + u)
            if len(handed) > 1:
                count("jac_several_densities")
    # ---- (e) the smoothing prior the options name, at a non-constant field
    sp, ok = try_("prior", res, tags, smoothing_prior_check, opts, spec, dic)
    if ok and sp is not None:
        if sp["status"] == "ok":
            count("smoothing_prior_checked")
            count("smoothing_prior:" + sp["variant"])
            if abs(sp["observed"] - sp["expected"]) > 1e-9 * max(1.0, abs(sp["expected"])):
                sp["argv"] = tags["_argv"]
                res.fail("prior:gmrf", sp, **ftags)
        else:
            sp["argv"] = tags["_argv"]
            res.fail("prior:gmrf_" + sp["status"], sp, **ftags)
    # ---- one iteration, in a fresh load, interleaved as torchtree.main does
    running = []

    def patch(obj):
        running.append(obj)
        if cmd == "map" and type(obj).__name__ == "Optimizer":
            # one outer and one inner L-BFGS iteration: the first step is bounded (|step|_1 <= lr)
            obj.iterations = 1
            for g in obj.optimizer.param_groups:
                g["max_iter"] = 1
                g["max_eval"] = 2

    def run_all():
        try:
            return load_spec(json.loads(payload), True, patch)
        except ZeroDivisionError as e:
            # MCMC.run's closing summary divides by the number of times each operator was used
            fr = impl_frame(e) or ""
            last = running[-1] if running else None
            if fr.endswith("mcmc.py:run") and last is not None and getattr(last, "_epoch", 0) > getattr(last, "iterations", 1 << 60):
                count("mcmc_summary_zero_division")
                return None
            raise

    torch.manual_seed(case.get("torch_seed", 0))
    r, ok = try_("run", res, tags, run_all)
    if ok:
        count("ran")
        out["ran"] = True
        names = []

        def files(x):
            if isinstance(x, dict):
                for k, v in x.items():
                    if k == "file_name" and isinstance(v, str):
                        names.append(v)
                    else:
                        files(v)
            elif isinstance(x, list):
                for v in x:
                    files(v)

        files(spec)
        absent = [f for f in names if not (os.path.exists(f) and os.path.getsize(f) > 0)]
        if absent:
            res.fail("run:no_output", {"argv": tags["_argv"], "files": absent}, **ftags)
    return out


def key_of(cmd, opts):
    return [cmd] + [[k, tag_value(k, v)] for k, v in sorted(opts.items()) if v is not None]


@contextlib.contextmanager
def private_dir():
    old = os.getcwd()
    d = tempfile.mkdtemp(prefix="vt-c19-")
    os.chdir(d)
    try:
        yield d
    finally:
        os.chdir(old)
        shutil.rmtree(d, ignore_errors=True)


def body(case):
    tt.load_all()
    data = Data(case["data"])
    opts = case["opts"]
    res = Res(labels={})
    res.tags = tags_of(case["cmds"][0], opts, data)
    keys = []
    outs = []
    with private_dir():
        data.write()
        for cmd in case["cmds"]:
            o = eval_config(cmd, opts, data, res, case)
            outs.append(o)
            if o["accepted"] and (opts.get("clock") or o.get("nblocks", 0) >= 3):
                keys.append(key_of(cmd, opts))
    # constrained initial values agree between the sub-commands of one tuple
    snaps = [(o["cmd"], o["snapshot"]) for o in outs if "snapshot" in o]
    if len(snaps) > 1:
        ref_cmd, ref = snaps[0]
        for cmd, s in snaps[1:]:
            for k in sorted(set(ref) & set(s)):
                if not rel_close(s[k], ref[k]):
                    t = tags_of(cmd, opts, data)
                    res.fail("init:disagree", {"id": k, ref_cmd: ref[k].tolist(), cmd: s[k].tolist()}, **t)
                    break
        res.labels["init_agreement_checked"] = res.labels.get("init_agreement_checked", 0) + 1
    res.evals = len(case["cmds"])
    res.keys = keys
    return res


# =========================================================================== enumeration of the core
def core_opts(model, C, I, clock, heights, prior):
    o = {"model": model, "categories": C}
    if I:
        o["invariant"] = True
    if model == "MG94":
        o["genetic_code"] = 0
    if clock:
        o["clock"] = clock
        o["heights"] = heights
    if prior:
        o[prior[0]] = prior[1]
        if prior[1] in GRID_COALESCENTS:
            o["grid"] = 4
            o["cutoff"] = 9.0
        if prior[1] == "bdsk":
            o["grid"] = 3
    return o


def core_cases(tier):
    out = []
    k = 0
    for model in MODELS:
        for C in (1, 4):
            for I in (False, True):
                for clock in CLOCKS:
                    for heights in HEIGHTS:
                        for prior in PRIORS:
                            if clock is None and (prior is not None or heights == "shift"):
                                continue
                            out.append({"o": [model, C, I, clock, heights, list(prior) if prior else None], "k": k})
                            k += 1
    return out


NDATA = 3


def expand_core(c):
    model, C, I, clock, heights, prior = c["o"]
    kind = KIND_OF_MODEL.get(model, "nuc")
    return {
        "cmds": list(CMDS),
        "opts": core_opts(model, C, I, clock, heights, tuple(prior) if prior else None),
        # the 61-state model costs a second per tuple on 6 taxa x 22 codons: 4 taxa x 9 codons in the enumeration
        "data": seeded_dataset(kind, c["k"] % NDATA, small=(model == "MG94")),
        "torch_seed": c["k"],
    }


# =========================================================================== enumeration of the objective objects
OBJECTIVE_MODELS = [
    {"model": "JC69"},
    {"model": "HKY", "categories": 4, "invariant": True},
    {"model": "GTR", "clock": "strict", "heights": "ratio", "coalescent": "constant"},
    {"model": "HKY", "clock": "strict", "heights": "shift", "coalescent": "exponential"},
    {"model": "JC69", "clock": "strict", "heights": "ratio", "heights_init": "tree", "coalescent": "skygrid", "grid": 4, "cutoff": 9.0},
    {"model": "SRD06", "clock": "strict", "heights": "ratio", "heights_init": "tree", "coalescent": "skyride"},
]


def objective_cases(tier):
    """every way the CLI wires a density into an algorithm object: advi divergence x multi-sample gradient / ELBO
    x variational family, hmc operator layout x mass matrix, mcmc - on six representative model tuples"""
    out = []
    k = 0
    for m in OBJECTIVE_MODELS:
        for div in ("ELBO", "KLpq"):
            for kg in (1, 2):
                for ke in (1, 2):
                    for fam in ("meanfield", "fullrank", "realnvp"):
                        o = dict(m, divergence=div, variational=VARIATIONAL_MENU[fam])
                        if kg > 1:
                            o["K_grad_samples"] = kg
                        if ke > 1:
                            o["K_elbo_samples"] = ke
                        out.append({"cmd": "advi", "opts": o, "k": k})
                        k += 1
        for layout in ({}, {"split": True}, {"adapt_mass_matrix": True, "adapt_step_size": "dualaveraging"}):
            for mm in ("diagonal", "dense"):
                out.append({"cmd": "hmc", "opts": dict(m, mass_matrix=mm, **layout), "k": k})
                k += 1
        out.append({"cmd": "mcmc", "opts": dict(m), "k": k})
        k += 1
    return out


def expand_objective(c):
    kind = KIND_OF_MODEL.get(c["opts"]["model"], "nuc")
    return {"cmds": [c["cmd"]], "opts": c["opts"], "data": seeded_dataset(kind, c["k"] % NDATA), "torch_seed": c["k"]}


def initial_cases(tier):
    """every combination of the options that request initial values (clause (c)), through two sub-commands that
    unconstrain in different code (advi: cli/advi.py; mcmc: cli/utils.py)"""
    out = []
    k = 0
    for rate_init in (None, 0.004, "regression"):
        for heights_init in (None, "tree", "regression"):
            for rhi in (None, "above"):
                for rate in (None, 0.002):
                    for dates in (None, "0"):
                        for heights in ("ratio", "shift"):
                            o = {"model": "HKY", "clock": "strict", "heights": heights, "coalescent": "constant",
                                 "tree": "time" if heights_init == "tree" else "subst"}
                            for name, v in (("rate_init", rate_init), ("heights_init", heights_init), ("rate", rate), ("dates", dates)):
                                if v is not None:
                                    o[name] = v
                            if rhi:
                                o["root_height_init"] = "span+2.5"
                            for cmd in ("advi", "mcmc"):
                                out.append({"cmd": cmd, "opts": o, "k": k})
                            k += 1
    for brlens_init in (None, "tree", 0.07):
        for keep in (False, True):
            for fr in (None, "equal", "empirical", [0.1, 0.2, 0.3, 0.4]):
                o = {"model": "GTR"}
                if brlens_init is not None:
                    o["brlens_init"] = brlens_init
                if keep:
                    o["keep"] = True
                if fr is not None:
                    o["frequencies"] = fr
                for cmd in ("advi", "mcmc"):
                    out.append({"cmd": cmd, "opts": o, "k": k})
                k += 1
    for co in ("constant", "exponential", "skyride", "skygrid"):
        for ci in (25.0, "constant", "tree"):
            o = {"model": "JC69", "clock": "strict", "heights_init": "tree", "tree": "time", "coalescent": co, "coalescent_init": ci}
            if co == "skygrid":
                o.update(grid=4, cutoff=9.0)
            for cmd in ("advi", "mcmc"):
                out.append({"cmd": cmd, "opts": o, "k": k})
            k += 1
    return out


def expand_initial(c):
    case = expand_objective(c)
    o = dict(case["opts"])
    if o.get("root_height_init") == "span+2.5":
        o["root_height_init"] = Data(case["data"]).offset + 2.5
    case["opts"] = o
    return case


def smoothing_cases(tier):
    """every smoothing-prior variant the options can name, through the four sub-commands"""
    out = []
    k = 0
    base = {"model": "JC69", "clock": "strict", "heights": "ratio", "heights_init": "tree"}
    for co in ("skyride", "skygrid", "piecewise-linear"):
        for integ in (False, True):
            for dta in (False, True):
                for dgr in (False, True):
                    for nc in (False, True):
                        o = dict(base, coalescent=co)
                        if co != "skyride":
                            o.update(grid=4, cutoff=9.0)
                        for name, v in (("gmrf_integrated", integ), ("disable_time_aware", dta), ("disable_gmrf_rescaling", dgr), ("coalescent_non_centered", nc)):
                            if v:
                                o[name] = True
                        for cmd in CMDS:
                            out.append({"cmd": cmd, "opts": o, "k": k})
                        k += 1
    return out


# =========================================================================== pairwise strategy
@st.composite
def pairwise_case(draw, cmds=None):
    cmd = draw(st.sampled_from(cmds or CMDS))
    model = draw(st.sampled_from(["JC69", "HKY", "GTR", "K80", "SYM", "SRD06", "HKY", "GTR", "MG94", "LG", "WAG"]))
    kind = KIND_OF_MODEL.get(model, "nuc")
    data = draw(dataset(kind))
    D = Data(data)
    o = {"model": model}
    torch_seed = draw(st.integers(0, 2**20))

    def put(name, strategy, p=5):
        """present with probability 1/p; the presence draw shrinks to absent"""
        if draw(st.integers(0, p - 1)) == p - 1:
            v = draw(strategy)
            if v is not None and v is not False:
                o[name] = v

    put("categories", st.sampled_from([4, 1, 2]), 3)
    put("invariant", st.just(True), 3)
    if model == "MG94":
        o["genetic_code"] = 0
        if draw(st.integers(0, 29)) == 29:
            del o["genetic_code"]
        put("frequencies", st.sampled_from(["equal", "F3x4"]), 3)
    elif kind != "aa":
        fr = draw(st.sampled_from([None, None, None, None, "equal", "empirical", "empirical", "list", "list", "short"])) if draw(st.integers(0, 1)) else None
        if fr == "list":
            # multiples of 0.05 that sum to one: what is typed is exactly what is requested
            cuts = sorted(draw(st.lists(st.integers(1, 19), min_size=3, max_size=3, unique=True)))
            v = [cuts[0], cuts[1] - cuts[0], cuts[2] - cuts[1], 20 - cuts[2]]
            o["frequencies"] = [x / 20.0 for x in v]
        elif fr == "short":
            o["frequencies"] = [0.5, 0.5]
        elif fr:
            o["frequencies"] = fr
    clock = draw(st.sampled_from([None, "strict", "strict", "ucln", "horseshoe"]))
    if clock:
        o["clock"] = clock
        put("heights", st.sampled_from(["shift", "ratio"]), 3)
        put("clockpr", st.sampled_from(["exponential", "exponential(500.0)", "ctmcscale", "exponential", "exponential(500.0)", "ctmcscale", "gamma"]))
        hi = draw(st.sampled_from([None, None, None, "tree", "tree", "regression"]))
        if hi:
            o["heights_init"] = hi
        # the tree file: a time tree when node heights are read from it
        o["tree"] = "time" if (hi == "tree" or draw(st.booleans())) else "subst"
        put("root_height_init", st.integers(1, 40).map(lambda k: D.offset + 0.25 * k))
        put("rate", logu(1e-4, 1e-1), 6)
        put("rate_init", st.one_of(st.just("regression"), logu(1e-4, 1e-1)), 4)
        put("dates", st.sampled_from(["csv", "0"]), 6)
        # equivalent spellings of the way the names encode dates (and, rarely, a regex that matches nothing)
        if data["style"] == "dmy":
            if draw(st.integers(0, 5)) == 5:
                o["date_regex"] = r"(\d+)-(\d+)-(\d+)$"
            if draw(st.integers(0, 5)) == 5:
                o["date_format"] = "dd/MM/yyyy"
        else:
            if draw(st.integers(0, 11)) == 11:
                o["date_regex"] = draw(st.sampled_from([r"_(\d+\.?\d*)$", r"(\d+\.?\d*)$", r"_x(\d+)$"]))
            if draw(st.integers(0, 29)) == 29:
                o["date_format"] = "yyyy/MM/dd"
        pr = draw(st.sampled_from([None, "coalescent", "coalescent", "coalescent", "birth_death"]))
        if pr == "coalescent":
            co = draw(st.sampled_from(list(ALL_COALESCENTS)))
            o["coalescent"] = co
            need = co in GRID_COALESCENTS
            if need != (draw(st.integers(0, 24)) == 24):
                o["grid"] = draw(st.sampled_from([4, 2, 3, 6]))
            if need != (draw(st.integers(0, 24)) == 24):
                o["cutoff"] = draw(st.integers(1, 60).map(lambda k: 0.25 * k))
            put("gmrf_integrated", st.just(True))
            put("coalescent_non_centered", st.just(True), 6)
            if draw(st.integers(0, 39)) == 39:
                o["coalescent_integrated"] = "3,0.003"
            put("coalescent_init", st.one_of(st.sampled_from(["tree", "constant"]), logu(1e-1, 1e3)), 4)
            put("coalescent_temperature", fl(0.01, 2.0), 8)
            put("disable_time_aware", st.just(True), 6)
            put("disable_gmrf_rescaling", st.just(True), 6)
        elif pr == "birth_death":
            bd = draw(st.sampled_from(["bdsk", "constant"]))
            o["birth_death"] = bd
            if (bd == "bdsk") != (draw(st.integers(0, 24)) == 24):
                o["grid"] = draw(st.sampled_from([3, 1, 2, 5]))
    else:
        put("brlenspr", st.sampled_from(["gammadir", "exponential"]), 3)
        put("brlens_init", st.one_of(st.just("tree"), logu(1e-3, 1.0)), 4)
        if draw(st.integers(0, 5)) == 5:
            o["tree"] = "time"
    put("keep", st.just(True), 6)
    put("use_path", st.just(True), 6)
    put("use_ambiguities", st.just(True), 5)
    put("use_tip_states", st.just(True), 5)
    put("include_jacobian", st.just(True), 12)
    tr = draw(st.sampled_from([None, None, None, None, None, None, None, "location", "trait1", "trait2"]))
    if tr == "location":
        o["location_regex"] = True
    elif tr == "trait1":
        o["metadata"] = ["host"]
    elif tr == "trait2":
        o["metadata"] = ["host", "place"]
    if cmd == "advi":
        put("poisson", st.just(True), 25)
        put("variational", st.sampled_from(["meanfield", "fullrank", "fullrank", "realnvp"] + sorted(VARIATIONAL_MENU)).map(lambda k: VARIATIONAL_MENU[k]), 3)
        put("distribution", st.sampled_from(["Normal", "Gamma", "LogNormal"]), 8)
        put("divergence", st.sampled_from(["KLpq", "KLpq", "ELBO"]), 3)
        put("entropy", st.just(True), 6)
        put("elbo_samples", st.sampled_from(["3", "2,2"]), 6)
        put("grad_samples", st.sampled_from(["2", "2,2"]), 6)
        put("K_grad_samples", st.sampled_from([2, 1, 3]), 6)
        put("K_elbo_samples", st.sampled_from([2, 1]), 6)
        # "N,K" and --K_*_samples K spell the same thing; they are not combined
        if o.get("K_grad_samples", 1) > 1 and "," in str(o.get("grad_samples", "")):
            o["grad_samples"] = "2"
        if o.get("K_elbo_samples", 1) > 1 and "," in str(o.get("elbo_samples", "")):
            o["elbo_samples"] = "3"
        put("iter", st.sampled_from([2, 0]), 8)
        put("samples", st.sampled_from([1, 0]), 8)
        put("lr", logu(1e-3, 1.0), 8)
        put("tol_rel_obj", logu(1e-4, 1e-1), 8)
        put("convergence_every", st.sampled_from([1, 2]), 8)
        put("checkpoint_all", st.just(True), 8)
        put("stem", st.just("run"), 6)
    elif cmd == "hmc":
        put("mass_matrix", st.sampled_from(["dense", "diagonal"]), 3)
        put("adapt_mass_matrix", st.just(True), 4)
        put("adapt_step_size", st.sampled_from(["dualaveraging", "adaptive"]), 3)
        put("split", st.just(True), 5)
        put("join", st.sampled_from(sorted(JOIN_MENU)), 8)
        put("steps", st.sampled_from([2, 1, 5]), 6)
        put("step_size", logu(1e-4, 1e-2), 6)
        put("warmup", st.sampled_from([3, 0]), 8)
        put("target_acc_prob", fl(0.1, 0.9), 8)
        put("log_every", st.sampled_from([1, 2]), 6)
        put("iter", st.sampled_from([2, 3]), 6)
        put("stem", st.sampled_from(["run", ""]), 6)
    elif cmd == "mcmc":
        put("log_every", st.sampled_from([1, 2]), 4)
        put("iter", st.sampled_from([2, 3]), 4)
        put("target_acc_prob", fl(0.1, 0.9), 6)
        put("stem", st.just("run"), 4)
    else:
        put("lr", logu(1e-2, 1.0), 4)
        put("max_iter", st.sampled_from([1, 3]), 4)
        put("max_eval", st.sampled_from([2, 5]), 6)
        put("tolerance_grad", logu(1e-7, 1e-3), 6)
        put("tolerance_change", logu(1e-10, 1e-6), 6)
        put("history_size", st.sampled_from([5, 50]), 6)
        put("line_search_fn", st.just("strong_wolfe"), 6)
        put("stem", st.just("run"), 4)
    return {"cmds": [cmd], "opts": o, "data": data, "torch_seed": torch_seed}


def case_size(case):
    """simpler = fewer options first, then a smaller data set"""
    return 1000 * len(case["opts"]) + len(json.dumps(case["data"])) // 50


# =========================================================================== the real programs
def exe_body(case):
    """torchtree-cli | torchtree in subprocesses: same JSON as in-process, and the run ends without an error"""
    tt.load_all()
    data = Data(case["data"])
    opts = case["opts"]
    cmd = case["cmds"][0]
    res = Res(labels={})
    res.tags = tags_of(cmd, opts, data)
    ftags = dict(res.tags)
    cli = os.path.join(os.path.dirname(sys.executable), "torchtree-cli")
    exe = os.path.join(os.path.dirname(sys.executable), "torchtree")
    if not (os.path.exists(cli) and os.path.exists(exe)):
        res.labels["executables_absent"] = 1
        return res
    env = dict(os.environ)
    env["PYTHONPATH"] = REPO + os.pathsep + env.get("PYTHONPATH", "")
    with private_dir():
        data.write()
        argv = build_argv(cmd, opts, data)
        inner = Res(labels={})
        o = eval_config(cmd, opts, data, inner, case)
        p = subprocess.run([cli] + argv, capture_output=True, text=True, env=env, timeout=600)
        if not o["accepted"]:
            res.labels["not_accepted_in_process"] = 1
            if p.returncode == 0 and p.stdout.strip().startswith("["):
                res.fail("exe:accepts_what_in_process_rejects", {"argv": " ".join(argv)}, **ftags)
            return res
        if p.returncode != 0:
            res.fail("exe:cli_exit", {"argv": " ".join(argv), "stderr": p.stderr[-400:]}, **ftags)
            return res
        if p.stdout != o.get("json", "") + ("" if o.get("json", "").endswith("\n") else ""):
            if json.loads(p.stdout) != json.loads(o["json"]):
                res.fail("exe:json_differs", {"argv": " ".join(argv)}, **ftags)
                return res
        res.labels["same_json"] = 1
        if inner.fails or not o.get("ran"):
            res.labels["in_process_failure_not_rerun"] = 1
            return res
        spec = json.loads(p.stdout)
        if cmd == "map":
            for e in spec:
                if isinstance(e, dict) and e.get("type") == "Optimizer":
                    e["iterations"] = 1
                    e.setdefault("options", {})["max_iter"] = 1
        with open("config.json", "w") as f:
            json.dump(spec, f)
        q = subprocess.run([exe, "config.json", "-s", "1"], capture_output=True, text=True, env=env, timeout=900)
        if q.returncode != 0 or "Traceback" in q.stderr or "ERROR" in q.stderr:
            res.fail("exe:run", {"argv": " ".join(argv), "returncode": q.returncode, "stderr": q.stderr[-600:]}, **ftags)
            return res
        res.labels["ran"] = 1
        res.nontrivial = True
        res.key = key_of(cmd, opts)
    return res


# =========================================================================== calibration
def selftest():
    """the Jacobian oracle on a hand-written specification with known log-determinants, right and wrong books"""
    tt.load_all()
    spec = [
        {"id": "a", "type": "TransformedParameter", "transform": "torch.distributions.ExpTransform",
         "x": {"id": "a.unres", "type": "Parameter", "tensor": [0.3, -1.2]}},
        {"id": "s", "type": "TransformedParameter", "transform": "torch.distributions.StickBreakingTransform",
         "x": {"id": "s.unres", "type": "Parameter", "tensor": [0.2, -0.4, 0.9]}},
        {"id": "u", "type": "TransformedParameter", "transform": "torch.distributions.SigmoidTransform",
         "x": {"id": "u.unres", "type": "Parameter", "tensor": [0.7]}},
        {"id": "joint", "type": "JointDistributionModel", "distributions": [
            {"id": "pa", "type": "Distribution", "distribution": "torch.distributions.Exponential", "x": "a", "parameters": {"rate": 2.0}},
            {"id": "ps", "type": "Distribution", "distribution": "torch.distributions.Dirichlet", "x": "s", "parameters": {"concentration": [1.0, 2.0, 3.0, 1.5]}},
        ]},
        {"id": "w", "type": "TransformedParameter", "transform": "torch.distributions.ExpTransform", "x": "u"},
        {"id": "good", "type": "JointDistributionModel", "distributions": ["joint", "a", "s", "u"]},
        {"id": "nested", "type": "JointDistributionModel", "distributions": ["joint", "a", "s", "u", "w"]},
        {"id": "nested_lost", "type": "JointDistributionModel", "distributions": ["joint", "a", "s", "w"]},
        {"id": "twice", "type": "JointDistributionModel", "distributions": ["joint", "a", "a", "s"]},
        {"id": "miss", "type": "JointDistributionModel", "distributions": ["joint", "a"]},
    ]
    dic, _ = load_spec(spec)
    blocks = [dic["a.unres"], dic["s.unres"], dic["u.unres"]]
    z = dic["s.unres"].tensor
    # closed forms: exp -> sum z ; stick breaking (first K-1 coordinates) from torch's own formula re-derived
    off = z - torch.log(torch.arange(3, 0, -1, dtype=z.dtype))
    sig = torch.sigmoid(off)
    sb = (torch.log(sig) + torch.log1p(-sig)).sum() + torch.log(torch.cumprod(torch.cat([torch.ones(1, dtype=z.dtype), (1 - sig)[:-1]]), 0)).sum()
    want = float(dic["a.unres"].tensor.sum() + sb)
    uz = dic["u.unres"].tensor
    want_u = float((torch.log(torch.sigmoid(uz)) + torch.log1p(-torch.sigmoid(uz))).sum())
    g = jacobian_oracle(dic["good"], dic["joint"], blocks, dic)
    if (g["status"] != "ok" or abs(g["expected"] - want - want_u) > 1e-10 or abs(g["observed"] - g["expected"]) > 1e-10
            or g["free_terms"] != [] or g["mandatory_free"] != ["u"] or not g.get("perturbed_checked")):
        raise AssertionError("Jacobian oracle calibration (good books): %r vs %r" % (g, want + want_u))
    # a transform of a transform: the outer term (w = exp(u), no density anywhere) is optional, the inner one is not
    n1 = jacobian_oracle(dic["nested"], dic["joint"], blocks, dic)
    if n1["status"] != "ok" or abs(n1["observed"] - n1["expected"]) > 1e-10 or n1["free_terms"] != ["w"]:
        raise AssertionError("Jacobian oracle calibration (nested transforms): %r" % (n1,))
    n2 = jacobian_oracle(dic["nested_lost"], dic["joint"], blocks, dic)
    if n2["status"] != "ok" or abs(n2["observed"] - n2["expected"] + want_u) > 1e-10:
        raise AssertionError("Jacobian oracle calibration (inner transform of a nested pair lost): %r" % (n2,))
    t = jacobian_oracle(dic["twice"], dic["joint"], blocks, dic)
    if t["status"] != "ok" or abs(t["observed"] - t["expected"]) < 1e-3:
        raise AssertionError("Jacobian oracle calibration (term counted twice): %r" % (t,))
    m = jacobian_oracle(dic["miss"], dic["joint"], blocks, dic)
    if m["status"] != "ok" or abs(m["observed"] - m["expected"]) < 1e-3:
        raise AssertionError("Jacobian oracle calibration (missing term): %r" % (m,))
    for b, v in zip(blocks, ([0.3, -1.2], [0.2, -0.4, 0.9], [0.7])):
        if b.tensor.tolist() != v:
            raise AssertionError("Jacobian oracle did not restore the state")
    # regression / MLE oracles on a hand-made clock-like tree
    d = Data({"kind": "nuc", "ins": [0, 3], "dates": [0, 4, 8, 16], "incr": [2, 4, 8], "locs": ["a", "b", "a", "b"],
              "L": 14, "seq_seed": 5, "style": "plain"})
    rate, rh = d.regression("subst")
    if abs(rate - 0.01) > 1e-12 or abs(rh - d.root_height) > 1e-9:
        raise AssertionError("regression oracle: %r %r vs %r" % (rate, rh, d.root_height))
    if abs(sum(d.coalescent_mle(True)) - d.coalescent_mle(False) * (d.n - 1)) > 1e-12:
        raise AssertionError("coalescent MLE oracle")


# =========================================================================== registration
def subchecks(tier):
    core = Sub("core", body, enumerate=core_cases, expand=expand_core, exhaustive=True, size=case_size)
    # the runner's time guard is per work unit: 8 shorter units (on the same 4 processes) instead of 4 long ones
    core.shards_quick = 8
    subs = [
        core,
        Sub("objectives", body, enumerate=objective_cases, expand=expand_objective, exhaustive=True, size=case_size),
        Sub("initial", body, enumerate=initial_cases, expand=expand_initial, exhaustive=True, size=case_size),
        Sub("smoothing", body, enumerate=smoothing_cases, expand=expand_objective, exhaustive=True, size=case_size),
        Sub("pairwise", body, strategy=pairwise_case, quick=900, thorough=24000, size=case_size, shrink_s=40),
    ]
    if tier == "thorough":
        subs.append(Sub("executables", exe_body, strategy=pairwise_case, quick=0, thorough=16, size=case_size, shrink_s=1))
    return subs
