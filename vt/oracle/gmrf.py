"""Reference computations for C20 (numpy / mpmath only; no torchtree import).

GMRF (documented density, torchtree/distributions/gmrf.py docstring and test_gmrf.py):
    log p(x | tau) = (n-1)/2 log tau - tau/2 sum_i (x_{i+1}-x_i)^2 / w_i - (n-1)/2 log 2 pi
    plain:      w_i = 1
    weighted:   w_i = the given weights
    time-aware: h = sort([0] + internal node heights), d = diff(h), w_i = (d_i + d_{i+1})/2,
                divided by the root height h[-1] when rescale is on
    precision matrix: Q = tau * (tridiagonal, Q[i,i+1] = Q[i+1,i] = -1/w_i, rows summing to 0)

Kingman (DESIGN Appendix A.5): events sorted by time; an interval (a,b) with k lineages
contributes -k(k-1)/2 * int_a^b dt/N(t); a coalescent event at t contributes -log N(t).
skyride: theta_j on the interval that ends at the j-th coalescent event; skygrid: theta_0 on
[0,g_1), theta_j on [g_j, g_{j+1}), theta_{m-1} beyond the last grid point.
"""
import math

import mpmath
import numpy as np

LOG2PI = math.log(2.0 * math.pi)


# ------------------------------------------------------------------ GMRF
def gmrf_weights(n, variant, weights=None, internal_heights=None, rescale=True):
    """w_i (length n-1) of the documented density for a field of length n"""
    if variant == "plain":
        return np.ones(n - 1)
    if variant == "weighted":
        w = np.asarray(weights, dtype=float)
        assert w.shape == (n - 1,)
        return w
    if variant == "time_aware":
        h = np.sort(np.concatenate(([0.0], np.asarray(internal_heights, dtype=float))))
        assert h.shape == (n + 1,), (h.shape, n)
        d = np.diff(h)
        w = (d[:-1] + d[1:]) / 2.0
        if rescale:
            w = w / h[-1]
        return w
    raise ValueError(variant)


def gmrf_structure(w):
    """Q / tau"""
    w = np.asarray(w, dtype=float)
    n = len(w) + 1
    q = np.zeros((n, n))
    off = -1.0 / w
    idx = np.arange(n - 1)
    q[idx, idx + 1] = off
    q[idx + 1, idx] = off
    q[idx, idx] -= off
    q[idx + 1, idx + 1] -= off
    return q


def gmrf_sumsq(x, w):
    """sum_i (x_{i+1}-x_i)^2 / w_i, exactly rounded summation"""
    x = np.asarray(x, dtype=float)
    d = np.diff(x)
    return math.fsum((d * d / np.asarray(w, dtype=float)).tolist())


def gmrf_logpdf(x, tau, w):
    n = len(x)
    return (n - 1) / 2.0 * math.log(tau) - 0.5 * tau * gmrf_sumsq(x, w) - (n - 1) / 2.0 * LOG2PI


def quadform_mp(x, Q):
    """x^T Q x in 40-digit arithmetic (every entry of Q is used, also the ones that should be 0).
    Returns (value, magnitude) with magnitude = sum |Q_ij x_i x_j| (conditioning of the form)"""
    with mpmath.workdps(40):
        n = len(x)
        xs = [mpmath.mpf(float(v)) for v in x]
        tot = mpmath.mpf(0)
        mag = mpmath.mpf(0)
        for i in range(n):
            for j in range(n):
                q = float(Q[i][j])
                if q != 0.0:
                    term = mpmath.mpf(q) * xs[i] * xs[j]
                    tot += term
                    mag += abs(term)
        return float(tot), float(mag)


def quadform_logpdf(x, Q, tau):
    n = len(x)
    v, mag = quadform_mp(x, Q)
    return (n - 1) / 2.0 * math.log(tau) - 0.5 * v - (n - 1) / 2.0 * LOG2PI, mag


def _log_quad(logf, points, dps=30):
    """log int exp(logf) over the given break points, with the peak factored out"""
    with mpmath.workdps(dps):
        finite = [p for p in points if p != mpmath.inf and p > 0]
        peak = max(logf(mpmath.mpf(p)) for p in finite)
        val, err = mpmath.quad(lambda t: mpmath.exp(logf(t) - peak), points, error=True, maxdegree=10)
        if not val > 0:
            raise ArithmeticError("quadrature returned %s" % val)
        return float(mpmath.log(val) + peak), float(err / val)


def _gamma_kernel_points(A, B):
    """break points for int t^(A-1) exp(-B t) dt: around mean A/B with sd sqrt(A)/B"""
    mean = A / B
    sd = math.sqrt(A) / B
    pts = [0.0]
    for k in (-12.0, -4.0, 0.0, 4.0, 12.0, 40.0):
        p = mean + k * sd
        if p > pts[-1] * (1 + 1e-12) and p > 0:
            pts.append(p)
    if len(pts) == 1:
        pts.append(mean)
    return [mpmath.mpf(p) for p in pts] + [mpmath.inf]


def gmrf_gamma_integrated_quad(x, w, shape, rate, dps=30):
    """log int_0^inf Gamma(tau; shape, rate) * GMRF(x | tau) dtau by tanh-sinh quadrature.
    returns (value, relative error estimate of the quadrature)"""
    n = len(x)
    S = gmrf_sumsq(x, w)
    with mpmath.workdps(dps):
        a, b, Sm = mpmath.mpf(shape), mpmath.mpf(rate), mpmath.mpf(S)
        half = mpmath.mpf(n - 1) / 2
        const = a * mpmath.log(b) - mpmath.loggamma(a) - half * mpmath.log(2 * mpmath.pi)

        def logf(tau):
            lt = mpmath.log(tau)
            log_gamma_pdf = (a - 1) * lt - b * tau  # + a log b - lgamma(a) (in const)
            log_gmrf = half * lt - tau * Sm / 2  # - (n-1)/2 log 2pi (in const)
            return log_gamma_pdf + log_gmrf

        A = float(shape) + (n - 1) / 2.0
        B = float(rate) + S / 2.0
        v, err = _log_quad(logf, _gamma_kernel_points(A, B), dps)
        return v + float(const), err


def gmrf_gamma_integrated_closed(x, w, shape, rate):
    """the same integral in closed form (audit of the quadrature only)"""
    n = len(x)
    S = gmrf_sumsq(x, w)
    with mpmath.workdps(30):
        a, b = mpmath.mpf(shape), mpmath.mpf(rate)
        half = mpmath.mpf(n - 1) / 2
        v = (
            a * mpmath.log(b)
            - mpmath.loggamma(a)
            - half * mpmath.log(2 * mpmath.pi)
            + mpmath.loggamma(a + half)
            - (a + half) * mpmath.log(b + mpmath.mpf(S) / 2)
        )
        return float(v)


# ------------------------------------------------------------------ Kingman
def _events(samp, coal):
    ev = [(float(t), +1) for t in samp] + [(float(t), -1) for t in coal]
    ev.sort(key=lambda e: (e[0], -e[1]))  # at equal times: sampling first (immaterial)
    return ev


def intervals(samp, coal, breaks=()):
    """list of (a, b, k) pieces with k lineages, cut at the events and at `breaks`; and the
    sorted coalescent times"""
    ev = _events(samp, coal)
    out = []
    k = 0
    prev = ev[0][0]
    br = sorted(float(b) for b in breaks)
    for t, d in ev:
        if t > prev:
            cuts = [prev] + [b for b in br if prev < b < t] + [t]
            for a, b in zip(cuts[:-1], cuts[1:]):
                out.append((a, b, k))
        k += d
        if k < 0:
            raise ValueError("invalid genealogy: negative lineage count")
        prev = t
    if k != 1:
        raise ValueError("invalid genealogy: %d lineages left" % k)
    return out


def constant_stat(samp, coal):
    """sum over intervals of C(k,2) * length"""
    return math.fsum(k * (k - 1) / 2.0 * (b - a) for a, b, k in intervals(samp, coal))


def constant_logp(samp, coal, theta):
    n1 = len(coal)
    return -constant_stat(samp, coal) / theta - n1 * math.log(theta)


def piece_index(kind, t, coal_sorted, grid):
    """index of the theta that applies at time t (t not on a mark)"""
    if kind == "skyride":
        # interval j ends at the j-th coalescent event: number of coalescent times < t
        j = int(np.searchsorted(coal_sorted, t, side="left"))
        return min(j, len(coal_sorted) - 1)
    return int(np.searchsorted(grid, t, side="right"))


def piecewise_stats(kind, samp, coal, m, grid=None):
    """(ss, counts): ss_j = sum of C(k,2)*length over the part of the tree where theta_j
    applies; counts_j = number of coalescent events at which theta_j applies"""
    cs = np.sort(np.asarray(coal, dtype=float))
    g = np.asarray(grid if grid is not None else [], dtype=float)
    breaks = cs if kind == "skyride" else g
    parts = [[] for _ in range(m)]
    for a, b, k in intervals(samp, coal, breaks):
        j = piece_index(kind, 0.5 * (a + b), cs, g)
        parts[j].append(k * (k - 1) / 2.0 * (b - a))
    ss = np.array([math.fsum(p) for p in parts])
    counts = np.zeros(m)
    for i, t in enumerate(cs):
        j = i if kind == "skyride" else int(np.searchsorted(g, t, side="right"))
        counts[j] += 1
    return ss, counts


def piecewise_logp(kind, samp, coal, theta, grid=None):
    """Kingman density by walking the intervals (does not go through the statistics)"""
    theta = np.asarray(theta, dtype=float)
    cs = np.sort(np.asarray(coal, dtype=float))
    g = np.asarray(grid if grid is not None else [], dtype=float)
    breaks = cs if kind == "skyride" else g
    terms = []
    for a, b, k in intervals(samp, coal, breaks):
        j = piece_index(kind, 0.5 * (a + b), cs, g)
        terms.append(-k * (k - 1) / 2.0 * (b - a) / theta[j])
    for i, t in enumerate(cs):
        j = i if kind == "skyride" else int(np.searchsorted(g, t, side="right"))
        terms.append(-math.log(theta[j]))
    return math.fsum(terms)


def constant_integrated_quad(samp, coal, alpha, beta, dps=30):
    """log int_0^inf InvGamma(theta; alpha, beta) * ConstantCoalescent(T | theta) dtheta,
    the coalescent density being the Kingman formula above. returns (value, rel. error est.)"""
    S = constant_stat(samp, coal)
    n1 = len(coal)
    with mpmath.workdps(dps):
        a, b, Sm = mpmath.mpf(alpha), mpmath.mpf(beta), mpmath.mpf(S)
        const = a * mpmath.log(b) - mpmath.loggamma(a)

        def logf(th):
            lt = mpmath.log(th)
            log_invgamma = -(a + 1) * lt - b / th  # + a log b - lgamma(a) (in const)
            log_coal = -Sm / th - n1 * lt
            return log_invgamma + log_coal

        # in u = 1/theta the integrand is a gamma kernel u^(A-1) e^(-B u); place the break
        # points of the theta-integral at the reciprocals
        A = float(alpha) + n1
        B = float(beta) + S
        up = [float(p) for p in _gamma_kernel_points(A, B)[1:-1]]
        pts = [mpmath.mpf(0)] + sorted(mpmath.mpf(1.0 / p) for p in up) + [mpmath.inf]
        v, err = _log_quad(logf, pts, dps)
        return v + float(const), err


def constant_integrated_closed(samp, coal, alpha, beta):
    S = constant_stat(samp, coal)
    n1 = len(coal)
    with mpmath.workdps(30):
        a, b = mpmath.mpf(alpha), mpmath.mpf(beta)
        v = a * mpmath.log(b) - mpmath.loggamma(a) + mpmath.loggamma(a + n1) - (a + n1) * mpmath.log(b + mpmath.mpf(S))
        return float(v)
