"""C01 - tree log-likelihood equals exact marginalisation over ancestral states."""
import numpy as np
from hypothesis import strategies as st

import torch

from vt import phylo, tt
from vt.cmp import arr
from vt.gen.trees import all_ins
from vt.runner import Res, Sub

PROPERTY = "C01"
LEVEL = "exploration"
RULE = (
    "Hypothesis draws (labelled rooted topology as an insertion sequence + label permutation + child swaps; tree kind in "
    "{unrooted with lengths in the newick (+trifurcating root), unrooted with explicit branch-length tensor, time tree with heights / "
    "ratios+root height / shifts x strict or per-branch clock, iso/heterochronous dates as ages or calendar}; model in "
    "{JC69,HKY,GTR,general symmetric/non-symmetric with random mapping,GeneralJC69 (2-5 states),LG,WAG,MG94 x 3 genetic codes}; site model in "
    "{constant,invariant,Weibull(K),Weibull(K)+invariant} x optional mu; alignment of 1-8 columns with ambiguity codes, gaps, lower case, "
    "repeated columns, sequence order shuffled; tip mode in {partials+ambiguities, partials, tip states}); the model is built from JSON and "
    "compared with the brute-force sum over all internal-state assignments and categories (pruning reference above 3e5 assignments). "
    "Non-trivial = a column with >= 2 distinct unambiguous states AND (non-JC model, K>1, invariant, ambiguity symbol, repeated column or "
    "non-identity label/sequence order). Distinct = (clade sets, tree kind, model, rounded parameters, site model, tip mode, alignment). "
    "Sub-check 'all_topologies' enumerates every labelled rooted topology for 3..6 taxa (thorough: all 1068; quick: all of n=3..5 and every 8th of n=6)."
)
ASSUMPTIONS = [
    "agreement demanded to 1e-9 relative as the property states, plus the measured conditioning of the case: the change of the reference when every P(t) is perturbed by two ulps in the symmetrised basis (P_ij += 4.4e-16 sqrt(pi_j/pi_i)); cases where this slack exceeds 1e-9 |ref| (columns whose likelihood is ~1e-15: branches < 1e-6, frequencies / rates spanning > 3 orders of magnitude, invariant sites on nearly impossible columns) are labelled ill_conditioned and counted",
    "non-reversible models only on time trees and explicit-tensor unrooted trees (root placement is then part of the specification)",
    "LG / WAG / MG94: rate matrix taken from the model's q() (their values are C04's subject), everything else independent",
    "stop codons are not generated (not a state of the codon model; no documented meaning)",
    "scipy.linalg.expm is trusted for P(t); the pruning reference is audited against brute force in every run (sub-check audit_oracle)",
]


def _round(x):
    if isinstance(x, float):
        return float("%.6g" % x)
    if isinstance(x, list):
        return [_round(v) for v in x]
    if isinstance(x, dict):
        return {k: _round(v) for k, v in x.items()}
    return x


def classify(c):
    topo, names, dates, bl, h = phylo.tree_geometry(c)
    n = topo.n
    m = c["model"]["name"]
    site = c["site"]
    amb = any(len(phylo.OL.IUPAC.get(s.upper(), "xx")) > 1 for col in c["cols"] for s in col) if c["family"] == "nucleotide" else any(
        s.upper() not in phylo.AA_PLAIN for col in c["cols"] for s in col) if c["family"] == "aa" else False
    rep = len({tuple(col) for col in c["cols"]}) < len(c["cols"])
    shuffled = c["topo"]["perm"] != sorted(c["topo"]["perm"]) or c["seq_order"] != sorted(c["seq_order"])
    nontrivial = phylo.varying_column(c) and (
        m not in ("JC69", "GeneralJC69") or site.get("K", 1) > 1 or "pinv" in site or amb or rep or shuffled)
    key = (sorted(sorted(x) for x in topo.clades()), c["tree"]["kind"], _round(c["tree"]), _round(c["model"]), _round(site), c["tip"], c["cols"], c["seq_order"])
    labels = (c["family"], m, c["tree"]["kind"], site["kind"], c["tip"], "n=%d" % n, "amb" if amb else "noamb-data", "repeat" if rep else "norepeat")
    pos = [x for x in bl.values() if x > 0]
    tiny = bool(pos) and min(pos) < 1e-14
    tags = {"model": m, "tree": c["tree"]["kind"], "site": site["kind"], "tip": c["tip"], "family": c["family"], "tiny_branch": tiny}
    if tiny:
        labels = labels + ("tiny_branch",)
    return nontrivial, key, labels, tags


def body(c):
    nontrivial, key, labels, tags = classify(c)
    res = Res(nontrivial=nontrivial, key=key, labels=labels, tags=tags)
    if c.get("fasta"):
        res.labels = res.labels + ("fasta_file", "wrap=%d" % c["fasta"]["wrap"], "final_newline" if c["fasta"]["final_newline"] else "no_final_newline")
        res.key = key + (str(sorted(c["fasta"].items())),)
    if c.get("f32default"):
        res.labels = res.labels + ("default_dtype_float32",)
        res.key = key + ("f32default",)
    with tt.default_dtype(torch.float32 if c.get("f32default") else torch.float64):
        dic = phylo.build_like(c)
        v = arr(dic["like"]())
    ref = phylo.reference(c, dic)
    if v.size != 1 or not np.isfinite(v).all():
        return res.fail("nonfinite", {"value": v.tolist(), "reference": ref})
    v = float(v.reshape(-1)[0])
    slack = conditioning(c, dic)
    if slack > 1e-9 * max(1.0, abs(ref)):
        res.labels = res.labels + ("ill_conditioned",)
    tol = 1e-9 * max(1.0, abs(ref)) + slack
    if abs(v - ref) > tol:
        return res.fail("mismatch", {"value": v, "reference": ref, "rel": abs(v - ref) / max(1.0, abs(ref)), "tol": tol})
    return res


def conditioning(c, dic=None):
    """absolute slack added to the property's 1e-9: see phylo.reference_slack (perturbation of every P(t)
    by two ulps in the symmetrised basis).  Cases where it exceeds 1e-9 * |ref| are labelled ill-conditioned."""
    if dic is None:
        dic = phylo.build_like(c) if c["model"]["name"] in ("LG", "WAG", "MG94") else None
    return phylo.reference_slack(c, dic)


def audit_body(c):
    """the pruning reference and the brute-force reference agree (harness self-audit)"""
    res = Res(nontrivial=phylo.varying_column(c), key=classify(c)[1], labels=("audit",), tags={"model": "oracle"})
    dic = phylo.build_like(c)
    a = phylo.reference(c, dic, "brute")
    b = phylo.reference(c, dic, "prune")
    if abs(a - b) > 1e-11 * max(1.0, abs(a)):
        raise AssertionError("oracle audit: brute %r vs prune %r" % (a, b))
    return res


def pretags(c):
    topo, names, dates, bl, h = phylo.tree_geometry(c)
    pos = [x for x in bl.values() if x > 0]
    return {"model": c["model"]["name"], "tree": c["tree"]["kind"], "site": c["site"]["kind"], "tip": c["tip"], "family": c["family"],
            "tiny_branch": bool(pos) and min(pos) < 1e-14}


def _topology_cases(tier):
    """every labelled rooted topology for n = 3..6 (compact form; expanded per shard)"""
    import os

    seed = int(os.environ.get("VERIF_SEED", "1") or 1)
    out = []
    kinds = ["unrooted_newick", "unrooted_tensor", "time", "ratio", "shift"]
    models = ["JC69", "HKY", "GTR", "GeneralSym", "GeneralNonSym"]
    cnt = 0
    reps = 3 if tier == "thorough" else 1
    for n in (3, 4, 5, 6):
        L = all_ins(n)
        if tier == "quick" and n == 6:
            L = L[(seed % 8)::8]
        for ins in L:
            for rep in range(reps):
                j = cnt + seed
                out.append({"n": n, "ins": ins, "kind": kinds[j % 5], "model": models[(j // 5 + j) % 5], "k": j * 7919 + rep})
                cnt += 1
    return out


def expand_topology_case(tc):
    """topology, tree kind and model are fixed by the enumeration; everything else is drawn by
    Hypothesis from a seed derived from the enumeration index (a pure function of VERIF_SEED)"""
    from hypothesis import HealthCheck, Phase, given, seed, settings

    n = tc["n"]
    kind = tc["kind"]
    model = tc["model"]
    if model == "GeneralNonSym" and kind == "unrooted_newick":
        kind = "unrooted_tensor"
    box = []

    @seed(tc["k"])
    @settings(max_examples=6, database=None, deadline=None, phases=[Phase.generate], suppress_health_check=list(HealthCheck))
    @given(st.data())
    def draw(data):
        c = {"family": "nucleotide", "topo": {"ins": tc["ins"]}}
        c["topo"]["perm"] = list(data.draw(st.permutations(list(range(n)))))
        c["topo"]["swaps"] = data.draw(st.lists(st.booleans(), min_size=n - 1, max_size=n - 1))
        c["model"] = data.draw(phylo.subst_model("nucleotide", [model]))
        c["tree"] = data.draw(phylo.tree_part(n, (kind,)))
        c["site"] = data.draw(phylo.site_model())
        c["cols"] = data.draw(phylo.columns(n, "nucleotide", c["model"]))
        c["tip"] = data.draw(st.sampled_from(["amb", "noamb", "states"]))
        c["seq_order"] = list(data.draw(st.permutations(list(range(n)))))
        box.append(c)

    draw()
    return box[-1]


@st.composite
def large_case(draw):
    """random topologies above the brute-force sizes (pruning reference, audited elsewhere)"""
    c = draw(phylo.like_case(families=("nucleotide", "nucleotide", "general"), nmax=30))
    return c


@st.composite
def indices_case(draw):
    """SitePattern with an `indices` selection: must equal the likelihood of the selected columns"""
    c = draw(phylo.like_case(families=("nucleotide",), nmax=6))
    ncol = len(c["cols"])
    parts = []
    for _ in range(draw(st.integers(1, 3))):
        if draw(st.booleans()):
            parts.append(str(draw(st.integers(-ncol, ncol - 1))))  # python semantics: -1 is the last column
        else:
            a = draw(st.integers(0, ncol - 1))
            b = draw(st.integers(a + 1, ncol))
            step = draw(st.sampled_from([None, None, 2, 3, -1]))
            form = draw(st.sampled_from(["ab", "ab", "a:", ":b", "neg", ":"]))
            if step == -1:
                parts.append("::-1" if form in (":", "a:", ":b") else "%d:%s:-1" % (b - 1, "" if a == 0 else str(a - 1)))
            elif form == "a:":
                parts.append("%d:" % a + (":%d" % step if step else ""))
            elif form == ":b":
                parts.append(":%d" % b + (":%d" % step if step else ""))
            elif form == "neg":
                parts.append("%d:%s" % (a - ncol, "" if b == ncol else str(b - ncol)) + (":%d" % step if step else ""))
            elif form == ":":
                parts.append(":" + (":%d" % step if step else ""))
            else:
                parts.append("%d:%d" % (a, b) + (":%d" % step if step else ""))
    c["indices"] = ",".join(parts)
    return c


def indices_body(c):
    import copy

    from torchtree.core.utils import string_to_list_index  # documented index syntax (python slices)

    nontrivial, key, labels, tags = classify(c)
    res = Res(nontrivial=nontrivial, key=(key, c["indices"]), labels=labels + ("indices",), tags=dict(tags, indices=True))
    spec = phylo.like_spec(c)
    spec[-1]["site_pattern"]["indices"] = c["indices"]
    dic = {}
    for el in spec:
        phylo.tt.build(el, dic)
    v = arr(dic["like"]())
    # reference: python slice semantics on the list of columns, in the order written
    sel = []
    for part in c["indices"].split(","):
        bits = part.split(":")
        if len(bits) == 1:
            sel.append(c["cols"][int(bits[0])])
        else:
            sl = slice(*[int(x) if x != "" else None for x in bits])
            sel.extend(c["cols"][sl])
    d = copy.deepcopy(c)
    d["cols"] = sel
    if not sel:
        return res
    ref = phylo.reference(d, dic)
    if v.size != 1 or not np.isfinite(v).all() or abs(float(v.reshape(-1)[0]) - ref) > 1e-9 * max(1.0, abs(ref)) + conditioning(d, dic):
        return res.fail("mismatch", {"value": v.tolist(), "reference": ref, "indices": c["indices"], "ncol": len(c["cols"])})
    return res


@st.composite
def fasta_case(draw):
    """the alignment is read from a FASTA file (wrapped lines, blank lines, CRLF, no final line terminator)"""
    c = draw(phylo.like_case(nmax=6))
    c["fasta"] = {"wrap": draw(st.sampled_from([0, 1, 2, 3, 5, 7])), "blank": draw(st.booleans()), "crlf": draw(st.booleans()), "final_newline": draw(st.booleans())}
    return c


@st.composite
def api_sequence_case(draw):
    """several analyses in one process whose data types are created with the class constructors (not from JSON), the way
    a program using the package as a library does: nothing may leak from one object to the next"""
    cases = [draw(phylo.like_case(families=("general",), nmax=5)) for _ in range(draw(st.integers(2, 3)))]
    for c in cases:
        c["tip"] = draw(st.sampled_from(["amb", "amb", "noamb"]))
    if draw(st.booleans()):
        cases.sort(key=lambda c: c["model"]["k"])
    return {"cases": cases}


def api_sequence_body(c):
    from torchtree.evolution.datatype import GeneralDataType

    first = classify(c["cases"][0])
    res = Res(nontrivial=len({x["model"]["k"] for x in c["cases"]}) > 1, key=tuple(classify(x)[1] for x in c["cases"]),
              labels=("api_sequence", "k=" + "<".join(str(x["model"]["k"]) for x in c["cases"])), tags=dict(first[3], api=True))
    for i, cc in enumerate(c["cases"]):
        spec = phylo.like_spec(cc)
        dts, info = phylo.datatype_spec(cc)
        dic = {}
        # default arguments on purpose when the alphabet has no ambiguity codes
        dic["dt"] = GeneralDataType("dt", tuple(info["codes"]), dict(info["ambiguities"])) if info["ambiguities"] else GeneralDataType("dt", tuple(info["codes"]))
        for el in spec:
            if isinstance(el, dict) and el.get("id") == "dt":
                continue
            phylo.tt.build(el, dic)
        v = arr(dic["like"]())
        ref = phylo.reference(cc, dic)
        tol = 1e-9 * max(1.0, abs(ref)) + conditioning(cc, dic)
        if v.size != 1 or not np.isfinite(v).all():
            return res.fail("nonfinite", {"position": i, "value": v.tolist(), "reference": ref})
        if abs(float(v.reshape(-1)[0]) - ref) > tol:
            return res.fail("mismatch", {"position": i, "value": float(v.reshape(-1)[0]), "reference": ref, "alphabets": [x["model"]["k"] for x in c["cases"]]})
    return res


@st.composite
def shared_case(draw):
    c = draw(phylo.like_case(families=("nucleotide", "nucleotide", "aa", "general"), nmax=5))
    c["modes"] = draw(st.permutations(["amb", "noamb", "states"]))[: draw(st.integers(2, 3))]
    return c


def shared_body(c):
    """several likelihoods with different tip representations built in ONE specification on the same
    SitePattern / tree / models (referenced by id): each must equal its own reference value"""
    nontrivial, key, labels, tags = classify(c)
    res = Res(nontrivial=nontrivial, key=(key, c["modes"]), labels=labels + ("shared",) + tuple(c["modes"]), tags=dict(tags, shared=True, tip="+".join(c["modes"])))
    spec = phylo.like_spec(dict(c, tip=c["modes"][0]))
    first = spec[-1]
    dic = {}
    for el in spec:
        phylo.tt.build(el, dic)
    ids = ["like"]
    for i, mode in enumerate(c["modes"][1:], start=2):
        lk = {"id": "like%d" % i, "type": "TreeLikelihoodModel", "tree_model": "tree", "site_model": "site", "substitution_model": "subst", "site_pattern": "sp",
              "use_ambiguities": mode == "amb", "use_tip_states": mode == "states"}
        if "branch_model" in first:
            lk["branch_model"] = "clock"
        phylo.tt.build(lk, dic)
        ids.append(lk["id"])
    for lid, mode in zip(ids, c["modes"]):
        cc = dict(c, tip=mode)
        v = arr(dic[lid]())
        ref = phylo.reference(cc, dic)
        if v.size != 1 or not np.isfinite(v).all() or abs(float(v.reshape(-1)[0]) - ref) > 1e-9 * max(1.0, abs(ref)) + conditioning(cc, dic):
            return res.fail("mismatch", {"mode": mode, "position": lid, "value": v.tolist(), "reference": ref, "modes": list(c["modes"])})
    return res


def subchecks(tier):
    return [
        Sub("random", body, strategy=phylo.like_case, quick=1500, thorough=80000, pretags=pretags),
        Sub("all_topologies", body, enumerate=_topology_cases, expand=expand_topology_case, exhaustive=(tier == "thorough"), pretags=pretags),
        Sub("fasta_file", body, strategy=fasta_case, quick=150, thorough=6000, pretags=pretags),
        Sub("api_sequence", api_sequence_body, strategy=api_sequence_case, quick=150, thorough=6000, pretags=lambda c: dict(pretags(c["cases"][0]), api=True)),
        Sub("large", body, strategy=large_case, quick=150, thorough=10000, pretags=pretags),
        Sub("shared", shared_body, strategy=shared_case, quick=200, thorough=8000, pretags=pretags),
        Sub("indices", indices_body, strategy=indices_case, quick=200, thorough=8000, pretags=pretags),
        Sub("audit_oracle", audit_body, strategy=lambda: phylo.like_case(families=("nucleotide", "general"), nmax=6), quick=40, thorough=400),
    ]
