"""C10 - a sample dimension never mixes samples."""
import copy
import itertools

import numpy as np
import torch
from hypothesis import strategies as st

from vt import phylo, tt
from vt.cmp import arr
from vt.gen.basic import fl, logu
from vt.props.c11 import DOMAIN, leaves_of, load, new_values, phylo_cls, walk, with_leaf_values
from vt.runner import Res, Sub, guarded

PROPERTY = "C10"
LEVEL = "exploration"
RULE = (
    "A model zoo entry (tree likelihood with each substitution-model family / site model / tree kind / clock; each coalescent on a time tree, "
    "with a GMRF; birth-death skyline; CTMC scale and gamma-Dirichlet tree priors; Distribution wrappers over Normal / LogNormal / Gamma / "
    "Dirichlet incl. a hierarchical prior whose parameter is itself a variable; JointDistributionModel over 2-5 of them) is built from JSON with "
    "a generated SUBSET of its leaf parameters carrying a leading sample shape [S] or [S,K] (S drawn equal to another dimension - states, taxa, "
    "categories, grid size - half of the time) and different values in every sample; the rest stay unbatched. Oracle: the value returned for "
    "sample s equals the value of the same specification built with only the s-th slice of every batched parameter (relative 1e-10); a result "
    "whose shape cannot be aligned with the sample shape while the slices differ is a violation; raising is an allowed outcome and is "
    "counted. Failing subsets are reduced to a minimal failing subset before bucketing. Non-trivial = proper subset batched, or S equal to "
    "another dimension, or [S,K]. Distinct = (entry, model classes, batched subset, sample shape). Sub-check 'all_subsets' enumerates every "
    "non-empty subset of the parameters of a fixed instance of each zoo entry."
)
ASSUMPTIONS = [
    "transforms (C07), p_t (C04) and site-model rates (C05) have their own batched-equals-per-slice sub-checks",
    "an exception is an allowed outcome ('a shape combination that is not supported fails with an error'); the fraction that raises is reported per entry",
    "exact ties between event times are not generated",
]

ENTRIES = ["like", "like", "coal", "bdsk", "dist", "dist2", "prior"]


@st.composite
def zoo_case(draw, entry=None, small=False):
    e = entry or draw(st.sampled_from(ENTRIES))
    c = {"entry": e}
    if e in ("like", "coal", "bdsk", "prior"):
        fam = draw(st.sampled_from(["nucleotide", "nucleotide", "general", "codon"])) if e == "like" else "nucleotide"
        kinds = {"like": ("unrooted_tensor", "time", "ratio", "shift"), "coal": ("time", "ratio", "shift"), "bdsk": ("time", "ratio"), "prior": ("unrooted_tensor", "time", "ratio")}[e]
        like = draw(phylo.like_case(families=(fam,), nmax=4 if fam == "codon" else 5, tree_kinds=kinds))
        like["tip"] = "noamb"
        if e != "like":
            like["model"] = {"name": "JC69"}
            like["site"] = {"kind": "constant"}
            like["cols"] = like["cols"][:2]
        c["like"] = like
        if e == "coal":
            c["coal"] = draw(st.sampled_from(["constant", "skygrid", "skyride", "exponential", "linear"]))
            c["theta"] = [draw(logu(0.5, 50.0)) for _ in range(4)]
            c["gmrf"] = draw(st.booleans())
            c["gmrf_tree"] = draw(st.booleans())  # the time-aware smoothing prior of the skyride
            c["temperature"] = draw(st.sampled_from([None, None, 1e-4, 0.5]))  # the soft skygrid
        if e == "bdsk":
            m = draw(st.integers(1, 3))
            c["bd"] = {"R": [draw(logu(0.5, 3)) for _ in range(m)], "delta": [draw(logu(0.3, 2)) for _ in range(m)], "s": [draw(fl(0.1, 0.8)) for _ in range(m)],
                       "rho": draw(st.sampled_from(["full", "last"])), "rhov": draw(fl(0.1, 0.9)), "offset": draw(logu(0.1, 2.0)),
                       "constant": m == 1 and draw(st.booleans()), "survival": draw(st.booleans())}
        if e == "prior":
            c["gd"] = [draw(logu(0.3, 3.0)) for _ in range(4)]
    else:
        c["d"] = draw(st.integers(2, 4))
        c["vals"] = [draw(fl(0.05, 0.95)) for _ in range(12)]
    ss = draw(st.sampled_from([[3], [4], [2], [5], [1], [3, 2], [2, 4], [4, 4], [1, 3]]))
    c["ss"] = ss
    c["eval_mode"] = draw(st.sampled_from(["fresh", "fresh", "rescaled", "second"])) if e == "like" else "fresh"
    c["subset_bits"] = draw(st.integers(1, 2 ** 12 - 1))
    nS = int(np.prod(ss))
    c["u"] = [[draw(fl(0.001, 0.999)) for _ in range(6)] for _ in range(nS)]
    return c


def build_spec(c):
    """-> (spec, domains of batchable leaves, target ids)"""
    e = c["entry"]
    if e == "dist":
        d = c["d"]
        v = c["vals"]
        spec = [
            {"id": "normal", "type": "Distribution", "distribution": "torch.distributions.Normal", "x": tt.P("nx", [4 * x - 2 for x in v[:d]]),
             "parameters": {"loc": tt.P("loc", [v[4]]), "scale": tt.P("scale", [0.5 + v[5]])}},
            {"id": "lognormal", "type": "Distribution", "distribution": "torch.distributions.LogNormal", "x": tt.P("lx", [0.2 + 3 * x for x in v[:d]]),
             "parameters": {"loc": tt.P("lloc", [v[6]] * d), "scale": tt.P("lscale", [0.5 + v[7]])}},
            # hierarchical prior: the rate of the gamma on gx is itself a variable with a prior
            {"id": "gamma", "type": "Distribution", "distribution": "torch.distributions.Gamma", "x": tt.P("gx", [0.2 + 3 * x for x in v[1:d + 1]]),
             "parameters": {"concentration": tt.P("gconc", [1.0 + v[8]]), "rate": tt.P("grate", [0.5 + v[9]])}},
            {"id": "hyper", "type": "Distribution", "distribution": "torch.distributions.Exponential", "x": "grate", "parameters": {"rate": tt.P("hrate", [1.0 + v[10]])}},
            {"id": "dirichlet", "type": "Distribution", "distribution": "torch.distributions.Dirichlet", "x": tt.P("dx", (np.array(v[:d]) / sum(v[:d])).tolist()),
             "parameters": {"concentration": tt.P("dconc", [0.5 + 2 * x for x in v[2:d + 2]])}},
            {"id": "joint", "type": "JointDistributionModel", "distributions": ["normal", "lognormal", "gamma", "hyper", "dirichlet"]},
            {"id": "joint2", "type": "JointDistributionModel", "distributions": ["gamma", "hyper"]},
        ]
        dom = {"nx": "real", "loc": "real", "scale": "pos", "lx": "pos", "lloc": "real", "lscale": "pos", "gx": "pos", "gconc": "pos", "grate": "pos", "hrate": "pos",
               "dx": "simplex", "dconc": "pos"}
        return spec, dom, ["normal", "lognormal", "gamma", "hyper", "dirichlet", "joint", "joint2"]
    if e == "dist2":
        # the other callable densities the package ships, and Jacobian terms of transformed parameters
        d = c["d"]
        v = c["vals"]
        real = [4 * x - 2 for x in v[:d]]
        L = np.tril(np.array([[0.3 + v[(3 * i + j) % 12] for j in range(d)] for i in range(d)]))
        spec = [
            {"id": "bridge", "type": "BayesianBridge", "x": tt.P("bx", real), "scale": tt.P("bscale", [0.5 + v[4]]), "alpha": tt.P("balpha", [0.3 + v[5]])},
            {"id": "bridge2", "type": "BayesianBridge", "x": tt.P("b2x", real), "scale": tt.P("b2scale", [0.5 + v[4]]), "local_scale": tt.P("b2local", [0.3 + x for x in v[1:d + 1]]), "slab": tt.P("b2slab", [1.0 + v[6]])},
            {"id": "mixture", "type": "ScaleMixtureNormal", "x": tt.P("sx", real), "loc": 0.1, "global_scale": tt.P("sglobal", [0.5 + v[6]]), "local_scale": tt.P("slocal", [0.3 + x for x in v[2:d + 2]])},
            {"id": "mvn", "type": "MultivariateNormal", "x": tt.P("mx", real), "parameters": {"loc": tt.P("mloc", [x - 0.5 for x in v[3:d + 3]]), "scale_tril": tt.P("mtril", L.tolist())}},
            {"id": "gmrf", "type": "GMRF", "x": tt.P("gfield", real), "precision": tt.P("gprec", [0.5 + v[7]])},
            {"id": "gmrfi", "type": "GMRFGammaIntegrated", "x": tt.P("gifield", real), "shape": 0.5 + v[8], "rate": 0.5 + v[9]},
            {"id": "invgamma", "type": "Distribution", "distribution": "torchtree.distributions.inverse_gamma.InverseGamma", "x": tt.P("ix", [0.2 + 3 * x for x in v[:d]]),
             "parameters": {"concentration": tt.P("iconc", [1.0 + v[8]]), "rate": tt.P("irate", [0.5 + v[9]])}},
            {"id": "oneonx", "type": "Distribution", "distribution": "torchtree.distributions.one_on_x.OneOnX", "x": tt.P("ox", [0.2 + 3 * x for x in v[1:d + 1]])},
            {"id": "texp", "type": "TransformedParameter", "transform": "torch.distributions.ExpTransform", "x": tt.P("texp.u", real)},
            {"id": "tsig", "type": "TransformedParameter", "transform": "torch.distributions.SigmoidTransform", "x": tt.P("tsig.u", real)},
            {"id": "tstick", "type": "TransformedParameter", "transform": "torch.distributions.StickBreakingTransform", "x": tt.P("tstick.u", real)},
            {"id": "tcum", "type": "TransformedParameter", "transform": "CumSumExpTransform", "x": tt.P("tcum.u", real)},
            {"id": "prior.texp", "type": "Distribution", "distribution": "torch.distributions.Gamma", "x": "texp", "parameters": {"concentration": tt.P("pconc", [1.0 + v[10]]), "rate": tt.P("prate", [0.5 + v[11]])}},
            {"id": "joint", "type": "JointDistributionModel", "distributions": ["bridge", "mixture", "mvn", "gmrf", "prior.texp", "texp", "tsig"]},
        ]
        dom = {"bx": "real", "bscale": "pos", "balpha": "pos", "b2x": "real", "b2scale": "pos", "b2local": "pos", "b2slab": "pos", "sx": "real", "sglobal": "pos", "slocal": "pos",
               "mx": "real", "mloc": "real", "gfield": "real", "gprec": "pos", "gifield": "real", "ix": "pos", "iconc": "pos", "irate": "pos", "ox": "pos",
               "texp.u": "real", "tsig.u": "real", "tstick.u": "real", "tcum.u": "real", "pconc": "pos", "prate": "pos"}
        return spec, dom, ["bridge", "bridge2", "mixture", "mvn", "gmrf", "gmrfi", "invgamma", "oneonx", "texp", "tsig", "tstick", "tcum", "prior.texp", "joint"]
    like = c["like"]
    spec = phylo.like_spec(like)
    n = phylo.case_topo(like).n
    targets = ["like"]
    if e == "coal":
        m = c["coal"]
        theta_n = {"constant": 1, "exponential": 1, "skyride": n - 1}.get(m, 4)
        coal = {"id": "coal", "type": phylo_cls(m), "theta": tt.P("theta", (c["theta"] * n)[:theta_n]), "tree_model": "tree"}
        if m == "exponential":
            coal["growth"] = tt.P("growth", [0.3])
        if m in ("skygrid", "linear"):
            coal["cutoff"] = 7.3
        if m == "skygrid" and c.get("temperature"):
            coal["temperature"] = c["temperature"]
        spec.append(coal)
        # a joint made of the coalescent alone: its samples must not be added up
        spec.append({"id": "jointc", "type": "JointDistributionModel", "distributions": ["coal"]})
        targets = ["coal", "jointc"]
        if c["gmrf"] and theta_n >= 2:
            gm = {"id": "gmrf", "type": "GMRF", "x": "theta", "precision": tt.P("gmrf.precision", [0.7])}
            if m == "skyride" and c.get("gmrf_tree"):
                gm["tree_model"] = "tree"
            spec.append(gm)
            spec.append({"id": "joint", "type": "JointDistributionModel", "distributions": ["coal", "gmrf"]})
            targets += ["gmrf", "joint"]
    if e == "bdsk":
        bd = c["bd"]
        m = len(bd["R"])
        rho = [0.0] * (m - 1) + [bd["rhov"]] if bd["rho"] == "full" else [bd["rhov"]]
        topo, names, dates, bl, h = phylo.tree_geometry(like)
        if bd.get("constant"):
            # the constant-rate class: rates given directly, the origin is an absolute time above every root height
            # any sample can take (increments are at most 5, a batched root height at most max tip + 5.1)
            spec.append({"id": "bdsk", "type": "BirthDeathModel", "tree_model": "tree", "lambda": tt.P("bd.R", bd["R"]), "mu": tt.P("bd.delta", bd["delta"]),
                         "psi": tt.P("bd.s", bd["s"]), "rho": tt.P("bd.rho", [bd["rhov"]]), "origin": tt.P("bd.origin", [origin_floor(like) + bd["offset"]]),
                         "survival": bd.get("survival", True)})
        else:
            spec.append({"id": "bdsk", "type": "BDSKModel", "tree_model": "tree", "R": tt.P("bd.R", bd["R"]), "delta": tt.P("bd.delta", bd["delta"]), "s": tt.P("bd.s", bd["s"]),
                         "rho": tt.P("bd.rho", rho), "origin": tt.P("bd.origin", [bd["offset"]]), "origin_is_root_edge": True})
        targets = ["bdsk"]
    if e == "prior":
        if like["tree"]["kind"] == "unrooted_tensor":
            a, cc, sh, rt = c["gd"]
            spec.append({"id": "gd", "type": "CompoundGammaDirichletPrior", "tree_model": "tree", "alpha": tt.P("gd.alpha", [a]), "c": tt.P("gd.c", [cc]),
                         "shape": tt.P("gd.shape", [sh]), "rate": tt.P("gd.rate", [rt])})
            targets = ["gd"]
        else:
            rid = "rate" if like["tree"]["clock"]["kind"] == "strict" else "clock.rates"
            spec.append({"id": "ctmc", "type": "CTMCScale", "x": rid, "tree_model": "tree"})
            targets = ["ctmc"]
    dom = {}
    for lid in leaves_of(spec):
        if lid in DOMAIN:
            dom[lid] = DOMAIN[lid]
        elif lid in ("theta", "gmrf.precision", "gd.alpha", "gd.c", "gd.shape", "gd.rate", "bd.R", "bd.delta", "bd.origin"):
            dom[lid] = "pos"
        elif lid == "bd.s":
            dom[lid] = "unit"
        elif lid == "bd.rho":
            dom[lid] = "rho"
        elif lid == "growth":
            dom[lid] = "real"
    if e == "bdsk" and c["bd"].get("constant"):
        dom["bd.origin"] = "origin_abs"
    if "heights" in dom or like["tree"]["kind"] == "time":
        dom["heights"] = "heights"
    # only leaves the targets depend on
    if e in ("coal", "bdsk", "prior"):
        keep = {"coal": ("theta", "growth", "gmrf.precision", "heights", "ratios", "root_height", "shifts"),
                "bdsk": ("bd.R", "bd.delta", "bd.s", "bd.rho", "bd.origin", "heights", "ratios", "root_height"),
                "prior": ("gd.alpha", "gd.c", "gd.shape", "gd.rate", "bl", "rate", "clock.rates", "heights", "ratios", "root_height")}[e]
        dom = {k: v for k, v in dom.items() if k in keep}
    return spec, dom, targets


def origin_floor(like):
    n = len(like["tree"]["tip_heights"])
    return max(like["tree"]["tip_heights"]) + 5.0 * (n - 1) + 6.0


def slice_values(c, spec, dom, batched, s, base_values):
    """leaf values of sample s: batched leaves get a value generated from u[s]"""
    out = dict(base_values)
    u = c["u"][s]
    for i, lid in enumerate(batched):
        shape = tuple(np.asarray(base_values[lid]).shape)
        uu = u[i % 6:] + u[: i % 6]
        if dom[lid] == "heights":
            like = copy.deepcopy(c["like"])
            like["tree"]["incs"] = [0.05 + 3.0 * x for x in (uu * 10)[: len(like["tree"]["incs"])]]
            topo, names, dates, bl, h = phylo.tree_geometry(like)
            out[lid] = [h[j] for j in range(topo.n, 2 * topo.n - 1)]
        elif dom[lid] == "origin_abs":
            out[lid] = [origin_floor(c["like"]) + 0.1 + 5.0 * uu[0]]
        elif dom[lid] == "root":
            like = c["like"]
            out[lid] = [max(like["tree"]["tip_heights"]) + 0.1 + 5.0 * uu[0]]
        else:
            out[lid] = new_values(dom[lid], shape, uu, None, {}).tolist()
    return out


def evaluate(spec, values, targets):
    dic = load(with_leaf_values(spec, values))
    return {t: dic[t]() for t in targets}


def run_subset(c, spec, dom, targets, batched):
    """-> ('ok' | 'raises' | 'wrong' | 'shape', detail) per target for the given batched subset"""
    ss = tuple(c["ss"])
    nS = int(np.prod(ss))
    base = {}

    def f(d):
        if d.get("type") == "Parameter" and "tensor" in d and d.get("id"):
            base[d["id"]] = d["tensor"]

    walk(copy.deepcopy(spec), f)
    per = [slice_values(c, spec, dom, batched, s, base) for s in range(nS)]
    bvals = dict(base)
    for lid in batched:
        stacked = np.array([per[s][lid] for s in range(nS)], dtype=float)
        bvals[lid] = stacked.reshape(ss + stacked.shape[1:]).tolist()
    out = {}
    bdic, exc0 = guarded(load, with_leaf_values(spec, bvals))
    mode = c.get("eval_mode", "fresh")
    if exc0 is None and "like" in targets and mode != "fresh":
        # the likelihood has state: rescaling once switched on stays on.  'rescaled' forces it on a fresh batched
        # model; 'second' evaluates, re-assigns one batched parameter (same values) and evaluates again
        if mode == "rescaled":
            bdic["like"].rescale = True
        else:
            _, exc0 = guarded(bdic["like"])
            if exc0 is None:
                bdic["like"].rescale = True
                pid = batched[0]
                if pid in bdic:
                    bdic[pid].tensor = bdic[pid].tensor.clone()
    refs = [evaluate(spec, per[s], targets) for s in range(nS)]
    for t in targets:
        exc = exc0
        if exc is None:
            val, exc = guarded(bdic[t])
        if exc is not None:
            out[t] = ("raises", {"exception": type(exc).__name__, "message": str(exc)[:160]})
            continue
        r = arr(val)
        want = np.array([arr(refs[s][t]).reshape(-1) for s in range(nS)])  # [nS, e]
        differ = np.max(np.abs(want - want[0])) > 1e-9 * max(1.0, np.max(np.abs(want)))
        if r.size == want.size:
            r2 = r.reshape(want.shape)
            if not np.all(np.isfinite(r2)) and np.all(np.isfinite(want)):
                out[t] = ("wrong", {"got": r2.reshape(-1)[:6].tolist(), "per_slice": want.reshape(-1)[:6].tolist(), "result_shape": list(r.shape)})
            elif np.max(np.abs(r2 - want) / np.maximum(1.0, np.abs(want))) > 1e-10:
                out[t] = ("wrong", {"got": r2.reshape(-1)[:6].tolist(), "per_slice": want.reshape(-1)[:6].tolist(), "result_shape": list(r.shape)})
            else:
                out[t] = ("ok", {})
        elif not differ and want.shape[1] and r.size == want.shape[1] and np.max(np.abs(r.reshape(-1) - want[0]) / np.maximum(1.0, np.abs(want[0]))) <= 1e-10:
            out[t] = ("ok", {})  # the value does not depend on the batched parameters
        else:
            out[t] = ("shape", {"result_shape": list(r.shape), "sample_shape": list(ss), "per_slice_size": int(want.shape[1]), "got": r.reshape(-1)[:6].tolist(), "per_slice": want.reshape(-1)[:6].tolist()})
    return out


def classes(c):
    e = c["entry"]
    if e in ("dist", "dist2"):
        return e
    like = c["like"]
    if e == "like":
        return "like:%s:%s:%s:%s" % (like["model"]["name"], like["site"]["kind"], like["tree"]["kind"], like["tree"].get("clock", {}).get("kind", "none"))
    if e == "coal":
        return "coal:%s%s%s:%s" % (c["coal"], ":soft" if (c["coal"] == "skygrid" and c.get("temperature")) else "",
                                     ":gmrf_tree" if (c["coal"] == "skyride" and c.get("gmrf") and c.get("gmrf_tree")) else "", like["tree"]["kind"])
    if e == "bdsk":
        return "bdsk:%s:m%d:%s%s" % (like["tree"]["kind"], len(c["bd"]["R"]), c["bd"]["rho"], ":constant" if c["bd"].get("constant") else "")
    return "prior:%s" % like["tree"]["kind"]


# which kind of component owns a batchable leaf (for the root-cause tag of joint failures)
def leaf_owner(lid):
    if lid == "gmrf.precision" or lid in ("gprec", "gfield"):
        return "GMRF"
    if lid in ("mx", "mloc", "mtril"):
        return "MultivariateNormal"
    if lid in ("nx", "loc", "scale", "lx", "lloc", "lscale", "gx", "gconc", "grate", "hrate", "dx", "dconc", "ix", "iconc", "irate", "ox", "pconc", "prate"):
        return "Distribution"
    return "other"


def body(c):
    spec, dom, targets = build_spec(c)
    leaves = sorted(dom)
    bits = c["subset_bits"]
    batched = [l for i, l in enumerate(leaves) if (bits >> (i % 12)) & 1]
    if not batched:
        batched = [leaves[bits % len(leaves)]]
    ss = c["ss"]
    cls = classes(c)
    proper = len(batched) < len(leaves)
    res = Res(nontrivial=proper or len(ss) == 2 or ss[0] in (4, 5, 2), key=(cls, batched, ss), tags={"entry": c["entry"], "cls": cls.split(":")[0]})
    out = run_subset(c, spec, dom, targets, batched)
    labels = [c["entry"], "ss%d" % len(ss), "proper_subset" if proper else "all_batched", "mode_" + c.get("eval_mode", "fresh")]
    for t, (status, detail) in out.items():
        labels.append("%s:%s" % (c["entry"], status))
        if status in ("wrong", "shape"):
            # reduce to a minimal failing subset so that one root cause is one bucket
            minimal = list(batched)
            changed = True
            while changed and len(minimal) > 1:
                changed = False
                for x in list(minimal):
                    trial = [y for y in minimal if y != x]
                    o2 = run_subset(c, spec, dom, [t], trial)
                    if o2[t][0] in ("wrong", "shape"):
                        minimal = trial
                        detail = o2[t][1]
                        status = o2[t][0]
                        changed = True
                        break
            detail.update(target=t, batched=minimal, classes=cls, sample_shape=ss)
            tcls = t if c["entry"] == "dist" else t
            res.fail("wrong_number" if status == "wrong" else "wrong_shape", detail, target=t, batched=sorted(minimal), bucket="%s[%s]%s" % (tcls, "+".join(sorted(minimal)), "" if c.get("eval_mode", "fresh") == "fresh" else ":" + c["eval_mode"]), eval_mode=c.get("eval_mode", "fresh"),
                     unbatched=sorted(set(leaves) - set(minimal)), ss_len=len(ss), model=cls, scalar_result=detail.get("result_shape") == [],
                     owners="+".join(sorted({leaf_owner(x) for x in minimal})))
    res.labels = tuple(labels)
    return res


def pretags(c):
    return {"entry": c["entry"]}


# ------------------------------------------------------------------ every subset of a fixed instance per entry
def subset_cases(tier):
    from hypothesis import HealthCheck, Phase, given, seed, settings
    import os

    sd = int(os.environ.get("VERIF_SEED", "1") or 1)
    out = []
    for e in ["like", "coal", "bdsk", "dist", "prior"]:
        reps = 2 if tier == "quick" else 8
        for rep in range(reps):
            out.append({"entry": e, "k": sd * 1000 + rep * 17 + len(e)})
    # fixed instances whose interesting subsets are rare in the random draw: the time-aware smoothing prior needs the
    # field and the heights batched together
    out.append({"entry": "coal", "k": sd * 1000 + 5, "force": {"coal": "skyride", "gmrf": True, "gmrf_tree": True, "ss": [3]}})
    out.append({"entry": "coal", "k": sd * 1000 + 6, "force": {"coal": "skygrid", "gmrf": True, "temperature": 0.5, "ss": [2, 3]}})
    return out


def expand_subsets(tc):
    from hypothesis import HealthCheck, Phase, given, seed, settings

    box = []

    @seed(tc["k"])
    @settings(max_examples=4, database=None, deadline=None, phases=[Phase.generate], suppress_health_check=list(HealthCheck))
    @given(zoo_case(entry=tc["entry"]))
    def draw(c):
        box.append(c)

    draw()
    c = box[-1]
    c.update(tc.get("force", {}))
    if "ss" in tc.get("force", {}):
        nS = int(np.prod(c["ss"]))
        c["u"] = (c["u"] * nS)[:nS] if len(c["u"]) < nS else c["u"][:nS]
        # distinct rows for the samples
        c["u"] = [[(x + 0.137 * k) % 0.998 + 0.001 for x in row] for k, row in enumerate(c["u"])]
    c["all_subsets"] = True
    return c


def subsets_body(c):
    spec, dom, targets = build_spec(c)
    leaves = sorted(dom)[:7]
    cls = classes(c)
    res = Res(nontrivial=True, tags={"entry": c["entry"], "cls": cls.split(":")[0]})
    keys = []
    counts = {}
    n = 0
    for r in range(1, len(leaves) + 1):
        for sub in itertools.combinations(leaves, r):
            n += 1
            out = run_subset(c, spec, dom, targets, list(sub))
            keys.append((cls, list(sub), c["ss"]))
            for t, (status, detail) in out.items():
                counts["%s:%s" % (c["entry"], status)] = counts.get("%s:%s" % (c["entry"], status), 0) + 1
                if status in ("wrong", "shape"):
                    # minimal by construction: report only if no proper sub-subset already failed for this target
                    detail.update(target=t, batched=list(sub), classes=cls, sample_shape=c["ss"])
                    if not any(f.tags.get("target") == t and set(f.tags["batched"]) <= set(sub) for f in res.fails):
                        res.fail("wrong_number" if status == "wrong" else "wrong_shape", detail, target=t, batched=sorted(sub), bucket="%s[%s]" % (t, "+".join(sorted(sub))),
                                 unbatched=sorted(set(leaves) - set(sub)), ss_len=len(c["ss"]), model=cls, scalar_result=detail.get("result_shape") == [],
                                 owners="+".join(sorted({leaf_owner(x) for x in sub})))
    res.evals = n
    res.keys = keys
    res.labels = counts
    return res


def subchecks(tier):
    return [
        Sub("random", body, strategy=zoo_case, quick=1500, thorough=60000, pretags=pretags, raising_is_failure=False),
        Sub("all_subsets", subsets_body, enumerate=subset_cases, expand=expand_subsets, exhaustive=False, pretags=pretags, raising_is_failure=False),
    ]
