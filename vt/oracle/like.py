"""Reference tree likelihoods (numpy / scipy / mpmath only, no torchtree import).

brute_loglik   literally the sum the property states: over every assignment of states to the
               internal nodes and every rate category, of root frequency x branch transition
               probabilities x tip compatibility.
prune_loglik   Felsenstein pruning with per-node log scalers (extended range); audited against
               brute_loglik in every C01 run.
"""
import itertools
import math

import numpy as np
from scipy.linalg import expm

NUC = "ACGT"
IUPAC = {
    "A": "A", "C": "C", "G": "G", "T": "T", "U": "T",
    "R": "AG", "Y": "CT", "M": "AC", "W": "AT", "S": "CG", "K": "GT",
    "B": "CGT", "D": "AGT", "H": "ACT", "V": "ACG",
    "N": "ACGT", "?": "ACGT", "-": "ACGT",
}
AA = "ACDEFGHIKLMNPQRSTVWY"
AA_AMB = {"B": "DN", "Z": "EQ", "X": AA, "*": AA, "?": AA, "-": AA}

GENETIC_CODES = {
    # standard NCBI-style tables in the order AAA AAC AAG AAT ACA ... TTT (A,C,G,T), '*' = stop
    "Universal": "KNKNTTTTRSRSIIMIQHQHPPPPRRRRLLLLEDEDAAAAGGGGVVVV*Y*YSSSS*CWCLFLF",
    "Vertebrate Mitochondrial": "KNKNTTTT*S*SMIMIQHQHPPPPRRRRLLLLEDEDAAAAGGGGVVVV*Y*YSSSSWCWCLFLF",
    "Yeast": "KNKNTTTTRSRSMIMIQHQHPPPPRRRRTTTTEDEDAAAAGGGGVVVV*Y*YSSSSWCWCLFLF",
    "Invertebrate Mitochondrial": "KNKNTTTTSSSSMIMIQHQHPPPPRRRRLLLLEDEDAAAAGGGGVVVV*Y*YSSSSWCWCLFLF",
    "No stops": "KNKNTTTTRSRSIIMIQHQHPPPPRRRRLLLLEDEDAAAAGGGGVVVVYYQYSSSSWCWCLFLF",
}


def sense_codons(code):
    table = GENETIC_CODES[code]
    trip = ["".join(t) for t in itertools.product(NUC, repeat=3)]
    return [t for t, a in zip(trip, table) if a != "*"]


def tip_vector(datatype, symbol, mode, dt_info=None):
    """0/1 compatibility vector of one alignment symbol.

    mode 'amb': ambiguity codes stand for the union of their states;
    mode 'noamb' / 'states': every symbol that is not a plain state is missing (all ones)."""
    if datatype == "nucleotide":
        s = symbol.upper()
        if mode == "amb":
            chars = IUPAC[s]
        else:
            chars = IUPAC[s] if s in "ACGTU" else NUC
        return np.array([1.0 if c in chars else 0.0 for c in NUC])
    if datatype == "aa":
        s = symbol.upper()
        if s in AA:
            chars = s
        elif mode == "amb":
            chars = AA_AMB[s]
        else:
            chars = AA
        return np.array([1.0 if c in chars else 0.0 for c in AA])
    if datatype == "codon":
        states = dt_info["states"]
        s = symbol.upper().replace("U", "T")
        if s in states:
            v = np.zeros(len(states))
            v[states.index(s)] = 1.0
            return v
        return np.ones(len(states))
    if datatype == "general":
        codes = dt_info["codes"]
        amb = dt_info.get("ambiguities", {})
        v = np.zeros(len(codes))
        if symbol in codes:
            v[codes.index(symbol)] = 1.0
        elif symbol in amb and mode == "amb":
            a = amb[symbol]
            for c in (a if isinstance(a, list) else [a]):
                v[codes.index(c)] = 1.0
        elif symbol in amb and not isinstance(amb[symbol], list):
            v[codes.index(amb[symbol])] = 1.0  # alias
        else:
            v[:] = 1.0
        return v
    raise ValueError(datatype)


# ------------------------------------------------------------------ rate matrices
def normalise(Q, pi):
    Q = np.array(Q, dtype=float)
    return Q / -np.sum(np.diag(Q) * pi)


def q_from_exchange(R, pi):
    """Q_ij = R_ij pi_j (i != j), rows sum to zero, one expected substitution per unit time"""
    R = np.array(R, dtype=float)
    Q = R * np.asarray(pi)[None, :]
    np.fill_diagonal(Q, 0.0)
    np.fill_diagonal(Q, -Q.sum(1))
    return normalise(Q, np.asarray(pi))


def q_model(m):
    """documented rate matrix of a model descriptor {'name':..., parameters...}; returns (Q, pi)"""
    name = m["name"]
    if name == "JC69":
        pi = np.full(4, 0.25)
        return q_from_exchange(np.ones((4, 4)), pi), pi
    if name == "GeneralJC69":
        k = m["k"]
        pi = np.full(k, 1.0 / k)
        return q_from_exchange(np.ones((k, k)), pi), pi
    if name == "HKY":
        pi = np.array(m["freqs"])
        kap = m["kappa"]
        R = np.ones((4, 4))
        R[0, 2] = R[2, 0] = R[1, 3] = R[3, 1] = kap
        return q_from_exchange(R, pi), pi
    if name == "GTR":
        pi = np.array(m["freqs"])
        a, b, c, d, e, f = m["rates"]  # AC AG AT CG CT GT
        R = np.array([[0, a, b, c], [a, 0, d, e], [b, d, 0, f], [c, e, f, 0]], float)
        return q_from_exchange(R, pi), pi
    if name == "GeneralSym":
        pi = np.array(m["freqs"])
        k = len(pi)
        R = np.zeros((k, k))
        iu = np.triu_indices(k, 1)  # upper triangle, row by row
        vals = np.array(m["rates"])[np.array(m["mapping"])]
        R[iu] = vals
        R.T[iu] = vals
        return q_from_exchange(R, pi), pi
    if name == "GeneralNonSym":
        pi = np.array(m["freqs"])
        k = len(pi)
        R = np.zeros((k, k))
        iu = np.triu_indices(k, 1)
        mp = np.array(m["mapping"])
        h = len(mp) // 2
        r = np.array(m["rates"])
        R[iu] = r[mp[:h]]  # first half: upper triangle
        R.T[iu] = r[mp[h:]]  # second half: lower triangle, transposed positions
        return q_from_exchange(R, pi), pi
    raise ValueError(name)


# ------------------------------------------------------------------ likelihoods
def _pmats(Q, bl, rate):
    return {v: expm(Q * (t * rate)) for v, t in bl.items()}


def brute_loglik(post, root, bl, tipvec, Q, pi, rates, probs, weights=None):
    """post: [(node,left,right)] post-order; bl: node -> length; tipvec: leaf -> [sites,k]"""
    k = len(pi)
    internals = [p[0] for p in post]
    idx = {v: j for j, v in enumerate(internals)}
    m = len(internals)
    A = np.indices((k,) * m).reshape(m, -1).T  # [M, m]
    sites = next(iter(tipvec.values())).shape[0]
    site = np.zeros(sites)
    for rate, prob in zip(rates, probs):
        P = _pmats(Q, bl, rate)
        w = np.repeat(pi[A[:, idx[root]]][:, None], sites, axis=1)
        for node, l, r in post:
            a_node = A[:, idx[node]]
            for ch in (l, r):
                if ch in idx:
                    w *= P[ch][a_node, A[:, idx[ch]]][:, None]
                else:
                    w *= (P[ch] @ tipvec[ch].T)[a_node, :]
        site += prob * w.sum(0)
    ll = np.log(site)
    if weights is not None:
        ll = ll * np.asarray(weights)
    return float(ll.sum()), ll


def prune_loglik(post, root, bl, tipvec, Q, pi, rates, probs, weights=None):
    sites = next(iter(tipvec.values())).shape[0]
    cat_ll = []
    for rate in rates:
        P = _pmats(Q, bl, rate)
        part = {v: t.T.copy() for v, t in tipvec.items()}  # [k, sites]
        logs = np.zeros(sites)
        for node, l, r in post:
            x = (P[l] @ part[l]) * (P[r] @ part[r])
            mx = x.max(0)
            mx = np.where(mx > 0, mx, 1.0)
            part[node] = x / mx
            logs = logs + np.log(mx)
        with np.errstate(divide="ignore"):
            cat_ll.append(np.log(pi @ part[root]) + logs)
    cat_ll = np.array(cat_ll)  # [K, sites]
    with np.errstate(divide="ignore"):
        lw = np.log(np.asarray(probs, dtype=float))[:, None]
    x = cat_ll + lw
    mx = x.max(0)
    ll = mx + np.log(np.exp(x - mx).sum(0))
    if weights is not None:
        ll = ll * np.asarray(weights)
    return float(ll.sum()), ll


def prune_loglik_mp(post, root, bl, tipvec, Q, pi, rates, probs, weights=None, dps=40, pmats=None):
    """same in mpmath arithmetic (no scaling needed); P(t) from mpmath.expm unless given"""
    import mpmath as mp

    mp.mp.dps = dps
    k = len(pi)
    sites = next(iter(tipvec.values())).shape[0]
    tot = [mp.mpf(0)] * sites
    Qm = mp.matrix(Q.tolist())
    for ci, (rate, prob) in enumerate(zip(rates, probs)):
        P = {}
        for v, t in bl.items():
            P[v] = pmats[ci][v] if pmats is not None else mp.expm(Qm * mp.mpf(t * rate))
        part = {v: [[mp.mpf(float(t[s, i])) for s in range(sites)] for i in range(k)] for v, t in tipvec.items()}
        for node, l, r in post:
            out = []
            for i in range(k):
                row = []
                for s in range(sites):
                    a = sum(P[l][i, j] * part[l][j][s] for j in range(k))
                    b = sum(P[r][i, j] * part[r][j][s] for j in range(k))
                    row.append(a * b)
                out.append(row)
            part[node] = out
        for s in range(sites):
            tot[s] += mp.mpf(prob) * sum(mp.mpf(pi[i]) * part[root][i][s] for i in range(k))
    ll = [mp.log(x) for x in tot]
    if weights is not None:
        ll = [a * w for a, w in zip(ll, weights)]
    return float(sum(ll)), [float(x) for x in ll]
