"""C13, json_factory clause: the output of every json_factory helper loads into an object that
evaluates like the directly constructed one (used by vt/props/c13.py)."""
import numpy as np
import torch
from hypothesis import strategies as st

from vt import tt
from vt.cmp import arr
from vt.gen.basic import fl, logu
from vt.runner import Res, guarded

HELPERS = [
    "Parameter", "ViewParameter", "Distribution", "BayesianBridge", "DeterministicNormal", "ScaleMixtureNormal",
    "CTMCScale", "SimpleClockModel", "UnRootedTreeModel", "TimeTreeModel", "ReparameterizedTimeTreeModel", "FlexibleTimeTreeModel",
]
NAMES = ["A", "B_2", "C", "D", "E1"]


def _vals(draw, s, n):
    return [draw(s) for _ in range(n)]


@st.composite
def cases(draw):
    h = draw(st.sampled_from(HELPERS))
    c = {"helper": h, "torch_seed": draw(st.integers(0, 2**31 - 1)), "ref": draw(st.booleans())}
    n = draw(st.integers(1, 4))
    c["n"] = n
    if h == "Parameter":
        c["variant"] = draw(st.sampled_from(["tensor", "full", "full_like", "zeros", "zeros_like", "ones", "ones_like", "eye", "eye_like"]))
        c["values"] = _vals(draw, fl(-5.0, 5.0), n)
        c["fill"] = draw(fl(-5.0, 5.0))
        c["size"] = draw(st.one_of(st.lists(st.integers(1, 3), min_size=1, max_size=2)))
        c["dtype"] = draw(st.sampled_from([None, "torch.float64", "torch.float32"]))
        c["device"] = draw(st.sampled_from([None, "cpu"]))
    elif h == "ViewParameter":
        m = n + draw(st.integers(0, 2))
        a = draw(st.integers(0, m - n))
        c["values"] = _vals(draw, fl(-5.0, 5.0), m)
        forms = ["%d:%d" % (a, a + n), a]
        if n == m:
            forms += ["::-1", ":"]
        if a + n == m:
            forms.append("%d:" % a)
        c["indices"] = draw(st.sampled_from(forms))
    elif h == "Distribution":
        k = draw(st.sampled_from(["Normal", "LogNormal", "Gamma", "Exponential", "Cauchy", "Laplace"]))
        c["dist"] = k
        pos = k in ("LogNormal", "Gamma", "Exponential")
        c["x"] = _vals(draw, logu(0.05, 20.0) if pos else fl(-3.0, 3.0), n)
        args = {"Normal": ["loc", "scale"], "LogNormal": ["loc", "scale"], "Cauchy": ["loc", "scale"], "Laplace": ["loc", "scale"], "Gamma": ["concentration", "rate"], "Exponential": ["rate"]}[k]
        c["params"] = {a: _vals(draw, fl(-3.0, 3.0) if a == "loc" else logu(0.05, 20.0), draw(st.sampled_from([1, n]))) for a in args}
        c["no_parameters"] = False
    elif h == "BayesianBridge":
        c["x"] = _vals(draw, fl(-3.0, 3.0), n)
        c["scale"] = _vals(draw, logu(0.05, 20.0), 1)
        c["alpha"] = _vals(draw, logu(0.1, 2.0), 1)
        c["number"] = draw(st.booleans())
    elif h == "DeterministicNormal":
        c["x"] = _vals(draw, fl(-3.0, 3.0), n)
        c["loc"] = _vals(draw, fl(-3.0, 3.0), n)
        c["scale"] = _vals(draw, logu(0.05, 20.0), n)
        c["shape"] = draw(st.lists(st.integers(1, 3), min_size=0, max_size=1))
    elif h == "ScaleMixtureNormal":
        c["x"] = _vals(draw, fl(-3.0, 3.0), n)
        c["loc"] = draw(fl(-3.0, 3.0))
        c["loc_number"] = draw(st.booleans())
        c["global"] = _vals(draw, logu(0.05, 20.0), 1)
        c["local"] = _vals(draw, logu(0.05, 20.0), n)
        c["slab"] = draw(st.one_of(st.none(), st.lists(logu(0.05, 20.0), min_size=1, max_size=1)))
    else:
        nt = draw(st.integers(3, 4))
        c["ntaxa"] = nt
        c["taxa_form"] = draw(st.sampled_from(["dict", "list", "ref"]))
        c["dates"] = [0.0] + _vals(draw, st.sampled_from([0.0, 0.5, 1.0, 2.0]), nt - 1)
        c["param_form"] = draw(st.sampled_from(["list", "dict", "ref"]))
        h_, cur = [], 2.0
        for _ in range(nt - 1):
            cur += draw(fl(0.1, 3.0))
            h_.append(cur)
        c["heights"] = h_
        c["blens"] = _vals(draw, logu(0.01, 5.0), 2 * nt - 2)
        c["ratios"] = _vals(draw, fl(0.05, 0.95), nt - 2)
        c["shifts"] = _vals(draw, logu(0.05, 3.0), nt - 1)
        c["use_shifts"] = draw(st.booleans())
        c["keep"] = draw(st.booleans())
        c["rate"] = _vals(draw, logu(0.01, 10.0), 1)
        c["rates"] = _vals(draw, logu(0.01, 10.0), 2 * nt - 2)
    return c


def pretags(c):
    return {"cls": c["helper"], "variant": str(c.get("variant", c.get("dist", "")))}


def T(v, dtype=None):
    return torch.tensor(v, dtype=dtype or torch.get_default_dtype())


def P(id_, v):
    return {"id": id_, "type": "Parameter", "tensor": v}


def observe(obj):
    from torchtree.core.abstractparameter import AbstractParameter
    from torchtree.core.model import CallableModel

    out = {}
    if isinstance(obj, AbstractParameter):
        t = obj.tensor
        out["tensor"] = arr(t)
        out["dtype"] = str(t.dtype)
        out["shape"] = list(t.shape)
    if hasattr(obj, "branch_lengths"):
        out["blens"] = arr(obj.branch_lengths())
    if hasattr(obj, "node_heights"):
        out["heights"] = arr(obj.node_heights)
    if isinstance(obj, CallableModel):
        out["call"] = arr(obj())
    if type(obj).__name__.endswith("ClockModel"):
        out["rates"] = arr(obj.rates)
    return out


def _newick(names, blens=None):
    n = len(names)
    lab = lambda i: names[i] + (":%r" % blens[i] if blens else "")  # noqa
    s = "(%s,%s)" % (lab(0), lab(1))
    for k in range(2, n):
        s = "(%s%s,%s)" % (s, (":%r" % blens[n + k - 2]) if blens else "", lab(k))
    return s + ";"


def _taxa_arg(c, dated):
    names = NAMES[: c["ntaxa"]]
    form = c["taxa_form"]
    taxon = lambda n, d: dict({"id": n, "type": "Taxon"}, **({"attributes": {"date": d}} if dated else {}))  # noqa
    prelude = []
    if form == "dict":
        arg = {n: d for n, d in zip(names, c["dates"])}
    elif form == "list":
        arg = [taxon(n, d) for n, d in zip(names, c["dates"])]
    else:
        prelude.append({"id": "taxa", "type": "Taxa", "taxa": [taxon(n, d) for n, d in zip(names, c["dates"])]})
        arg = "taxa"
    return names, arg, prelude


def _direct_taxa(c, dated):
    from torchtree.evolution.taxa import Taxa, Taxon

    names = NAMES[: c["ntaxa"]]
    return Taxa("taxa", [Taxon(n, {"date": d} if dated else {}) for n, d in zip(names, c["dates"])])


def _param_arg(c, id_, values, prelude):
    form = c["param_form"]
    if form == "list":
        return list(values)
    if form == "dict":
        return P(id_, list(values))
    prelude.append(P(id_, list(values)))
    return id_


def build(c):
    """(specification as a top-level list, id of the object under test, function that constructs
    the same object directly)"""
    tt.load_all()
    from torchtree import Parameter, ViewParameter
    from torchtree.evolution.tree_model import parse_tree, initialize_dates_from_taxa

    h = c["helper"]
    n = c["n"]
    if h == "Parameter":
        v = c["variant"]
        kw = {}
        prelude = []
        like = v.endswith("_like")
        if like:
            if v == "eye_like":
                base = [[0.0] * c["size"][-1] for _ in range(c["size"][0])]
            else:
                base = list(c["values"])
            if c["ref"]:
                prelude.append(P("base", base))
                kw[v] = "base"
            else:
                kw[v] = P("base", base)
        elif v == "tensor":
            kw["tensor"] = list(c["values"])
        elif v == "eye":
            kw["eye"] = c["size"][0]
        else:
            kw[v] = list(c["size"])
        if v in ("full", "full_like"):
            kw["tensor"] = c["fill"]
        dt = None
        if c["dtype"] and not like:
            kw["dtype"] = c["dtype"]
            dt = getattr(torch, c["dtype"].split(".")[1])
        if c["device"]:
            kw["device"] = c["device"]
        spec = prelude + [Parameter.json_factory("p", **kw)]

        def direct():
            if v == "tensor":
                t = torch.tensor(c["values"], dtype=dt)
            elif v == "full":
                t = torch.full(c["size"], c["fill"], dtype=dt)
            elif v == "zeros":
                t = torch.zeros(c["size"], dtype=dt)
            elif v == "ones":
                t = torch.ones(c["size"], dtype=dt)
            elif v == "eye":
                t = torch.eye(c["size"][0], dtype=dt)
            elif v == "eye_like":
                t = torch.eye(c["size"][0], c["size"][-1])
            else:
                b = T(c["values"])
                t = {"full_like": lambda: torch.full_like(b, c["fill"]), "zeros_like": lambda: torch.zeros_like(b), "ones_like": lambda: torch.ones_like(b)}[v]()
            return Parameter("p", t)

        return spec, "p", direct
    if h == "ViewParameter":
        x = "base" if c["ref"] else P("base", c["values"])
        spec = ([P("base", c["values"])] if c["ref"] else []) + [ViewParameter.json_factory("v", x, c["indices"])]

        def direct():
            idx = c["indices"]
            if isinstance(idx, str):
                idx = slice(*[int(s) if s != "" else None for s in idx.split(":")])
            base = T(c["values"])
            if isinstance(idx, slice) and idx.step is not None and idx.step < 0:
                idx = torch.tensor(list(range(len(c["values"])))[idx])  # torch cannot slice with a negative step
            return ViewParameter("v", Parameter("base", base), idx)

        return spec, "v", direct
    if h == "Distribution":
        from torchtree.distributions.distributions import Distribution

        x = "x" if c["ref"] else P("x", c["x"])
        prelude = [P("x", c["x"])] if c["ref"] else []
        params = {a: P("p." + a, v) for a, v in c["params"].items()}
        spec = prelude + [Distribution.json_factory("d", "torch.distributions." + c["dist"], x, params)]

        def direct():
            return Distribution("d", getattr(torch.distributions, c["dist"]), Parameter("x", T(c["x"])), {a: Parameter("p." + a, T(v)) for a, v in c["params"].items()})

        return spec, "d", direct
    if h == "BayesianBridge":
        from torchtree.distributions.bayesian_bridge import BayesianBridge

        x = "x" if c["ref"] else P("x", c["x"])
        prelude = [P("x", c["x"])] if c["ref"] else []
        if c["number"]:
            spec = prelude + [BayesianBridge.json_factory("bb", x, c["scale"][0], c["alpha"][0])]
        else:
            spec = prelude + [BayesianBridge.json_factory("bb", x, P("scale", c["scale"]), P("alpha", c["alpha"]))]

        def direct():
            if c["number"]:
                return BayesianBridge("bb", Parameter("x", T(c["x"])), T(c["scale"][0]), T(c["alpha"][0]))
            return BayesianBridge("bb", Parameter("x", T(c["x"])), Parameter("scale", T(c["scale"])), Parameter("alpha", T(c["alpha"])))

        return spec, "bb", direct
    if h == "DeterministicNormal":
        from torchtree.distributions.deterministic_normal import DeterministicNormal

        x = "x" if c["ref"] else P("x", c["x"])
        prelude = [P("x", c["x"])] if c["ref"] else []
        spec = prelude + [DeterministicNormal.json_factory("dn", P("loc", c["loc"]), P("scale", c["scale"]), x, c["shape"])]

        def direct():
            return DeterministicNormal("dn", Parameter("loc", T(c["loc"])), Parameter("scale", T(c["scale"])), Parameter("x", T(c["x"])), torch.Size(c["shape"]))

        return spec, "dn", direct
    if h == "ScaleMixtureNormal":
        from torchtree.distributions.scale_mixture import ScaleMixtureNormal

        x = "x" if c["ref"] else P("x", c["x"])
        prelude = [P("x", c["x"])] if c["ref"] else []
        loc = c["loc"] if c["loc_number"] else P("loc", [c["loc"]])
        slab = None if c["slab"] is None else P("slab", c["slab"])
        spec = prelude + [ScaleMixtureNormal.json_factory("sm", x, loc, P("gs", c["global"]), P("ls", c["local"]), slab)]

        def direct():
            return ScaleMixtureNormal(
                "sm", Parameter("x", T(c["x"])), c["loc"] if c["loc_number"] else Parameter("loc", T([c["loc"]])),
                Parameter("gs", T(c["global"])), Parameter("ls", T(c["local"])), None if c["slab"] is None else Parameter("slab", T(c["slab"])),
            )

        return spec, "sm", direct

    # ---- trees and what hangs on them
    from torchtree.evolution.tree_model import ReparameterizedTimeTreeModel, TimeTreeModel, UnRootedTreeModel
    from torchtree.evolution.tree_model_flexible import FlexibleTimeTreeModel

    nt = c["ntaxa"]
    timed = h != "UnRootedTreeModel"
    names, taxa_arg, prelude = _taxa_arg(c, timed)
    keep = c["keep"] and h == "UnRootedTreeModel"
    newick = _newick(names, c["blens"] if keep else None)
    kw = {"taxa_id": "taxa"}
    if keep:
        kw["keep_branch_lengths"] = True

    def dtree():
        taxa = _direct_taxa(c, timed)
        tree = parse_tree(taxa, {"newick": newick})
        if timed:
            initialize_dates_from_taxa(tree, taxa)
        return tree, taxa

    def time_tree_spec(cls, id_="tree"):
        kw2 = dict(kw, internal_heights_id="heights")
        return cls.json_factory(id_, newick, _param_arg(c, "heights", c["heights"], prelude), taxa_arg, **kw2)

    def time_tree_direct(cls, id_="tree"):
        tree, taxa = dtree()
        return cls(id_, tree, taxa, Parameter("heights", T(c["heights"])))

    if h == "UnRootedTreeModel":
        m = 2 * nt - 3
        bl = c["blens"][:m]
        kw["branch_lengths_id"] = "bl"
        spec_obj = UnRootedTreeModel.json_factory("tree", newick, _param_arg(c, "bl", bl, prelude), taxa_arg, **kw)

        def direct():
            tree, taxa = dtree()
            v = list(bl)
            if keep:
                # lengths as written in the newick; the two branches at the root are merged and the
                # last node (always a child of the root) is dropped (DESIGN A.1)
                w = list(c["blens"])
                v = w[: 2 * nt - 2]
                a, b = nt - 1, 2 * nt - 3  # the root's children: last leaf and last internal node
                s = w[a] + w[b]
                v[a] = s
                v[b] = s
                v = v[:-1]
            return UnRootedTreeModel("tree", tree, taxa, Parameter("bl", T(v)))

        return prelude + [spec_obj], "tree", direct
    if h in ("TimeTreeModel", "FlexibleTimeTreeModel"):
        cls = TimeTreeModel if h == "TimeTreeModel" else FlexibleTimeTreeModel
        spec_obj = time_tree_spec(cls)
        return prelude + [spec_obj], "tree", lambda: time_tree_direct(cls)
    if h == "ReparameterizedTimeTreeModel":
        from torchtree import CatParameter

        if c["use_shifts"]:
            spec_obj = ReparameterizedTimeTreeModel.json_factory("tree", newick, taxa_arg, shifts=_param_arg(c, "shifts", c["shifts"], prelude), shifts_id="shifts", **kw)
        else:
            rh = [c["heights"][-1]]
            spec_obj = ReparameterizedTimeTreeModel.json_factory(
                "tree", newick, taxa_arg, ratios=_param_arg(c, "ratios", c["ratios"], prelude), root_height=_param_arg(c, "root_height", rh, prelude),
                ratios_id="ratios", root_height_id="root_height", **kw)

        def direct():
            tree, taxa = dtree()
            if c["use_shifts"]:
                return ReparameterizedTimeTreeModel("tree", tree, taxa, shifts=Parameter("shifts", T(c["shifts"])))
            p = CatParameter(None, [Parameter("ratios", T(c["ratios"])), Parameter("root_height", T([c["heights"][-1]]))], dim=-1)
            return ReparameterizedTimeTreeModel("tree", tree, taxa, p)

        return prelude + [spec_obj], "tree", direct
    if h == "CTMCScale":
        from torchtree.distributions.ctmc_scale import CTMCScale

        tree_spec = time_tree_spec(TimeTreeModel)
        if c["ref"]:
            spec = prelude + [tree_spec, CTMCScale.json_factory("ctmc", P("rate", c["rate"]), "tree")]
        else:
            spec = prelude + [CTMCScale.json_factory("ctmc", P("rate", c["rate"]), tree_spec)]
        return spec, "ctmc", lambda: CTMCScale("ctmc", Parameter("rate", T(c["rate"])), time_tree_direct(TimeTreeModel))
    if h == "SimpleClockModel":
        from torchtree.evolution.branch_model import SimpleClockModel

        tree_spec = time_tree_spec(TimeTreeModel)
        if c["ref"]:
            spec = prelude + [tree_spec, SimpleClockModel.json_factory("clock", "tree", P("rates", c["rates"]))]
        else:
            spec = prelude + [SimpleClockModel.json_factory("clock", tree_spec, P("rates", c["rates"]))]
        return spec, "clock", lambda: SimpleClockModel("clock", Parameter("rates", T(c["rates"])), time_tree_direct(TimeTreeModel))
    raise ValueError(h)


def body(c):
    from vt.props.c13 import load

    torch.manual_seed(c["torch_seed"])
    spec, target, direct = build(c)
    res = Res(
        nontrivial=True,
        key=(c["helper"], {k: ([round(x, 6) if isinstance(x, float) else x for x in v] if isinstance(v, list) else v) for k, v in c.items() if k != "torch_seed"}),
        labels=(c["helper"], "by_reference" if c.get("ref") else "inline"),
        tags=pretags(c),
    )
    want_obj, exc = guarded(direct)
    if exc is not None:
        # the constructor itself rejects the arguments: nothing to compare with
        res.labels += ("direct_construction_raises",)
        res.nontrivial = False
        return res
    dic, exc = load(spec)
    if exc is not None:
        return res.fail("factory_output_rejected:" + type(exc).__name__, {"message": str(exc)[:300], "spec": spec})
    got, e1 = guarded(observe, dic[target])
    want, e2 = guarded(observe, want_obj)
    if e2 is not None:
        res.labels += ("direct_evaluation_raises",)
        res.nontrivial = False
        return res
    if e1 is not None:
        return res.fail("evaluation_raises:" + type(e1).__name__, {"message": str(e1)[:300], "spec": spec})
    if type(dic[target]) is not type(want_obj):
        return res.fail("class", {"loaded": type(dic[target]).__name__, "direct": type(want_obj).__name__, "spec": spec})
    for k in want:
        a, b = got.get(k), want[k]
        if isinstance(b, (str, list)):
            ok = a == b
        else:
            ok = a is not None and a.shape == b.shape and bool(np.all(np.abs(a - b) <= 1e-12 * np.maximum(1.0, np.abs(b))))
        if not ok:
            return res.fail("value", {"output": k, "loaded": a, "direct": b, "spec": spec})
    return res
