"""Own small rooted-binary-tree representation (no dendropy) + Hypothesis strategies.

A topology is encoded JSON-ably as an insertion sequence `ins` (leaf k >= 2 is inserted on
edge ins[k-2] in 0 .. 2k-2 of the tree built so far; the last index is the root edge), which
enumerates every labelled rooted binary tree exactly once: (2n-3)!! sequences for n leaves.
Leaf labels are *taxon indices* (position in the Taxa list), optionally permuted by `perm`,
children optionally swapped by `swaps`.

Numbering follows the documented convention (DESIGN A.1): leaf index = position of its taxon
in the Taxa list; internal nodes n .. 2n-2 in post-order, children visited left to right as
written in the newick; the root is 2n-2.
"""
import itertools

from hypothesis import strategies as st


def nested_from_ins(ins, perm=None, swaps=None):
    """nested lists of leaf labels"""
    n = len(ins) + 2
    # nodes as mutable lists [left, right] or int leaf
    root = [0, 1]
    for k, e in enumerate(ins, start=2):
        # enumerate edges (= nodes) of the current tree in a fixed (pre-order) order; last = root edge
        nodes = []  # (parent, slot)

        def walk(node, parent, slot):
            nodes.append((parent, slot))
            if isinstance(node, list):
                walk(node[0], node, 0)
                walk(node[1], node, 1)

        walk(root, None, None)
        # move the root edge to the end so that index 2k-2 is "above the root"
        order = nodes[1:] + nodes[:1]
        parent, slot = order[e]
        if parent is None:
            root = [root, k]
        else:
            parent[slot] = [parent[slot], k]
    if perm is not None:
        def relabel(node):
            if isinstance(node, list):
                return [relabel(node[0]), relabel(node[1])]
            return perm[node]

        root = relabel(root)
    if swaps is not None:
        it = iter(swaps)

        def sw(node):
            if isinstance(node, list):
                a, b = sw(node[0]), sw(node[1])
                return [b, a] if next(it, False) else [a, b]
            return node

        root = sw(root)
    return root


class Topo:
    """indexed view of a nested topology"""

    def __init__(self, nested):
        self.nested = nested
        self.children = {}
        self.parent = {}
        self.post = []  # (node, left, right) in post-order
        # iterative post-order (caterpillars with thousands of taxa exceed the recursion limit)
        n = 0
        stack = [nested]
        while stack:
            x = stack.pop()
            if isinstance(x, list):
                stack.append(x[0]); stack.append(x[1])
            else:
                n += 1
        self.n = n
        nxt = n
        ids = {}  # id(list object) -> node number
        stack = [(nested, False)]
        while stack:
            x, done = stack.pop()
            if not isinstance(x, list):
                continue
            if not done:
                stack.append((x, True))
                stack.append((x[1], False))
                stack.append((x[0], False))
            else:
                l = ids[id(x[0])] if isinstance(x[0], list) else x[0]
                r = ids[id(x[1])] if isinstance(x[1], list) else x[1]
                i = nxt
                nxt += 1
                ids[id(x)] = i
                self.children[i] = (l, r)
                self.parent[l] = i
                self.parent[r] = i
                self.post.append((i, l, r))
        self.root = ids[id(nested)] if isinstance(nested, list) else nested

    def clades(self):
        """canonical form: frozenset of frozensets of leaf labels below each internal node"""
        below = {}
        for i in range(self.n):
            below[i] = frozenset([i])
        for node, l, r in self.post:
            below[node] = below[l] | below[r]
        return frozenset(below[i] for i in self.children)

    def newick(self, names, lengths=None, fmt="%r", trifurcate=False):
        """lengths: dict node -> branch length above that node (absent: no lengths);
        trifurcate: write the root as a trifurcation (one internal child of the root is
        dissolved and its branch added to the other root child's branch)"""
        if trifurcate:
            l, r = self.children[self.root]
            tgt = r if r in self.children else l
            other = l if tgt == r else r
            a, b = self.children[tgt]
            ln = None
            if lengths is not None:
                ln = dict(lengths)
                ln[other] = lengths[other] + lengths[tgt]
            order = [other, a, b] if tgt == r else [a, b, other]
            return "(" + ",".join(self._w(x, names, ln, fmt) for x in order) + ");"
        l, r = self.children[self.root]
        return "(" + self._w(l, names, lengths, fmt) + "," + self._w(r, names, lengths, fmt) + ");"

    def _w(self, i, names, lengths, fmt):
        """newick of the subtree below node i (iterative)"""
        out = []
        stack = [("open", i)]
        while stack:
            what, v = stack.pop()
            if what == "txt":
                out.append(v)
                continue
            if what == "close":
                if lengths is not None:
                    out.append(":" + (fmt % lengths[v]))
                continue
            if v in self.children:
                l, r = self.children[v]
                out.append("(")
                stack.append(("close", v))
                stack.append(("txt", ")"))
                stack.append(("open", r))
                stack.append(("txt", ","))
                stack.append(("open", l))
            else:
                out.append(names[v])
                if lengths is not None:
                    out.append(":" + (fmt % lengths[v]))
        return "".join(out)


def all_ins(n):
    """every labelled rooted binary topology on n leaves, as insertion sequences"""
    return [list(t) for t in itertools.product(*[range(2 * k - 1) for k in range(2, n)])]


@st.composite
def ins_strategy(draw, n, shape=None):
    """random insertion sequence; shape knob: 'cat' (caterpillar), 'bal' (balanced-ish), None uniform"""
    if shape is None:
        shape = draw(st.sampled_from(["uni", "uni", "cat", "bal"]))
    out = []
    for k in range(2, n):
        hi = 2 * k - 2
        if shape == "cat":
            out.append(hi)  # always above the root
        elif shape == "bal":
            out.append(draw(st.integers(0, hi)) if k % 2 else min(hi, (k * 7) % (hi + 1)))
        else:
            out.append(draw(st.integers(0, hi)))
    return out


@st.composite
def topology(draw, nmin=3, nmax=8, shape=None):
    """{'ins':..., 'perm':..., 'swaps':...}"""
    n = draw(st.integers(nmin, nmax))
    ins = draw(ins_strategy(n, shape))
    perm = draw(st.permutations(list(range(n))))
    swaps = draw(st.lists(st.booleans(), min_size=n - 1, max_size=n - 1))
    return {"ins": ins, "perm": list(perm), "swaps": swaps}


def topo_of(t):
    return Topo(nested_from_ins(t["ins"], t.get("perm"), t.get("swaps")))


NAME_POOL = ["A", "B_1", "C", "taxon_D", "E", "F_x", "G", "H", "I9", "J", "K_k", "L", "M", "N_", "O", "P", "Q", "R", "S", "T_t"]


def names_for(n):
    if n <= len(NAME_POOL):
        return NAME_POOL[:n]
    return NAME_POOL + ["t%d" % i for i in range(len(NAME_POOL), n)]
