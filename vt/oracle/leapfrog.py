"""Reference leapfrog and closed-form toy targets (numpy only, no torchtree import).

The integrator is the textbook one ("half step - full steps - half step"):

    p <- p + eps/2 * grad(q)
    repeat L times:  q <- q + eps * M^-1 p ;  p <- p + eps * grad(q)   (eps/2 on the last one)

`grad` is the gradient of the log density.  `minv` is a vector (diagonal) or a matrix.
"""
import math

import numpy as np


def apply_minv(minv, p):
    minv = np.asarray(minv, dtype=float)
    if minv.ndim == 1:
        return minv * p
    return minv @ p


def kinetic(p, minv):
    p = np.asarray(p, dtype=float)
    return 0.5 * float(p @ apply_minv(minv, p))


def invert_mass(mass):
    mass = np.asarray(mass, dtype=float)
    if mass.ndim == 1:
        return 1.0 / mass
    return np.linalg.inv(mass)


def _signs(d, k):
    s = np.ones(d)
    s[(np.arange(d) + k) % 2 == 1] = -1.0
    return s


def leapfrog(q, p, eps, L, minv, grad, eta=0.0, rel=False, minv_pert=None, eta_q=None, gabs=None):
    """returns dict(q, p, traj=[(q_k, p_k) k=0..L], scale, finite).

    eta > 0 injects a deterministic relative perturbation of that size into every gradient
    evaluation and every position update (the round-off probe: the deviation from the
    eta = 0 run, divided by eta, predicts how strongly this trajectory amplifies rounding
    errors made along the way).

    rel=True (scale-free probe for targets / mass matrices of mixed scales): every operation gets a
    component-wise *relative* perturbation of its inputs and its result - the gradient is evaluated at
    q*(1+eta s1) and multiplied by (1+eta s2), the drift uses M^-1 computed from a relatively perturbed
    mass matrix (minv_pert) applied to p*(1+eta s3), and the new position is multiplied by
    (1+eta_q s4). This is the first-order model of floating point error with unit round-off eta."""
    q = np.array(q, dtype=float)
    p = np.array(p, dtype=float)
    d = q.size
    traj = [(q.copy(), p.copy())]
    scale = max(1.0, float(np.max(np.abs(q))), float(np.max(np.abs(p))))
    finite = True
    if eta_q is None:
        eta_q = eta
    mv = minv_pert if (eta and rel and minv_pert is not None) else minv

    def G(x, k):
        if eta and rel:
            # signs depend on the component only: errors of the same sign at every step accumulate
            # linearly (signs alternating with the step would cancel and understate the accumulation)
            g = np.asarray(grad(x * (1.0 + eta * _signs(d, 1))), dtype=float)
            # gabs = sum of the magnitudes of the terms the gradient is made of (cancellation inside it)
            mag = np.abs(g) if gabs is None else np.asarray(gabs(x), dtype=float)
            return g + eta * _signs(d, 0) * mag
        g = np.asarray(grad(x), dtype=float)
        if eta:
            g = g * (1.0 + eta * _signs(d, k))
        return g

    with np.errstate(all="ignore"):
        g = G(q, 0)
        ph = p + 0.5 * eps * g
        pk = p
        for k in range(L):
            if eta and rel:
                q = q + eps * apply_minv(mv, ph * (1.0 + eta * _signs(d, 0)))
                q = q * (1.0 + eta_q * _signs(d, 1))
            else:
                q = q + eps * apply_minv(minv, ph)
                if eta:
                    q = q + eta * _signs(d, k + 1) * np.maximum(1.0, np.abs(q))
            g = G(q, k + 1)
            pk = ph + 0.5 * eps * g
            traj.append((q.copy(), pk.copy()))
            if k < L - 1:
                ph = ph + eps * g
            if not (np.all(np.isfinite(q)) and np.all(np.isfinite(pk))):
                finite = False
                break
            scale = max(scale, float(np.max(np.abs(q))), float(np.max(np.abs(pk))), float(eps * np.max(np.abs(g))))
    return {"q": q, "p": pk, "traj": traj, "scale": scale, "finite": finite}


def perturbed_inverse(mass, eta):
    """inverse of the mass matrix with every entry perturbed relatively by eta (symmetric sign pattern):
    what an inverse computed in arithmetic of unit round-off eta may look like (error ~ cond * eta)"""
    mass = np.asarray(mass, dtype=float)
    if mass.ndim == 1:
        return 1.0 / (mass * (1.0 + eta * _signs(mass.size, 0)))
    s = _signs(mass.shape[0], 0)
    return np.linalg.inv(mass * (1.0 + eta * np.outer(s, s)))


def probe_rel(q, p, eps, L, mass, grad, base, eta=1e-9, eta_q=1e-11, gabs=None):
    """scale-free round-off probe: component-wise deviation (max over the trajectory) of the relatively
    perturbed run from the base run; returns (dev_q, dev_p, perturbed run) or None when not finite"""
    pert = leapfrog(q, p, eps, L, invert_mass(mass), grad, eta=eta, rel=True, minv_pert=perturbed_inverse(mass, eta), eta_q=eta_q, gabs=gabs)
    if not pert["finite"] or len(pert["traj"]) != len(base["traj"]):
        return None
    dq = np.zeros(len(base["q"]))
    dp = np.zeros(len(base["q"]))
    for (qa, pa), (qb, pb) in zip(base["traj"], pert["traj"]):
        dq = np.maximum(dq, np.abs(qa - qb))
        dp = np.maximum(dp, np.abs(pa - pb))
    return dq, dp, pert


def probe(q, p, eps, L, minv, grad, base=None, eta=1e-9):
    """round-off probe: (amplification, perturbed run). amplification = max over the trajectory of
    |perturbed - unperturbed| / (eta * scale); inf when either run is not finite."""
    if base is None:
        base = leapfrog(q, p, eps, L, minv, grad)
    if not base["finite"]:
        return float("inf"), None
    pert = leapfrog(q, p, eps, L, minv, grad, eta=eta)
    if not pert["finite"] or len(pert["traj"]) != len(base["traj"]):
        return float("inf"), pert
    dev = 0.0
    for (qa, pa), (qb, pb) in zip(base["traj"], pert["traj"]):
        dev = max(dev, float(np.max(np.abs(qa - qb))), float(np.max(np.abs(pa - pb))))
    return dev / (eta * base["scale"]), pert


def amplification(q, p, eps, L, minv, grad, base=None, eta=1e-9):
    return probe(q, p, eps, L, minv, grad, base=base, eta=eta)[0]


# ----------------------------------------------------------------------------- toy targets
_LOG2PI = math.log(2.0 * math.pi)


class Block:
    """log density of one parameter block (a vector) and its gradient"""

    def __init__(self, spec):
        self.kind = spec["kind"]
        self.n = int(spec["n"])
        if self.kind == "normal":
            self.loc = np.asarray(spec["loc"], dtype=float)
            self.scale = np.asarray(spec["scale"], dtype=float)
        elif self.kind == "gamma_raw":
            # x ~ Gamma(conc, rate) on the positive half line, no transform: outside the support
            # the density is not defined (nan), which ends a reference trajectory as not finite
            self.conc = np.asarray(spec["conc"], dtype=float)
            self.rate = np.asarray(spec["rate"], dtype=float)
        elif self.kind == "gamma":
            # z = exp(x) ~ Gamma(conc, rate); density of x includes the Jacobian dz/dx = exp(x)
            self.conc = np.asarray(spec["conc"], dtype=float)
            self.rate = np.asarray(spec["rate"], dtype=float)
        elif self.kind == "mvn":
            self.loc = np.asarray(spec["loc"], dtype=float)
            self.prec = np.asarray(spec["prec"], dtype=float)
            sign, self.logdet = np.linalg.slogdet(self.prec)
            if sign <= 0:
                raise ValueError("precision not positive definite")
        else:
            raise ValueError(self.kind)

    def logp(self, x):
        if self.kind == "normal":
            r = (x - self.loc) / self.scale
            return float(np.sum(-0.5 * r * r - np.log(self.scale) - 0.5 * _LOG2PI))
        if self.kind == "gamma_raw":
            if not np.all(x > 0):
                return float("nan")
            lg = np.array([math.lgamma(a) for a in self.conc])
            return float(np.sum(self.conc * np.log(self.rate) - lg + (self.conc - 1.0) * np.log(x) - self.rate * x))
        if self.kind == "gamma":
            lg = np.array([math.lgamma(a) for a in self.conc])
            return float(np.sum(self.conc * np.log(self.rate) - lg + self.conc * x - self.rate * np.exp(x)))
        r = x - self.loc
        return float(-0.5 * r @ self.prec @ r + 0.5 * self.logdet - 0.5 * self.n * _LOG2PI)

    def grad(self, x):
        if self.kind == "normal":
            return -(x - self.loc) / (self.scale * self.scale)
        if self.kind == "gamma_raw":
            if not np.all(x > 0):
                return np.full(self.n, np.nan)
            return (self.conc - 1.0) / x - self.rate
        if self.kind == "gamma":
            return self.conc - self.rate * np.exp(x)
        return -self.prec @ (x - self.loc)


def _block_gabs(b, x):
    x = np.asarray(x, dtype=float)
    with np.errstate(all="ignore"):
        if b.kind == "normal":
            return (np.abs(x) + np.abs(b.loc)) / (b.scale * b.scale)
        if b.kind == "gamma":
            return np.abs(b.conc) + b.rate * np.exp(x)
        if b.kind == "gamma_raw":
            return np.abs(b.conc - 1.0) / np.abs(x) + b.rate
        return np.abs(b.prec) @ (np.abs(x) + np.abs(b.loc))


class BlockTarget:
    """independent blocks, one per parameter, concatenated in order"""

    def __init__(self, blocks):
        self.blocks = [Block(b) for b in blocks]
        self.sizes = [b.n for b in self.blocks]
        self.dim = sum(self.sizes)

    def _split(self, q):
        out, s = [], 0
        for n in self.sizes:
            out.append(q[s : s + n])
            s += n
        return out

    def logp(self, q):
        q = np.asarray(q, dtype=float)
        with np.errstate(all="ignore"):
            return float(sum(b.logp(x) for b, x in zip(self.blocks, self._split(q))))

    def grad(self, q):
        q = np.asarray(q, dtype=float)
        with np.errstate(all="ignore"):
            return np.concatenate([b.grad(x) for b, x in zip(self.blocks, self._split(q))])

    def gabs(self, q):
        """sum of the magnitudes of the terms each gradient component is computed from"""
        q = np.asarray(q, dtype=float)
        return np.concatenate([_block_gabs(b, x) for b, x in zip(self.blocks, self._split(q))])
