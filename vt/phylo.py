"""Generated phylogenetic likelihood cases: JSON-able case -> torchtree specification and
-> reference value.  Shared by C01, C02, C03 (and the model zoo of C10-C12)."""
import math

import numpy as np
from hypothesis import strategies as st

from vt import tt
from vt.gen.basic import fl, logu, simplex
from vt.gen.trees import Topo, names_for, nested_from_ins, topology
from vt.oracle import like as OL
from vt.oracle import sitecat

NUC_PLAIN = "ACGT"
NUC_AMB = "UKMRSWYBDHVN?-"
AA_PLAIN = OL.AA
AA_AMB = "BZX*?-"


# ------------------------------------------------------------------ strategies
@st.composite
def subst_model(draw, family="nucleotide", names=None):
    if family == "nucleotide":
        name = draw(st.sampled_from(names or ["JC69", "HKY", "GTR", "GTR", "GeneralSym", "GeneralNonSym"]))
        if name == "JC69":
            return {"name": name}
        if name == "HKY":
            return {"name": name, "kappa": draw(logu(1e-2, 1e2)), "freqs": draw(simplex(4))}
        if name == "GTR":
            return {"name": name, "rates": [draw(logu(1e-2, 1e2)) for _ in range(6)], "freqs": draw(simplex(4))}
        if name == "GeneralSym":
            K = draw(st.integers(1, 6))
            mapping = draw(st.lists(st.integers(0, K - 1), min_size=6, max_size=6))
            return {"name": name, "k": 4, "mapping": mapping, "rates": [draw(logu(1e-2, 1e2)) for _ in range(K)], "freqs": draw(simplex(4))}
        if name == "GeneralNonSym":
            K = draw(st.integers(1, 12))
            mapping = draw(st.lists(st.integers(0, K - 1), min_size=12, max_size=12))
            return {"name": name, "k": 4, "mapping": mapping, "rates": [draw(logu(1e-2, 1e2)) for _ in range(K)], "freqs": draw(simplex(4))}
    if family == "general":
        k = draw(st.integers(2, 5))
        name = draw(st.sampled_from(["GeneralJC69", "GeneralSym", "GeneralNonSym"]))
        if name == "GeneralJC69":
            return {"name": name, "k": k}
        npairs = k * (k - 1) // 2 * (2 if name == "GeneralNonSym" else 1)
        K = draw(st.integers(1, npairs))
        mapping = draw(st.lists(st.integers(0, K - 1), min_size=npairs, max_size=npairs))
        return {"name": name, "k": k, "mapping": mapping, "rates": [draw(logu(1e-2, 1e2)) for _ in range(K)], "freqs": draw(simplex(k))}
    if family == "aa":
        return {"name": draw(st.sampled_from(["LG", "WAG"]))}
    if family == "codon":
        code = draw(st.sampled_from(["Universal", "Vertebrate Mitochondrial", "No stops"]))
        ns = len(OL.sense_codons(code))
        return {"name": "MG94", "code": code, "kappa": draw(logu(0.1, 10)), "alpha": draw(logu(0.1, 10)), "beta": draw(logu(0.1, 10)),
                "freqs": draw(simplex(ns, spread=draw(fl(0.0, 3.0))))}
    raise ValueError(family)


@st.composite
def site_model(draw, maxK=6):
    kind = draw(st.sampled_from(["constant", "invariant", "weibull", "weibull", "weibull+inv"]))
    s = {"kind": kind}
    if kind.startswith("weibull"):
        s["K"] = draw(st.integers(1, maxK))
        s["shape"] = draw(logu(0.05, 20))
    if kind in ("invariant", "weibull+inv"):
        s["pinv"] = draw(fl(0.0, 0.9))
    if draw(st.integers(0, 3)) == 0:
        s["mu"] = draw(logu(0.1, 10))
    return s


@st.composite
def tip_heights(draw, n):
    """tip heights with minimum 0; small multiples of a grid so that ties are common"""
    mode = draw(st.sampled_from(["iso", "hetero", "hetero", "ties", "cont"]))
    if mode == "iso":
        return [0.0] * n
    if mode == "cont":
        # decimal dates that are not representable in single precision
        h = [draw(fl(0.0, 30.0)) for _ in range(n)]
        m = min(h)
        return [x - m for x in h]
    step = draw(st.sampled_from([0.5, 1.0, 0.25, 3.0]))
    hi = 3 if mode == "ties" else 12
    h = [draw(st.integers(0, hi)) * step for _ in range(n)]
    m = min(h)
    return [x - m for x in h]


@st.composite
def tree_part(draw, n, kinds=("unrooted_newick", "unrooted_tensor", "time", "ratio", "shift"), lmin=1e-6, lmax=10.0):
    kind = draw(st.sampled_from(list(kinds)))
    t = {"kind": kind}
    if kind.startswith("unrooted"):
        t["lengths"] = [draw(logu(lmin, lmax)) for _ in range(2 * n - 2)]
        if kind == "unrooted_newick":
            t["trifurcate"] = draw(st.booleans())
        return t
    t["tip_heights"] = draw(tip_heights(n))
    t["calendar"] = draw(st.booleans())
    if kind == "time":
        t["incs"] = [draw(logu(1e-3, 5.0)) for _ in range(n - 1)]
    elif kind == "ratio":
        t["ratios"] = [draw(fl(0.01, 0.99)) for _ in range(n - 2)]
        t["root_inc"] = draw(logu(1e-2, 5.0))
    else:
        t["shifts"] = [draw(logu(1e-3, 5.0)) for _ in range(n - 1)]
    if draw(st.booleans()):
        t["clock"] = {"kind": "strict", "rate": draw(logu(1e-4, 1.0))}
    else:
        t["clock"] = {"kind": "simple", "rates": [draw(logu(1e-4, 1.0)) for _ in range(2 * n - 2)]}
    return t


@st.composite
def columns(draw, n, family, model, mincols=1, maxcols=8, amb_weight=0.25):
    if family == "nucleotide":
        plain, amb = NUC_PLAIN, NUC_AMB
    elif family == "aa":
        plain, amb = AA_PLAIN, AA_AMB
    elif family == "codon":
        plain, amb = OL.sense_codons(model["code"]), ["---", "???", "A-C", "NNN", "AC?"]
    else:
        plain, amb = "abcde"[: model["k"]], ("?-xy" if model.get("amb_codes") else "?-")
    ncol = draw(st.integers(mincols, maxcols))
    use_amb = draw(st.booleans())
    cols = []
    for _ in range(ncol):
        if cols and draw(st.integers(0, 4)) == 0:
            cols.append(cols[draw(st.integers(0, len(cols) - 1))])  # repeated column
            continue
        col = []
        for _ in range(n):
            if use_amb and draw(fl(0, 1)) < amb_weight:
                s = draw(st.sampled_from(list(amb)))
            else:
                s = draw(st.sampled_from(list(plain)))
            if family in ("nucleotide", "aa", "codon") and draw(st.integers(0, 7)) == 0:
                s = s.lower()
            col.append(s)
        cols.append(col)
    return cols


@st.composite
def like_case(draw, families=("nucleotide", "nucleotide", "nucleotide", "general", "aa", "codon"), nmax=None, tree_kinds=None, names=None):
    family = draw(st.sampled_from(list(families)))
    lim = {"nucleotide": 8, "general": 7, "aa": 5, "codon": 4}[family]
    if nmax:
        lim = nmax
    topo = draw(topology(3, lim))
    n = len(topo["perm"])
    model = draw(subst_model(family, names))
    if family == "general":
        # user codes with an alias (x) and a two-state ambiguity (y)
        model["amb_codes"] = draw(st.booleans())
    kinds = tree_kinds or ("unrooted_newick", "unrooted_tensor", "time", "ratio", "shift")
    if model["name"] == "GeneralNonSym":
        kinds = tuple(k for k in kinds if k != "unrooted_newick") or ("unrooted_tensor",)
    tree = draw(tree_part(n, kinds))
    site = draw(site_model(4 if family in ("aa", "codon") else 6))
    cols = draw(columns(n, family, model, maxcols=4 if family in ("aa", "codon") else 8))
    tip = draw(st.sampled_from(["amb", "noamb", "states"]))
    c = {"family": family, "topo": topo, "tree": tree, "model": model, "site": site, "cols": cols, "tip": tip,
         "seq_order": list(draw(st.permutations(list(range(n)))))}
    return c


# ------------------------------------------------------------------ specification
def datatype_spec(c):
    fam, m = c["family"], c["model"]
    if fam == "nucleotide":
        if m["name"].startswith("General"):
            return {"id": "dt", "type": "NucleotideDataType"}, None
        return "nucleotide", None
    if fam == "aa":
        return {"id": "dt", "type": "AminoAcidDataType"}, None
    if fam == "codon":
        return {"id": "dt", "type": "CodonDataType", "genetic_code": m["code"]}, {"states": OL.sense_codons(m["code"])}
    codes = list("abcde"[: m["k"]])
    info = {"codes": codes, "ambiguities": {}}
    spec = {"id": "dt", "type": "GeneralDataType", "codes": codes}
    if m.get("amb_codes"):
        info["ambiguities"] = {"x": codes[0], "y": [codes[0], codes[1]]}
        spec["ambiguities"] = info["ambiguities"]
    return spec, info


def subst_spec(m, sid="subst", pid=lambda s: s):
    P = tt.P
    name = m["name"]
    if name == "JC69":
        return {"id": sid, "type": "JC69"}
    if name == "HKY":
        return {"id": sid, "type": "HKY", "kappa": P(pid("kappa"), [m["kappa"]]), "frequencies": P(pid("freqs"), m["freqs"])}
    if name == "GTR":
        return {"id": sid, "type": "GTR", "rates": P(pid("rates"), m["rates"]), "frequencies": P(pid("freqs"), m["freqs"])}
    if name == "GeneralJC69":
        return {"id": sid, "type": "GeneralJC69", "state_count": m["k"]}
    if name in ("GeneralSym", "GeneralNonSym"):
        return {"id": sid, "type": "GeneralSymmetricSubstitutionModel" if name == "GeneralSym" else "GeneralNonSymmetricSubstitutionModel",
                "data_type": "dt", "mapping": m["mapping"], "rates": P(pid("rates"), m["rates"]), "frequencies": P(pid("freqs"), m["freqs"])}
    if name in ("LG", "WAG"):
        return {"id": sid, "type": "torchtree.evolution.substitution_model.amino_acid." + name}
    if name == "MG94":
        return {"id": sid, "type": "MG94", "data_type": "dt", "kappa": P(pid("kappa"), [m["kappa"]]), "alpha": P(pid("alpha"), [m["alpha"]]),
                "beta": P(pid("beta"), [m["beta"]]), "frequencies": P(pid("freqs"), m["freqs"])}
    raise ValueError(name)


def site_spec(s, sid="site"):
    P = tt.P
    k = s["kind"]
    if k == "constant":
        d = {"id": sid, "type": "ConstantSiteModel"}
    elif k == "invariant":
        d = {"id": sid, "type": "InvariantSiteModel", "invariant": P("pinv", [s["pinv"]])}
    else:
        d = {"id": sid, "type": "WeibullSiteModel", "categories": s["K"], "shape": P("shape", [s["shape"]])}
        if k == "weibull+inv":
            d["invariant"] = P("pinv", [s["pinv"]])
    if "mu" in s:
        d["mu"] = P("mu", [s["mu"]])
    return d


def site_categories(s):
    k = s["kind"]
    if k == "constant":
        return sitecat.categories("constant", mu=s.get("mu"))
    if k == "invariant":
        return sitecat.categories("invariant", pinv=s["pinv"], mu=s.get("mu"))
    return sitecat.categories("weibull", s["K"], s["shape"], s.get("pinv") if k == "weibull+inv" else None, s.get("mu"))


def case_topo(c):
    t = c["topo"]
    if "nested" in t:
        return Topo(t["nested"])
    return Topo(nested_from_ins(t["ins"], t.get("perm"), t.get("swaps")))


def tree_geometry(c):
    """-> (Topo, names, dates-as-written, bl: node -> expected substitutions length, heights or None)"""
    topo = case_topo(c)
    n = topo.n
    names = c.get("names") or names_for(n)
    t = c["tree"]
    kind = t["kind"]
    if kind == "unrooted_newick":
        bl = {i: t["lengths"][i] for i in range(2 * n - 2)}
        return topo, names, None, bl, None
    if kind == "unrooted_tensor":
        bl = {i: t["lengths"][i] for i in range(2 * n - 3)}
        bl[2 * n - 3] = 0.0
        return topo, names, None, bl, None
    th = t["tip_heights"]
    if t["calendar"] and max(th) > 0:
        top = 2000.0 + max(th)
        dates = [top - h for h in th]
    else:
        dates = list(th)
    h = {i: th[i] for i in range(n)}
    if kind == "time":
        for node, l, r in topo.post:
            h[node] = max(h[l], h[r]) + t["incs"][node - n]
    elif kind == "shift":
        for node, l, r in topo.post:
            h[node] = max(h[l], h[r]) + t["shifts"][node - n]
    else:
        bound = dict(h)
        for node, l, r in topo.post:
            bound[node] = max(bound[l], bound[r])
        h[topo.root] = bound[topo.root] + t["root_inc"]
        for node, l, r in reversed(topo.post):  # parents before children
            for ch in (l, r):
                if ch >= n:
                    h[ch] = bound[ch] + t["ratios"][ch - n] * (h[node] - bound[ch])
    if t.get("keep"):
        # keep_branch_lengths on a dated newick whose lengths need not be clock-like: every node sits at the
        # largest child height + max(1e-6, length) (heights_from_branch_lengths)
        L = keep_lengths(topo, h, t["keep"])
        h = {i: th[i] for i in range(n)}
        for node, l, r in topo.post:
            h[node] = max(h[l] + max(1e-6, L[l]), h[r] + max(1e-6, L[r]))
    ck = t["clock"]
    bl = {}
    for ch, par in topo.parent.items():
        rate = ck["rate"] if ck["kind"] == "strict" else ck["rates"][ch]
        bl[ch] = rate * (h[par] - h[ch])
    return topo, names, dates, bl, h


def keep_lengths(topo, h, factors):
    """newick lengths of a time tree written with `keep`: clock-like lengths times a per-branch factor"""
    return {ch: (h[par] - h[ch]) * factors[ch] for ch, par in topo.parent.items()}


def _clocklike_heights(c):
    t = dict(c["tree"])
    t.pop("keep", None)
    return tree_geometry(dict(c, tree=t))[4]


def like_spec(c, ids=None):
    """full JSON specification (a list of top-level elements) for the case"""
    P = tt.P
    topo, names, dates, bl, h = tree_geometry(c)
    n = topo.n
    t = c["tree"]
    kind = t["kind"]
    taxa = {"id": "taxa", "type": "Taxa", "taxa": [
        {"id": names[i], "type": "Taxon", **({"attributes": {"date": dates[i]}} if dates is not None else {})} for i in range(n)]}
    out = [taxa]
    dts, info = datatype_spec(c)
    if isinstance(dts, dict):
        out.append(dts)
    if kind == "unrooted_newick":
        tree = {"id": "tree", "type": "UnRootedTreeModel", "newick": topo.newick(names, bl, trifurcate=t.get("trifurcate", False)),
                "taxa": "taxa", "keep_branch_lengths": True, "branch_lengths": {"id": "bl", "type": "Parameter", "full": [2 * n - 3], "tensor": 0.0}}
    elif kind == "unrooted_tensor":
        tree = {"id": "tree", "type": "UnRootedTreeModel", "newick": topo.newick(names), "taxa": "taxa",
                "branch_lengths": P("bl", [t["lengths"][i] for i in range(2 * n - 3)])}
    elif kind == "time":
        tree = {"id": "tree", "type": "TimeTreeModel", "newick": topo.newick(names), "taxa": "taxa",
                "internal_heights": P("heights", [h[i] for i in range(n, 2 * n - 1)])}
    elif kind == "ratio":
        tree = {"id": "tree", "type": "ReparameterizedTimeTreeModel", "newick": topo.newick(names), "taxa": "taxa",
                "ratios": P("ratios", t["ratios"]), "root_height": P("root_height", [h[topo.root]])}
    else:
        tree = {"id": "tree", "type": "ReparameterizedTimeTreeModel", "newick": topo.newick(names), "taxa": "taxa",
                "shifts": P("shifts", t["shifts"])}
    if t.get("keep") and not kind.startswith("unrooted"):
        tree["newick"] = topo.newick(names, keep_lengths(topo, _clocklike_heights(c), t["keep"]))
        tree["keep_branch_lengths"] = True
    if c.get("newick_prefix"):
        tree["newick"] = c["newick_prefix"] + tree["newick"]
    seqs = []
    for i in c["seq_order"]:
        seqs.append({"taxon": names[i], "sequence": "".join(col[i] for col in c["cols"])})
    lk = {"id": "like", "type": "TreeLikelihoodModel", "tree_model": tree, "site_model": site_spec(c["site"]),
          "substitution_model": subst_spec(c["model"]),
          "site_pattern": {"id": "sp", "type": "SitePattern", "alignment": {"id": "aln", "type": "Alignment",
                           "datatype": "nucleotide" if c["family"] == "nucleotide" else "dt", "taxa": "taxa", "sequences": seqs}},
          "use_ambiguities": c["tip"] == "amb", "use_tip_states": c["tip"] == "states"}
    if c.get("indices"):
        lk["site_pattern"]["indices"] = c["indices"]
    if not kind.startswith("unrooted"):
        ck = t["clock"]
        if ck["kind"] == "strict":
            lk["branch_model"] = {"id": "clock", "type": "StrictClockModel", "tree_model": "tree", "rate": P("rate", [ck["rate"]])}
        else:
            lk["branch_model"] = {"id": "clock", "type": "SimpleClockModel", "tree_model": "tree", "rate": P("clock.rates", ck["rates"])}
    out.append(lk)
    return out


def fasta_text(seqs, fmt):
    """the sequences as FASTA text: lines wrapped at fmt['wrap'] characters (0 = one line per record), optional blank
    line between records, CRLF line ends, last line with or without a line terminator"""
    nl = "\r\n" if fmt.get("crlf") else "\n"
    lines = []
    for k, s in enumerate(seqs):
        if k and fmt.get("blank"):
            lines.append("")
        lines.append(">" + s["taxon"])
        w = fmt.get("wrap") or len(s["sequence"]) or 1
        lines.extend(s["sequence"][i:i + w] for i in range(0, len(s["sequence"]), w))
    return nl.join(lines) + (nl if fmt.get("final_newline", True) else "")


def build_like(c):
    import os
    import tempfile

    spec = like_spec(c)
    path = None
    if c.get("fasta"):
        # the alignment read from a FASTA file instead of being written inline
        aln = spec[-1]["site_pattern"]["alignment"]
        fd, path = tempfile.mkstemp(prefix="vt-aln-", suffix=".fa")
        with os.fdopen(fd, "w", newline="") as fp:
            fp.write(fasta_text(aln.pop("sequences"), c["fasta"]))
        aln["file"] = path
    try:
        dic = {}
        for el in (tt.explicit64(spec) if c.get("f32default") else spec):
            tt.build(el, dic)
    finally:
        if path:
            os.remove(path)
    return dic


def tip_vectors(c, info):
    n = case_topo(c).n
    fam = c["family"]
    mode = c["tip"]
    return {i: np.array([OL.tip_vector(fam, col[i], mode, info) for col in c["cols"]]) for i in range(n)}


def reference(c, dic=None, method="auto"):
    """reference log-likelihood; for LG / WAG / MG94 the (un-normalised) rate matrix is read
    from the model's q() (no independent definition is documented, DESIGN section 4)"""
    topo, names, dates, bl, h = tree_geometry(c)
    _, info = datatype_spec(c)
    m = c["model"]
    if m["name"] in ("LG", "WAG", "MG94"):
        sm = dic["subst"]
        pi = sm.frequencies.detach().numpy().astype(float).reshape(-1)
        Q = OL.normalise(sm.q().detach().numpy().astype(float).reshape(len(pi), len(pi)), pi)
    else:
        Q, pi = OL.q_model(m)
    rates, probs = site_categories(c["site"])
    tv = tip_vectors(c, info)
    k = len(pi)
    if method == "auto":
        method = "brute" if k ** (topo.n - 1) <= 300000 else "prune"
    fn = {"brute": OL.brute_loglik, "prune": OL.prune_loglik, "mp": OL.prune_loglik_mp}[method]
    return fn(topo.post, topo.root, bl, tv, Q, pi, rates, probs)[0]


def reference_slack(c, dic=None, eta=4.4e-16):
    """conditioning of the problem: change of the reference value when every transition matrix is perturbed by
    an absolute error of two ulps in the symmetrised basis, P_ij += eta * sqrt(pi_j / pi_i) (i != j; also for
    zero-length branches and the invariant category, where P should be the identity).  Any double-precision
    evaluation of P(t) through the symmetric eigendecomposition carries at least this backward error; for
    well-conditioned cases the slack is ~1e-15, for columns whose likelihood is itself ~1e-15 (very short
    branches, frequencies or rates spanning three orders of magnitude) it can exceed the 1e-9 of the property."""
    topo, names, dates, bl, h = tree_geometry(c)
    _, info = datatype_spec(c)
    m = c["model"]
    if m["name"] in ("LG", "WAG", "MG94"):
        sm = dic["subst"]
        pi = sm.frequencies.detach().numpy().astype(float).reshape(-1)
        Q = OL.normalise(sm.q().detach().numpy().astype(float).reshape(len(pi), len(pi)), pi)
    else:
        Q, pi = OL.q_model(m)
    rates, probs = site_categories(c["site"])
    tv = tip_vectors(c, info)
    S = np.sqrt(pi[None, :] / pi[:, None]) if m["name"] != "GeneralNonSym" else np.ones((len(pi), len(pi)))
    np.fill_diagonal(S, 0.0)
    base = OL.prune_loglik(topo.post, topo.root, bl, tv, Q, pi, rates, probs)[0]
    old = OL._pmats
    OL._pmats = lambda Q_, bl_, rate: {v: P + eta * S for v, P in old(Q_, bl_, rate).items()}
    try:
        pert = OL.prune_loglik(topo.post, topo.root, bl, tv, Q, pi, rates, probs)[0]
    finally:
        OL._pmats = old
    return abs(pert - base)


def varying_column(c):
    plain = {"nucleotide": "ACGTUacgtu", "aa": AA_PLAIN + AA_PLAIN.lower()}.get(c["family"])
    for col in c["cols"]:
        if plain is not None:
            s = {x.upper().replace("U", "T") for x in col if x in plain}
        elif c["family"] == "codon":
            st_ = OL.sense_codons(c["model"]["code"])
            s = {x.upper() for x in col if x.upper() in st_}
        else:
            s = {x for x in col if x in "abcde"}
        if len(s) >= 2:
            return True
    return False
