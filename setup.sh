#!/bin/bash
# offline installation of what the checks need beside /venv's own packages
HERE="$(cd "$(dirname "${BASH_SOURCE[0]}")" && pwd)"
cd "$HERE"
exec /venv/bin/python -c "import sys; sys.path.insert(0,'$HERE'); from vt import deps; deps.ensure(verbose=True)"
