#!/bin/bash
# evaluate every delivered change of a seeding round:  tools/seed_round.sh r4 [extra checks per property...]
R=$1
for d in /tmp/seed/C??$R-out; do
  n=$(basename $d -out); pid=${n%$R}
  for i in 1 2; do
    [ -f $d/change_$i.diff ] && [ -f $d/demo_$i.py ] || continue
    /verif/tools/seed_eval.py $n-$i $d/change_$i.diff $d/demo_$i.py --checks $pid 2>&1 | grep "RESULT\|PATCH DOES NOT"
  done
done
