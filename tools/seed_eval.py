#!/venv/bin/python
"""Evaluate one seeded change: confirm it (tests pass, demo fails with / passes without), then run the
given checks against it.   tools/seed_eval.py NAME PATCH DEMO --checks C01[,C02] [--tier quick]"""
import argparse, os, shutil, subprocess, sys, time, json

ap = argparse.ArgumentParser()
ap.add_argument("name"); ap.add_argument("patch"); ap.add_argument("demo")
ap.add_argument("--checks-only", action="store_true", help="skip the demo and the repository tests (re-verification of a seed confirmed earlier)"); ap.add_argument("--checks", required=True); ap.add_argument("--tier", default="quick"); ap.add_argument("--only", default=None)
a = ap.parse_args()
wt = "/tmp/wt-seed-%s" % a.name
subprocess.run(["git", "-C", "/repo", "worktree", "remove", "--force", wt], capture_output=True)
shutil.rmtree(wt, ignore_errors=True)
subprocess.run(["git", "-C", "/repo", "worktree", "add", "--detach", wt, "HEAD"], check=True, capture_output=True)
res = {"name": a.name}
try:
    env = dict(os.environ, PYTHONPATH=wt + ":/verif/.deps")
    def demo():
        r = subprocess.run(["/venv/bin/python", os.path.abspath(a.demo)], cwd=wt, capture_output=True, text=True, env=env, timeout=1800)
        return r.returncode, (r.stdout + r.stderr).strip().splitlines()[-1:] 
    rc0, out0 = (0, []) if a.checks_only else demo()
    res["demo_without"] = rc0
    r = subprocess.run(["git", "-C", wt, "apply", os.path.abspath(a.patch)], capture_output=True, text=True)
    if r.returncode != 0:
        print("PATCH DOES NOT APPLY", r.stderr); sys.exit(3)
    rc1, out1 = (1, []) if a.checks_only else demo()
    res["demo_with"] = rc1
    if a.checks_only:
        res["repo_tests"] = "skipped"
    else:
        t = subprocess.run(["/venv/bin/python", "-m", "pytest", "-q", "-x", "-p", "no:cacheprovider", "test", "torchtree"], cwd=wt, capture_output=True, text=True, env=dict(os.environ, PYTHONPATH=wt))
        res["repo_tests"] = "pass" if t.returncode == 0 else "FAIL " + t.stdout.strip().splitlines()[-1][:80]
    print("seed %s: demo without=%d with=%d (%s) repo tests %s" % (a.name, rc0, rc1, out1, res["repo_tests"]))
    res["checks"] = {}
    for chk in a.checks.split(","):
        cmd = ["/verif/check", chk, "--tier", a.tier, "--no-evidence"] + (["--only", a.only] if a.only else [])
        t0 = time.time()
        r = subprocess.run(cmd, capture_output=True, text=True, env=dict(os.environ, VT_REPO=wt))
        verdict = "CAUGHT" if r.returncode == 1 else ("MISSED" if r.returncode == 0 else "HARNESS-ERROR")
        res["checks"][chk] = verdict
        print("  %s exit=%d %.0fs %s" % (chk, r.returncode, time.time() - t0, verdict))
        for l in [l for l in r.stdout.splitlines() if l.startswith("  bucket")][:4]:
            print("     " + l[:240])
        if r.returncode == 2:
            print(r.stdout[-1200:])
    print("RESULT " + json.dumps(res))
finally:
    subprocess.run(["git", "-C", "/repo", "worktree", "remove", "--force", wt], capture_output=True)
    shutil.rmtree(wt, ignore_errors=True)
