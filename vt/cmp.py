"""shape-robust numeric comparison helpers (never raise on odd shapes)"""
import numpy as np


def arr(x):
    try:
        import torch

        if isinstance(x, torch.Tensor):
            return x.detach().cpu().numpy().astype(float)
    except Exception:
        pass
    return np.asarray(x, dtype=float)


def maxrel(a, b, floor=1.0):
    """max |a-b| / max(floor,|b|); inf when shapes cannot be aligned or non-finite"""
    a, b = arr(a), arr(b)
    try:
        a, b = np.broadcast_arrays(a, b)
    except ValueError:
        return float("inf")
    if a.size == 0:
        return 0.0
    if not (np.all(np.isfinite(a)) and np.all(np.isfinite(b))):
        if np.array_equal(a, b, equal_nan=True):
            return 0.0
        return float("inf")
    return float(np.max(np.abs(a - b) / np.maximum(floor, np.abs(b))))


def maxabs(a, b):
    a, b = arr(a), arr(b)
    try:
        a, b = np.broadcast_arrays(a, b)
    except ValueError:
        return float("inf")
    if a.size == 0:
        return 0.0
    if not (np.all(np.isfinite(a)) and np.all(np.isfinite(b))):
        return float("inf")
    return float(np.max(np.abs(a - b)))


def same_shape(a, shape):
    return tuple(arr(a).shape) == tuple(shape)
