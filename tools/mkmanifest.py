#!/venv/bin/python
"""regenerate MANIFEST.json from the table below (run after adding a property module)"""
import json, os
HERE = os.path.dirname(os.path.dirname(os.path.abspath(__file__)))
props = [json.loads(l) for l in open(os.path.join(HERE, "properties.jsonl"))]
BASE = "cd /repo && /venv/bin/python -m pytest -ra -q -p no:cacheprovider --timeout=900 --continue-on-collection-errors"
# id -> (level, technique, text, note)
CLAIMS = json.load(open(os.path.join(HERE, "tools", "claims.json")))
checks, na = [], []
for p in props:
    pid = p["id"]
    c = CLAIMS.get(pid)
    if not c or not os.path.exists(os.path.join(HERE, "vt", "props", pid.lower() + ".py")):
        na.append({"property_id": pid, "reason": (c or {}).get("na_reason", "check not built yet in this round (planned in DESIGN.md section 5; the technique applies)")})
        continue
    checks.append({
        "property_id": pid,
        "quick_cmd": "./check %s --tier quick" % pid,
        "thorough_cmd": "./check %s --tier thorough" % pid,
        "evidence_file": "evidence/%s.json" % pid,
        "replay_cmd_template": "./check %s --replay {path}" % pid,
        "engine": "vt",
        "level_claimed": {"category": c["level"], "text": c["text"], "design_ref": "DESIGN.md section 5, %s" % pid},
        "level_note": c["note"],
        "technique": c["technique"],
    })
m = {
    "version": 1,
    "setup_cmd": "./setup.sh",
    "hooks": {"guard": "TORCHTREE_VERIF", "enable": "none needed: no hooks were added to /repo; checks import /repo's working tree directly (PYTHONPATH=/repo first) and observe it by wrapping public extension points from the harness", "baseline_off_cmd": BASE, "source_commits": [], "add_only": True},
    "engines": [{"name": "vt", "path": "vt/", "serves_properties": [c["property_id"] for c in checks], "kind_free_text": "Hypothesis-driven property-based testing (generated inputs, rule-based state machines, exhaustive enumeration of finite sub-spaces, fork-based fault injection) against independent numpy/scipy/mpmath oracles; collect-bucket-shrink runner in vt/runner.py"}],
    "checks": checks,
    "notes": "Every check: ./check <ID> --tier quick|thorough, honours VERIF_SEED, rewrites evidence/<ID>.json, prints KNOWN-FINDING lines for entries of known_findings.json whose replay still fails, VIOLATION lines (exit 1) for anything else, exit 2 = harness error.",
    "not_applicable": na,
}
json.dump(m, open(os.path.join(HERE, "MANIFEST.json"), "w"), indent=1)
print("checks:", [c["property_id"] for c in checks], "not claimed:", [x["property_id"] for x in na])
