"""C09 - birth-death skyline density agrees across epochs, with the constant model and with
numerical integration of the master equations."""
import copy
import math

import numpy as np
import torch
from hypothesis import strategies as st

from vt import phylo, tt
from vt.cmp import arr
from vt.gen.basic import fl, logu
from vt.gen.trees import names_for, topology
from vt.oracle import bdsky as O
from vt.runner import Res, Sub, guarded

PROPERTY = "C09"
LEVEL = "exploration"
RULE = (
    "Case = (time tree with 2..10 taxa, tip heights isochronous or on a 0.5 grid, internal heights by positive increments; origin above "
    "the root, given directly or as a root edge; 1..8 epochs whose boundaries are drawn among grid times (so that a boundary coincides "
    "with a sampling time) and generic times; R / delta / s per epoch; rho per epoch in [0,1], zero at most inner boundaries; survival "
    "conditioning on/off; removal probability absent or per epoch; times absolute or relative, as list or as parameter), built from the "
    "BDSKModel JSON specification. Oracles: (ode) scipy integration of the birth-death-sampling master equations along the tree; "
    "(constant) single epoch vs the Stadler (2010) closed form and vs the BirthDeathModel class; (refine) splitting an epoch - at generic "
    "times, at internal-node times and exactly at psi-sampled tips' times - with identical rates and rho = 0 at the new boundary leaves "
    "the value unchanged; (options) each JSON option selects the behaviour it names. Non-trivial = >= 2 epochs or psi-sampled serial "
    "tips. Distinct = (tree, boundaries, rounded rates, options)."
)
ASSUMPTIONS = [
    "a psi-sampled tip exactly on a boundary whose two sides carry different rates, and an internal node exactly on a boundary, are not generated in the absolute comparison (the side it is assigned to is a convention); refinement with identical rates is asserted",
    "ODE tolerances rtol 1e-12; comparison at relative 1e-8",
    "the critical point lambda = mu with psi = 0 (where the closed forms divide by A = 0) is not generated",
    "tree-counting constant: 0 without a removal probability, (n-1) log 2 with one (calibrated on the BEAST2 literals in the repository's tests; selftest)",
]


def selftest():
    tips = [0.0, 1.0, 2.5, 3.5]
    heights = {0: 0.0, 1: 1.0, 2: 2.5, 3: 3.5, 4: 2.0, 5: 4.0, 6: 5.0}
    parent = {0: 4, 1: 4, 2: 5, 3: 5, 4: 6, 5: 6}
    v = O.density(tips, parent, heights, [3.0, 2.0], [2.5, 1.0], [2.0, 0.5], [0.0, 0.0], [0.0, 3.0, 6.0], False)
    assert abs(v - -33.7573) < 2e-4, v
    v = O.density(tips, parent, heights, [3.0, 2.0, 4.0], [2.5, 1.0, 0.5], [2.0, 0.5, 1.0], [0, 0, 0], [0.0, 3.0, 4.5, 6.0], False)
    assert abs(v - -37.8056) < 2e-4, v
    h2 = {0: 0.0, 1: 0.0, 2: 0.0, 3: 4.5, 4: 5.5}
    p2 = {0: 3, 1: 3, 3: 4, 2: 4}
    v = O.density([0, 0, 0], p2, h2, [2.25], [1.5], [0.0], [0.01], [0.0, 10.0], False)
    assert abs(v - -8.520565) < 2e-5, v
    v = O.density([0, 0, 0], p2, h2, [2.25], [1.5], [0.0], [0.01], [0.0, 10.0], True)
    assert abs(v - -7.404227) < 2e-5, v
    w = O.constant_rate_closed_form([0, 0, 0], [4.5, 5.5], 2.25, 1.5, 0.0, 0.01, 10.0, True)
    assert abs(w - -7.404227) < 2e-5, w
    R, delta, s = 1.5, 1.5, 0.3
    lam, mu, psi = R * delta, delta - s * delta, s * delta
    v = O.density(tips, parent, heights, [lam], [mu], [psi], [0.0], [0.0, 10.0], False, r=[1.0])
    assert abs(v - -26.105360134266082) < 1e-7, v
    w = O.constant_rate_closed_form(tips, [2.0, 4.0, 5.0], lam, mu, psi, 0.0, 10.0, False)
    assert abs(w + 3 * math.log(2) - -26.105360134266082) < 1e-7, w
    r = 0.9
    psi = s * delta / (1 + (r - 1) * s)
    mu = delta - psi * r
    v = O.density(tips, parent, heights, [lam], [mu], [psi], [0.0], [0.0, 10.0], True, r=[r])
    assert abs(v - -25.991511346557598) < 1e-7, v


def epi(R, delta, s, r=None):
    """documented conversion epidemiology -> birth-death parameters"""
    lam = R * delta
    if r is None:
        return lam, delta - s * delta, s * delta
    psi = s * delta / (1.0 + (r - 1.0) * s)
    return lam, delta - psi * r, psi


# ------------------------------------------------------------------ generation
@st.composite
def tree_case(draw, nmax=10):
    topo = draw(topology(2 if False else 3, nmax))
    n = len(topo["perm"])
    mode = draw(st.sampled_from(["iso", "serial", "serial"]))
    th = [0.0] * n if mode == "iso" else [draw(st.integers(0, 6)) * 0.5 for _ in range(n)]
    mn = min(th)
    th = [x - mn for x in th]
    incs = [draw(logu(0.05, 2.0)) for _ in range(n - 1)]
    return {"topo": topo, "tip_heights": th, "incs": incs}


def tree_heights(t):
    c = {"topo": t["topo"], "tree": {"kind": "time", "tip_heights": t["tip_heights"], "calendar": False, "incs": t["incs"], "clock": {"kind": "strict", "rate": 1.0}}}
    topo, names, dates, bl, h = phylo.tree_geometry(c)
    return topo, names, h


@st.composite
def case(draw, mmax=8, allow_r=True, force_m=None):
    t = draw(tree_case())
    topo, names, h = tree_heights(t)
    n = topo.n
    root = h[topo.root]
    extra = draw(logu(0.05, 3.0))
    x0 = root + extra
    # the removal probability only evaluates with one epoch on the pinned tree (known finding for several): draw it
    # mostly there so that the option is exercised with every sampling scheme
    want_r = allow_r and draw(st.integers(0, 3)) == 0
    if want_r and force_m is None and draw(st.integers(0, 3)) > 0:
        force_m = 1
    m = force_m or draw(st.integers(1, mmax))
    internal = [h[i] for i in range(n, 2 * n - 1)]
    # boundary heights
    bset = set()
    tries = 0
    while len(bset) < m - 1 and tries < 100:
        tries += 1
        kind = draw(st.sampled_from(["grid", "grid", "generic", "above_root"]))
        if kind == "grid":
            v = draw(st.integers(1, 12)) * 0.5
        elif kind == "generic":
            v = draw(fl(0.02, 0.98)) * root
        else:
            v = root + draw(fl(0.05, 0.95)) * extra
        if not (0 < v < x0 * (1 - 1e-9)):
            continue
        if any(abs(v - x) <= 1e-6 * max(1.0, x0) for x in internal):
            v = v * (1 + 3e-6)  # never exactly on an internal node
            if not (0 < v < x0 * (1 - 1e-9)) or any(abs(v - x) <= 1e-6 * max(1.0, x0) for x in internal):
                continue
        bset.add(v)
    bh = sorted(bset, reverse=True)  # decreasing heights = increasing forward times
    m = len(bh) + 1
    default_grid = force_m is None and draw(st.integers(0, 2)) == 0
    if default_grid:
        # no `times` in the specification: m equal slices of the origin (documented default)
        m = draw(st.integers(1, mmax))
        bh = [x0 * (1.0 - j / m) for j in range(1, m)]
        if any(abs(b - x) <= 1e-6 * max(1.0, x0) for b in bh for x in internal + [t_ for t_ in t["tip_heights"] if t_ > 0]):
            default_grid = False
            bh = sorted(bset, reverse=True)
            m = len(bh) + 1
    R = [draw(logu(0.3, 4.0)) for _ in range(m)]
    delta = [draw(logu(0.2, 3.0)) for _ in range(m)]
    if force_m == 1 and R[0] > 1.2 and draw(st.integers(0, 2)) == 0:
        # (supercritical only: with R < 1 and fast death 1 - p0 is of the order of exp(-A x0) and the survival term cancels)
        # fast turnover relative to the depth of the tree: A <= lambda + mu + psi = delta (R + 1), so A x0 stays below
        # 330 (beyond about 450 both classes return -inf on the pinned tree: exp(-A t) underflows) and reaches the hundreds
        delta = [draw(fl(100.0, 330.0)) / ((R[0] + 1.0) * x0)]
    serial = max(t["tip_heights"]) > 0
    s = [draw(fl(0.05, 0.9)) for _ in range(m)] if serial else [draw(st.sampled_from([0.0, 0.0, 0.3])) for _ in range(m)]
    # the closed forms are singular at lambda = mu with psi = 0 (A = 0): stay away from the critical point
    R = [1.3 if (s[i] == 0 and abs(R[i] - 1.0) < 0.05) else R[i] for i in range(m)]
    rho = [0.0] * m
    RHO = st.one_of(fl(0.01, 0.99), fl(0.01, 0.99), logu(1e-20, 1e-3))  # sparse sampling down to 1e-20 is admissible
    # (only next to psi-sampling: with rho the only source of samples, 1 - p0 = O(rho) cancels completely)
    rho[m - 1] = draw(st.sampled_from([0.0, 0.5, draw(RHO)])) if (serial and any(x == 0 for x in t["tip_heights"])) else draw(RHO if serial else fl(0.01, 0.99))
    if not serial and all(x == 0 for x in s) and rho[m - 1] == 0:
        rho[m - 1] = 0.4
    tipset = set(t["tip_heights"])
    for j in range(1, m):  # boundary j (between epoch j-1 and j) at height bh[j-1]
        b = bh[j - 1]
        if b in tipset:
            # a tip sits exactly on this boundary: either it is a rho-sampling event, or both sides carry identical rates
            if draw(st.booleans()):
                rho[j - 1] = draw(fl(0.05, 0.9))
            else:
                R[j], delta[j], s[j] = R[j - 1], delta[j - 1], s[j - 1]
        elif draw(st.integers(0, 4)) == 0:
            rho[j - 1] = draw(fl(0.05, 0.9))  # rho-sampling nobody was caught in
    c = {"tree": t, "extra": extra, "bh": bh, "R": R, "delta": delta, "s": s, "rho": rho,
         "survival": draw(st.booleans()), "root_edge": draw(st.booleans()),
         "relative": draw(st.booleans()), "times_as": "default" if default_grid else draw(st.sampled_from(["list", "param"]))}
    if any(b in tipset for b in bh):
        # a boundary given as a fraction of the origin is a rounded product: exact coincidence with a
        # sampling time cannot be expressed reliably with relative times
        c["relative"] = False
    if want_r:
        c["r"] = [draw(fl(0.05, 1.0)) for _ in range(m)] if draw(st.booleans()) else [1.0] * m
    # the short form: a single value acting at the present (what the command-line tools write)
    c["rho_short"] = all(x == 0 for x in rho[:-1]) and draw(st.booleans())
    c["f32default"] = draw(st.sampled_from([False, False, True]))
    # further parameter sets evaluated in the same call (a sample dimension): factors for R and for the positive rho's
    c["brows"] = [[draw(logu(0.5, 2.0)), draw(fl(0.3, 1.0))] for _ in range(draw(st.sampled_from([0, 0, 1, 2])))]
    return c


def geometry(c):
    topo, names, h = tree_heights(c["tree"])
    n = topo.n
    x0 = h[topo.root] + c["extra"]
    T = [0.0] + [x0 - b for b in c["bh"]] + [x0]
    return topo, names, h, x0, T


def spec_of(c):
    topo, names, h, x0, T = geometry(c)
    n = topo.n
    t = c["tree"]
    taxa = {"id": "taxa", "type": "Taxa", "taxa": [{"id": names[i], "type": "Taxon", "attributes": {"date": t["tip_heights"][i]}} for i in range(n)]}
    tree = {"id": "tree", "type": "TimeTreeModel", "newick": topo.newick(names), "taxa": "taxa", "internal_heights": tt.P("heights", [h[i] for i in range(n, 2 * n - 1)])}
    m = len(c["R"])
    spec = {"id": "bdsk", "type": "BDSKModel", "tree_model": tree, "R": tt.P("R", c["R"]), "delta": tt.P("delta", c["delta"]), "s": tt.P("s", c["s"]),
            "rho": tt.P("rho", c["rho"][-1:] if c.get("rho_short") else c["rho"]), "survival": c["survival"]}
    if c["root_edge"]:
        spec["origin"] = tt.P("origin", [c["extra"]])
        spec["origin_is_root_edge"] = True
    else:
        spec["origin"] = tt.P("origin", [x0])
    if (m > 1 or c.get("explicit_times")) and c["times_as"] != "default":
        times = T[:-1]
        if c["relative"]:
            times = [x / x0 for x in times]
            spec["relative_times"] = True
        spec["times"] = times if c["times_as"] == "list" else tt.P("times", times)
    if "r" in c:
        spec["removal_probability"] = tt.P("r", c["r"])
    return [taxa, spec]


def evaluate(c):
    dic = {}
    for el in (tt.explicit64(spec_of(c)) if c.get("f32default") else spec_of(c)):
        tt.build(el, dic)
    return dic["bdsk"], dic


def reference(c):
    topo, names, h, x0, T = geometry(c)
    r = c.get("r")
    rates = [epi(R, d, s, None if r is None else r[i]) for i, (R, d, s) in enumerate(zip(c["R"], c["delta"], c["s"]))]
    lam, mu, psi = [x[0] for x in rates], [x[1] for x in rates], [x[2] for x in rates]
    return O.density(c["tree"]["tip_heights"], topo.parent, h, lam, mu, psi, c["rho"], T, c["survival"], r)


def classify(c):
    topo, names, h, x0, T = geometry(c)
    m = len(c["R"])
    th = c["tree"]["tip_heights"]
    serial = max(th) > 0
    tip_on_boundary = any(b in set(th) for b in c["bh"])
    nt = m >= 2 or (serial and any(x > 0 for x in c["s"]))
    key = (topo.n, sorted(sorted(x) for x in topo.clades()), th, [round(x, 8) for x in c["tree"]["incs"] + c["bh"] + c["R"] + c["delta"] + c["s"] + c["rho"] + [c["extra"]]],
           c["survival"], c["root_edge"], c["relative"], c["times_as"], c.get("r"))
    labels = ("m=%d" % m if m <= 3 else "m>3", "serial" if serial else "iso", "tip_on_boundary" if tip_on_boundary else "no_tip_on_boundary",
              "survival" if c["survival"] else "nosurvival", "root_edge" if c["root_edge"] else "origin", "r" if "r" in c else "no_r",
              "relative" if c["relative"] else "absolute", "inner_rho" if any(x > 0 for x in c["rho"][:-1]) else "no_inner_rho")
    tags = {"cls": "BDSKModel", "m": "1" if m == 1 else ">1", "r": "r" in c, "tip_on_boundary": tip_on_boundary, "relative": c["relative"] and m > 1,
            "times_as": c["times_as"] if m > 1 else "none", "inner_rho": any(x > 0 for x in c["rho"][:-1])}
    return nt, key, labels, tags


def pretags(c):
    return classify(c)[3]


def body(c):
    # library use under torch's float32 default with every Parameter explicitly float64 (see tt.default_dtype)
    with tt.default_dtype(torch.float32 if c.get("f32default") else torch.float64):
        return _body(c)


def _body(c):
    nt, key, labels, tags = classify(c)
    labels = labels + (("default_dtype_float32",) if c.get("f32default") else ())
    res = Res(nontrivial=nt, key=key + (bool(c.get("f32default")),), labels=labels, tags=dict(tags, f32default=bool(c.get("f32default"))))
    model, dic = evaluate(c)
    v = arr(model()).reshape(-1)
    ref = reference(c)
    if v.size != 1 or not np.isfinite(v).all():
        return res.fail("nonfinite", {"value": v.tolist(), "reference": ref})
    if abs(v[0] - ref) > 1e-8 * max(1.0, abs(ref)):
        return res.fail("mismatch", {"value": float(v[0]), "reference": ref})
    # the same object evaluated again after a change notification (what every sampler / optimiser does)
    for rep in range(2):
        dic["R"].tensor = dic["R"].tensor.clone()
        w = arr(model()).reshape(-1)
        if w.size != 1 or not np.isfinite(w).all() or abs(w[0] - ref) > 1e-8 * max(1.0, abs(ref)):
            return res.fail("re_evaluation", {"first": float(v[0]), "evaluation": rep + 2, "value": w.tolist(), "reference": ref}, reeval=True)
    if c.get("brows"):
        rows = [c] + [dict(c, R=[x * f for x in c["R"]], rho=[x * g for x in c["rho"]]) for f, g in c["brows"]]
        rows = rows[1:] + rows[:1]
        dt = dic["R"].tensor.dtype
        for name in ("R", "delta", "s", "rho"):
            dic[name].tensor = torch.tensor([r[name] for r in rows], dtype=dt)
        if "r" in c:
            dic["r"].tensor = torch.tensor([c["r"] for _ in rows], dtype=dt)
        dic["origin"].tensor = dic["origin"].tensor.expand(len(rows), -1).clone()
        got, exc = guarded(model)
        if exc is not None:
            res.labels = res.labels + ("batched_raises",)
            return res
        got = arr(got).reshape(-1)
        refs = [reference(r) for r in rows]
        res.labels = res.labels + ("batched_rows=%d" % len(rows),)
        if got.shape != (len(rows),) or not np.isfinite(got).all():
            return res.fail("nonfinite", {"what": "batched parameters", "value": got.tolist(), "reference": refs}, batched=True)
        for k, r in enumerate(refs):
            if abs(got[k] - r) > 1e-8 * max(1.0, abs(r)):
                return res.fail("mismatch", {"what": "batched parameters", "row": k, "value": got.tolist(), "reference": refs}, batched=True)
    return res


# ------------------------------------------------------------------ constant model
def constant_body(c):
    nt, key, labels, tags = classify(c)
    th = c["tree"]["tip_heights"]
    res = Res(nontrivial=max(th) > 0 and c["s"][0] > 0, key=key, labels=labels + ("constant",), tags=dict(tags, relation="constant"))
    topo, names, h, x0, T = geometry(c)
    n = topo.n
    model, dic = evaluate(c)
    v = float(arr(model()).reshape(-1)[0])
    lam, mu, psi = epi(c["R"][0], c["delta"][0], c["s"][0])
    rho = c["rho"][0]
    ok_closed = not (rho == 0 and any(x == 0 for x in th) and False)
    try:
        w = O.constant_rate_closed_form(th, [h[i] for i in range(n, 2 * n - 1)], lam, mu, psi, rho, x0, c["survival"])
    except (ValueError, OverflowError):
        res.labels = res.labels + ("closed_form_out_of_range",)
        res.nontrivial = False
        return res
    # the closed form treats tips at height 0 as rho-sampled when rho > 0, psi-sampled otherwise - same rule as the skyline
    if abs(v - w) > 1e-8 * max(1.0, abs(w)):
        return res.fail("mismatch", {"skyline_single_epoch": v, "closed_form": w})
    # the BirthDeathModel class (constant rates) must agree with the single-epoch skyline and the closed form
    # (not asserted in the degenerate case of contemporaneous tips without rho-sampling, where tips at the
    # present would have to be psi-sampled at an instant: the two classes agree with each other there but the
    # reading is a convention)
    if not (all(x == 0 for x in th) and rho == 0) and (psi > 0 or all(x == 0 for x in th)):
        bd = {"id": "bd", "type": "BirthDeathModel", "tree_model": "tree", "lambda": tt.P("bd.lambda", [lam]), "mu": tt.P("bd.mu", [mu]),
              "psi": tt.P("bd.psi", [psi]), "rho": tt.P("bd.rho", [rho]), "origin": tt.P("bd.origin", [x0]), "survival": c["survival"]}
        m2, _ = tt.build(bd, dic)
        u = arr(m2()).reshape(-1)
        res.labels = res.labels + ("birth_death_class",)
        if u.size != 1 or not np.isfinite(u).all() or abs(u[0] - w) > 1e-8 * max(1.0, abs(w)):
            return res.fail("birth_death_class", {"BirthDeathModel": u.tolist(), "closed_form": w, "BDSKModel": v, "rho": rho, "psi": psi, "tips": th}, cls="BirthDeathModel")
    return res


# ------------------------------------------------------------------ refinement
@st.composite
def refine_case(draw):
    c = draw(case(mmax=3, allow_r=False))
    if c["times_as"] == "default":
        c["times_as"] = "list"
    topo, names, h, x0, T = geometry(c)
    n = topo.n
    where = draw(st.sampled_from(["generic", "generic", "tip_time", "tip_time", "internal_time"]))
    th = c["tree"]["tip_heights"]
    if where == "tip_time" and max(th) > 0:
        v = draw(st.sampled_from(sorted(x for x in set(th) if x > 0)))
    elif where == "internal_time":
        v = h[draw(st.integers(n, 2 * n - 2))]
    else:
        where = "generic"
        v = draw(fl(0.01, 0.99)) * x0
    c["split"] = v
    c["where"] = where
    return c


def refine_body(c):
    nt, key, labels, tags = classify(c)
    res = Res(nontrivial=True, key=(key, round(c["split"], 9)), labels=labels + ("split_" + c["where"],), tags=dict(tags, relation="refine", where=c["where"]))
    topo, names, h, x0, T = geometry(c)
    v = c["split"]
    if not (0 < v < x0) or any(abs(v - b) < 1e-9 for b in c["bh"]):
        res.nontrivial = False
        return res
    base, _ = evaluate(c)
    a = float(arr(base()).reshape(-1)[0])
    d = copy.deepcopy(c)
    bh = sorted(c["bh"] + [v], reverse=True)
    j = bh.index(v)  # new boundary between epoch j (older) and j+1
    for k in ("R", "delta", "s"):
        d[k] = c[k][: j + 1] + c[k][j:]
    d["rho"] = c["rho"][:j] + [0.0] + c["rho"][j:]
    d["bh"] = bh
    fine, _ = evaluate(d)
    b = float(arr(fine()).reshape(-1)[0])
    if abs(a - b) > 1e-8 * max(1.0, abs(a)):
        return res.fail("mismatch", {"coarse": a, "refined": b, "split_height": v, "where": c["where"]})
    return res


# ------------------------------------------------------------------ options
def options_body(c):
    """each JSON option selects the behaviour it names (metamorphic, no external oracle)"""
    nt, key, labels, tags = classify(c)
    res = Res(nontrivial=nt, key=key, labels=labels + ("options",), tags=dict(tags, relation="options"))
    topo, names, h, x0, T = geometry(c)
    m = len(c["R"])

    def val(cc):
        mdl, _ = evaluate(cc)
        return float(arr(mdl()).reshape(-1)[0])

    a = val(c)
    # relative vs absolute times, list vs parameter, origin vs root edge: four spellings of the same model
    tip_on_boundary = any(b in set(c["tree"]["tip_heights"]) for b in c["bh"])
    for k, alt in (("relative", not c["relative"]), ("times_as", "param" if c["times_as"] == "list" else "list"), ("root_edge", not c["root_edge"])):
        if tip_on_boundary and k == "relative":
            continue
        if c["times_as"] == "default" and k in ("relative", "times_as"):
            continue  # boundaries / origin become rounded sums or products: exact ties are not preserved
        d = dict(c)
        d[k] = alt
        b = val(d)
        if abs(a - b) > 1e-9 * max(1.0, abs(a)):
            return res.fail("option_" + k, {"value": a, "alternative": b, "option": k, "m": m}, option=k)
    # survival: differs by log(1 - p0(origin)), same sign for every tree
    d = dict(c)
    d["survival"] = not c["survival"]
    b = val(d)
    diff = (a - b) if c["survival"] else (b - a)
    if not (diff > 0):
        return res.fail("option_survival", {"with": a if c["survival"] else b, "without": b if c["survival"] else a}, option="survival")
    # removal probability in JSON acts exactly as the constructor argument does
    if "r" in c:
        from torchtree.evolution.bdsk import PiecewiseConstantBirthDeath

        rates = [epi(R, dd, s, c["r"][i]) for i, (R, dd, s) in enumerate(zip(c["R"], c["delta"], c["s"]))]
        dist = PiecewiseConstantBirthDeath(torch.tensor([x[0] for x in rates]), torch.tensor([x[1] for x in rates]), torch.tensor([x[2] for x in rates]),
                                           rho=torch.tensor(c["rho"]), origin=torch.tensor([x0]), times=torch.tensor(T[:-1]) if m > 1 else None,
                                           survival=c["survival"], removal_probability=torch.tensor(c["r"]))
        nh = torch.tensor(c["tree"]["tip_heights"] + [h[i] for i in range(topo.n, 2 * topo.n - 1)])
        w = float(arr(dist.log_prob(nh)).reshape(-1)[0])
        if abs(a - w) > 1e-9 * max(1.0, abs(a)):
            return res.fail("option_removal_probability", {"json": a, "constructor": w}, option="removal_probability")
        d = dict(c)
        d.pop("r")
        if abs(val(d) - a) < 1e-12 and any(x < 1 for x in c["r"]):
            return res.fail("option_removal_probability_ignored", {"value": a}, option="removal_probability")
    return res


def subchecks(tier):
    return [
        Sub("ode", body, strategy=lambda: case(allow_r=True), quick=400, thorough=20000, pretags=pretags),
        Sub("constant", constant_body, strategy=lambda: case(force_m=1, allow_r=False), quick=200, thorough=12000, pretags=pretags),
        Sub("refine", refine_body, strategy=refine_case, quick=400, thorough=15000, pretags=pretags),
        Sub("options", options_body, strategy=lambda: case(mmax=4), quick=200, thorough=12000, pretags=pretags),
    ]
