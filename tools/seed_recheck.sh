#!/bin/bash
# re-evaluate every kept seeded change against the checks recorded in its meta.json (parallel):  tools/seed_recheck.sh [JOBS] > results
J=${1:-4}
cd /verif
for d in seeded/*/; do
  n=$(basename $d)
  cb=$(/venv/bin/python -c "import json;print(','.join(json.load(open('seeded/$n/meta.json'))['caught_by']))")
  [ -z "$cb" ] && continue
  echo "$n $cb"
done | xargs -P $J -L 1 bash -c 'VT_JOBS=4 tools/seed_eval.py $0 seeded/$0/patch.diff seeded/$0/demo.py --checks $1 2>&1 | grep "^RESULT\|PATCH DOES NOT"'
