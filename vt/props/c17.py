"""C17 - a checkpoint restores the whole run state; resuming continues the same run.

Every case is a complete JSON configuration file (parameters, a small differentiable target, and an
Optimizer or an MCMC object) written into a private temporary directory.  It is run *in process*
through ``torchtree.torchtree.main`` (argv patched, cwd switched to the temporary directory because
torchtree writes checkpoints and logs relative to cwd), interrupted at an epoch N that coincides with
a checkpoint, and restarted with ``-c <checkpoint file>`` exactly as a user would.

(a) round trip: the state of the live objects at the moment ``save_full_state`` is entered (wrapped
    on the class by the harness, nothing is added to /repo) is compared with the state of the objects
    that ``main --dry -c`` builds: parameter values / dtype / nn-ness, torch optimiser state *per
    parameter*, param-group options, scheduler state, operator tuning values, counters and acceptance
    windows, integrator, adaptor state, mass matrices, and the iteration counter (the restarted object
    must be about to execute epoch N+1).
(b) trajectory: an uninterrupted run to T is compared, checkpoint by checkpoint, with "run to N,
    restart with -c, continue to T".  Random draws: the state of torch's generator is captured when
    the checkpoint at N is written and put back at the start of the resumed ``run()``, so both runs
    consume the same random stream; what is compared is therefore a deterministic function of the
    restored state.
"""
import contextlib
import json
import logging
import os
import shutil
import signal
import sys
import tempfile
from collections import deque

import torch
from hypothesis import strategies as st

from vt import tt
from vt.gen.basic import fl, logu
from vt.runner import Res, Sub, impl_frame, raises_kind

PROPERTY = "C17"
LEVEL = "exploration"
RULE = (
    "Hypothesis draws a complete run configuration: Optimizer x torch optimiser (SGD +-momentum/nesterov, Adam(+amsgrad), AdamW, Adagrad, "
    "RMSprop(+momentum, centered), Adadelta, Adamax, NAdam, RAdam, ASGD, Rprop, LBFGS(+strong_wolfe)) with drawn options x scheduler (none, "
    "LambdaLR from a string lambda, StepLR, ExponentialLR, MultiStepLR, CosineAnnealingLR, LinearLR, PolynomialLR, ConstantLR, "
    "CosineAnnealingWarmRestarts) x 1-3 parameters of length 1-4 (dtype absent/float32/float64, nn.Parameter or tensor, written as "
    "tensor/full/dimension/ones/zeros, plain or behind an ExpTransform TransformedParameter, listed by id, as Parametric object or as param "
    "groups with their own lr) x optionally K further parameters written once inside a Plate (range with any start, ${var} or * ids, Plate of Distributions with the parameter inline or Plate of "
    "Parameters at the top level) x optionally both comment forms ('_' keys, objects with ignore=true) around and inside them x zeros_like / ones_like / full_like definitions "
    "x sizes drawn across the one-digit / two-digit boundary (1-16 plate parameters, vectors up to length 12, up to 13 operators, acceptance windows of 12, "
    "up to 12 or two-digit MultiStepLR milestones, N up to 12, one param group per tensor) x --dtype on the command line x target (Normal/Gamma joint with a hierarchical link, or a mean-field ELBO "
    "with drawn sample count) x checkpoint name / frequency / checkpoint_all; or MCMC x a drawn operator set (Scaler, SlidingWindow, "
    "Dirichlet, HMC with diagonal or dense mass matrix) x adaptors (AdaptiveStepSize +-acceptance rate, DualAveragingStepSize, "
    "MassMatrixAdaptor +-regularize / swap_every / variance_window / restart) x weights, acceptance windows, disable_adaptation, dtype, logger; "
    "plus the interruption epoch N (a multiple of the checkpoint frequency), the final epoch T and the torch seed. "
    "Sub-check 'stages': 2-3 such algorithms (any mix) in ONE configuration, identifiers prefixed per stage, each with its own checkpoint file and frequency, "
    "optionally a later stage's prior centred on an earlier stage's parameter; the run dies in a drawn stage j at a checkpoint; main() is restarted with a drawn subset and order "
    "of the available -c files; per stage the restored state, every later checkpoint and the final state must equal the uninterrupted run (a stage without -c file starts afresh, "
    "a completed stage must have nothing left to do). "
    "Sub-check 'roundtrip': run to N, restart with --dry -c, compare live state. 'trajectory': additionally full run to T vs resumed run, "
    "compared at every checkpoint after N. 'grid': every optimiser x every scheduler once, every adaptor set x mass matrix form once, and long runs that restart "
    "in the middle of a variance window / between two estimator swaps (enumerated). "
    "'grid' also holds three fixed multi-stage analyses x every order of their -c files x linked or not. Non-trivial = N >= 2 (moments / counters non-zero) and at least one scheduler or adaptor (for MCMC: an adapting operator); for 'trajectory' also T > N. "
    "For 'stages': at least two -c files and a non-trivial restarted stage. Distinct = the whole configuration without seed and initial values."
)
ASSUMPTIONS = [
    "in 'stages' the generator state of the uninterrupted run at the corresponding point (run() entry for a stage that starts afresh, the checkpoint for a stage that resumes) is "
    "restored at every stage's run(); a multi-stage analysis whose uninterrupted run ends in MCMC.run's ZeroDivisionError summary is dropped; the GMRF block operator is not used in 'stages' (taxon names would clash)",
    "the random stream is not part of a checkpoint and the property does not promise it: for the trajectory comparison the harness captures "
    "torch's generator state when the checkpoint at N is written and restores it when the resumed run() starts; the comparison is then exact (bitwise)",
    "tuple vs list (e.g. Adam betas after JSON) is not reported: only values, dict key types, tensor dtypes / shapes / nn-ness and scalar types are compared",
    "operator attribute `saved_tensors` (scratch copy made at the start of every step) is not run state and is not compared",
    "the iteration counter is compared semantically: after a checkpoint written at the end of epoch N the restarted object must be about to run epoch N+1 "
    "(the raw value stored under 'iteration' is free); when the restarted object would replay epoch N this is reported once ('epoch_replayed') and the harness "
    "advances the counter so that the trajectory comparison still tests everything else",
    "when the round trip already lost state for a case, its trajectory is not compared (the divergence is a consequence, the cause is what is reported)",
    "parameters are vectors (a leading dimension is a sample dimension in torchtree); dense mass matrices are the only 2-D tensors",
    "ReduceLROnPlateau / CyclicLR / OneCycleLR / SequentialLR / ChainedScheduler cannot be driven by torchtree.Optimizer (step needs a metric / callables / scheduler objects) and are not generated; "
    "loggers are only attached to MCMC (Optimizer calls loggers as functions, which Logger does not support: outside this property)",
    "torch.optim.Optimizer.load_state_dict casts every floating-point state tensor except 'step' to the dtype of its parameter (also after torch.save / torch.load): "
    "state that the optimiser itself keeps in another dtype (NAdam mu_product, ASGD eta / mu with a float32 parameter in a float64 session) is compared after that cast, "
    "the trajectory of such a case is not compared, and LBFGS (one flat history for all parameters) is only generated with parameters of one dtype",
    "a case whose *uninterrupted* execution raises inside torchtree (e.g. an adapted dense mass matrix that is no longer positive definite) is counted (label discarded_baseline_raises) and dropped; "
    "MCMC.run's final per-operator summary divides by zero for an operator that was never drawn: tolerated, it happens after the last checkpoint; "
    "two executions of the same configuration and seed that differ are a harness error, not a verdict",
]

ALG_ID = {"opt": "opt", "mcmc": "mcmc"}


# =========================================================================== normalisation / comparison
def norm(o):
    """canonical, JSON-able, type-preserving picture of a state value"""
    if isinstance(o, torch.Tensor):
        return {"#": "tensor", "dtype": str(o.dtype), "nn": isinstance(o, torch.nn.Parameter), "shape": list(o.shape),
                "v": o.detach().cpu().tolist()}
    if isinstance(o, dict):
        items = []
        for k, v in o.items():
            kk = k if (k is None or isinstance(k, (str, int, float, bool))) else repr(k)
            items.append([type(k).__name__, kk, norm(v)])
        items.sort(key=lambda e: (e[0], str(e[1])))
        return {"#": "dict", "items": items}
    if isinstance(o, (list, tuple, deque)):
        return [norm(v) for v in o]
    if o is None or isinstance(o, (bool, int, float, str)):
        return o
    if hasattr(o, "tensor") and hasattr(o, "id"):  # a torchtree Parameter inside a state dict
        t, e = _try(lambda: o.tensor)
        return {"#": "parameter", "id": getattr(o, "id", None), "t": norm(t) if e is None else "<unreadable>"}
    return {"#": "object", "cls": type(o).__name__}


def _try(fn):
    try:
        return fn(), None
    except Exception as e:  # noqa
        return None, e


def _short(x, n=160):
    try:
        s = json.dumps(_plain(x), sort_keys=True)
    except Exception:  # noqa
        s = repr(x)
    return s if len(s) <= n else s[: n - 3] + "..."


def _plain(x):
    """normalised value -> compact readable form for reports"""
    if isinstance(x, dict):
        if x.get("#") == "tensor":
            return {"tensor": x["v"], "dtype": x["dtype"].replace("torch.", ""), **({"nn": True} if x["nn"] else {})}
        if x.get("#") == "dict":
            return {("%s" % k if t == "str" else "%s<%s>" % (k, t)): _plain(v) for t, k, v in x["items"]}
        return {k: _plain(v) for k, v in x.items()}
    if isinstance(x, list):
        return [_plain(v) for v in x]
    return x


def _same_scalar(a, b):
    if type(a) is not type(b):
        return False
    if isinstance(a, float) and a != a and b != b:
        return True
    return a == b


def diff(a, b, path="", out=None, limit=8):
    """list of (path, before, after) where two normalised values differ"""
    if out is None:
        out = []
    if len(out) >= limit:
        return out
    da, db = isinstance(a, dict), isinstance(b, dict)
    if da and db and a.get("#") == b.get("#"):
        kind = a.get("#")
        if kind == "dict":
            ka = {(t, k): v for t, k, v in a["items"]}
            kb = {(t, k): v for t, k, v in b["items"]}
            for key in sorted(set(ka) | set(kb), key=lambda e: (str(e[1]), e[0])):
                p = "%s/%s%s" % (path, key[1], "" if key[0] == "str" else "<%s>" % key[0])
                if key not in ka:
                    out.append((p, "<absent>", _short(kb[key])))
                elif key not in kb:
                    out.append((p, _short(ka[key]), "<absent>"))
                else:
                    diff(ka[key], kb[key], p, out, limit)
                if len(out) >= limit:
                    break
            return out
        if kind == "tensor":
            for f in ("dtype", "nn", "shape"):
                if a[f] != b[f]:
                    out.append(("%s.%s" % (path, f), a[f], b[f]))
                    return out
            if not _same_values(a["v"], b["v"]):
                out.append((path, _short(a["v"]), _short(b["v"])))
            return out
        for k in sorted(set(a) | set(b)):
            if k not in a or k not in b:
                out.append(("%s/%s" % (path, k), _short(a.get(k, "<absent>")), _short(b.get(k, "<absent>"))))
            else:
                diff(a[k], b[k], "%s/%s" % (path, k), out, limit)
        return out
    if isinstance(a, list) and isinstance(b, list):
        if len(a) != len(b):
            out.append((path + ".len", len(a), len(b)))
            return out
        for i, (u, v) in enumerate(zip(a, b)):
            diff(u, v, "%s[%d]" % (path, i), out, limit)
            if len(out) >= limit:
                break
        return out
    if da or db or isinstance(a, list) or isinstance(b, list):
        out.append((path, _short(a), _short(b)))
        return out
    if not _same_scalar(a, b):
        out.append((path, "%r" % (a,), "%r" % (b,)))
    return out


def _same_values(u, v):
    if isinstance(u, list) and isinstance(v, list):
        return len(u) == len(v) and all(_same_values(x, y) for x, y in zip(u, v))
    if isinstance(u, list) or isinstance(v, list):
        return False
    return _same_scalar(u, v)


def _dd(diffs):
    return [list(d) for d in diffs[:8]]


# =========================================================================== snapshots of live objects
_SCRATCH = {"saved_tensors"}


def _vars_state(obj, depth=0):
    """generic picture of an operator / adaptor / integrator: every attribute that is a value (number, tensor,
    list, deque, ...) or a plain helper object of torchtree.ops; references to other torchtree objects
    (parameters, models, integrators, adaptors: handled by their owners) are skipped"""
    out = {}
    for k, v in sorted(vars(obj).items()):
        if k in _SCRATCH:
            continue
        mod = type(v).__module__ or ""
        if mod.startswith("torchtree."):
            if mod.startswith("torchtree.ops") and depth < 3:
                out[k] = {"#": "dict", "items": [["str", kk, vv] for kk, vv in sorted(_vars_state(v, depth + 1).items())]}
            continue
        if isinstance(v, (list, tuple)) and any((type(e).__module__ or "").startswith("torchtree.") for e in v):
            continue
        if callable(v) and not isinstance(v, torch.Tensor):
            continue
        out[k] = norm(v)
    return out


def _as_dict(d):
    return {"#": "dict", "items": [["str", k, v] for k, v in sorted(d.items())]}


def snap_params(alg):
    return {p.id: norm(p.tensor) for p in alg.parameters}


def snap_opt(alg):
    opt = alg.optimizer
    flat = [p for g in opt.param_groups for p in g["params"]]
    bykey = {id(k): v for k, v in opt.state.items() if isinstance(k, torch.Tensor)}
    per, pdtype, lossy = {}, {}, False
    for i, t in enumerate(flat):
        pid = alg.parameters[i].id if i < len(alg.parameters) else "#%d" % i
        st_ = bykey.get(id(t))
        per[pid] = norm(st_) if st_ is not None else None
        pdtype[pid] = t.dtype
        lossy = lossy or _has_foreign_dtype(st_, t.dtype)
    attached = {id(t) for t in flat}
    orphans = sorted(repr(k) if not isinstance(k, torch.Tensor) else "<tensor>" for k in opt.state if id(k) not in attached)
    groups = [norm({k: v for k, v in g.items() if k != "params"}) for g in opt.param_groups]
    s = {
        "kind": "opt",
        "cls": type(opt).__name__,
        "epoch": alg._epoch,
        "params": snap_params(alg),
        "per_param": per,
        "param_dtype": pdtype,
        "torch_casts_state": lossy,
        "orphans": orphans,
        "groups": groups,
        "group_sizes": [len(g["params"]) for g in opt.param_groups],
        "state_dict": norm(opt.state_dict()),
        "sched": None,
        "sched_cls": None,
    }
    if alg.scheduler is not None:
        s["sched"] = norm(alg.scheduler.state_dict())
        s["sched_cls"] = type(getattr(alg.scheduler, "scheduler", alg.scheduler)).__name__
    return s


def snap_mcmc(alg):
    sd = alg.state_dict()
    ops = {}
    for op_sd in sd.get("operators", []):
        d = dict(op_sd)
        ads = d.pop("adaptors", None)
        integ = d.pop("integrator", None)
        mm = d.pop("mass_matrix", None)
        ops[d.get("id")] = {
            "state": norm(d),
            "adaptors": None if ads is None else {a.get("id"): norm(a) for a in ads},
            "integrator": norm(integ),
            "mass_matrix": norm(mm),
        }
    live, cls = {}, {}
    for op in alg._operators:
        cls[op.id] = type(op).__name__
        lv = {"op": _as_dict(_vars_state(op)), "tuning": norm(_try(lambda: op.tuning_parameter)[0]), "adaptors": {}, "integrator": None, "mass": None}
        mmp = getattr(op, "_mass_matrix", None)
        if mmp is not None:
            lv["mass"] = norm(_try(lambda: mmp.tensor)[0])
        integ = getattr(op, "_integrator", None)
        if integ is not None:
            cls[integ.id] = type(integ).__name__
            lv["integrator"] = _as_dict(_vars_state(integ))
        for a in getattr(op, "_adaptors", []) or []:
            cls[a.id] = type(a).__name__
            lv["adaptors"][a.id] = _as_dict(_vars_state(a))
        live[op.id] = lv
    rest = norm({k: v for k, v in sd.items() if k not in ("operators", "iteration")})
    return {"kind": "mcmc", "epoch": alg._epoch, "params": snap_params(alg), "ops": ops, "live": live, "cls": cls, "rest": rest}


def snapshot(alg):
    s = snap_opt(alg) if hasattr(alg, "optimizer") else snap_mcmc(alg)
    s["rng"] = torch.get_rng_state()
    return s


# =========================================================================== comparison of two snapshots
def _torch_policy(state, dtype):
    """what torch.optim.Optimizer.load_state_dict itself does to the state of one parameter (independently of how
    the state was stored): every floating point tensor except 'step' is cast to the dtype of the parameter, also
    inside lists.  Scalars such as NAdam's mu_product or ASGD's eta / mu are created in the default dtype and
    LBFGS keeps one flat (promoted) history under its first parameter, so with a float32 parameter in a float64
    session they come back as float32 even from torch.save / torch.load: upstream behaviour, not asserted."""
    if dtype is None:
        return state

    def cast(v, key=None):
        if isinstance(v, dict) and v.get("#") == "tensor":
            if key != "step" and v["dtype"] in ("torch.float32", "torch.float64", "torch.float16", "torch.bfloat16") and v["dtype"] != str(dtype):
                src = getattr(torch, v["dtype"].split(".")[-1])
                return dict(v, dtype=str(dtype), v=torch.tensor(v["v"], dtype=src).to(dtype).tolist())
            return v
        if isinstance(v, dict) and v.get("#") == "dict":
            return {"#": "dict", "items": [[t, k, cast(x, k)] for t, k, x in v["items"]]}
        if isinstance(v, list):
            return [cast(x) for x in v]
        return v

    return cast(state)


def _has_foreign_dtype(v, dtype, key=None):
    if isinstance(v, torch.Tensor):
        return key != "step" and v.is_floating_point() and v.dtype != dtype
    if isinstance(v, dict):
        return any(_has_foreign_dtype(x, dtype, k) for k, x in v.items())
    if isinstance(v, (list, tuple)):
        return any(_has_foreign_dtype(x, dtype) for x in v)
    return False


def compare(before, after, add, restart=True):
    """add(kind, detail, **tags) for every part of the run state that differs (iteration handled by the caller);
    restart=True: `after` went through torch's load_state_dict, see _torch_policy"""
    d = []
    for pid in sorted(set(before["params"]) | set(after["params"])):
        diff(before["params"].get(pid, "<absent>"), after["params"].get(pid, "<absent>"), "param:" + pid, d)
    if d:
        what = "dtype" if any(p.endswith(".dtype") for p, _, _ in d) else "nn" if any(p.endswith(".nn") for p, _, _ in d) else "value"
        add("param", {"diffs": _dd(d)}, bucket="Parameter", what=what)
    if before["kind"] == "opt":
        d = []
        for pid in sorted(set(before["per_param"]) | set(after["per_param"])):
            bp = before["per_param"].get(pid)
            diff(_torch_policy(bp, before["param_dtype"].get(pid)) if restart else bp, after["per_param"].get(pid), "state[%s]" % pid, d)
        if not d and not (restart and before["torch_casts_state"]):
            diff(before["state_dict"], after["state_dict"], "state_dict", d)
        if d or after["orphans"]:
            # state that is present after the restart but attached to no parameter (string keys "0", "1", ...)
            lost_keys = bool(after["orphans"]) and not before["orphans"]
            add("int_keys_lost:optimizer" if lost_keys else "optim_state",
                {"diffs": _dd(d), "unattached_state_keys_after_restart": after["orphans"][:6]}, bucket=before["cls"])
        d = []
        diff(before["groups"], after["groups"], "param_groups", d)
        diff(before["group_sizes"], after["group_sizes"], "param_groups.sizes", d)
        if d:
            add("param_group", {"diffs": _dd(d)}, bucket=before["cls"])
        d = []
        diff(before["sched"], after["sched"], "scheduler", d)
        if d:
            # only integer keys that came back as strings?
            keytype = any("<int>" in p for p, _, _ in d) and all("<int>" in p or q == "<absent>" for p, q, _ in d)
            add("int_keys_lost:scheduler" if keytype else "scheduler", {"diffs": _dd(d)}, bucket=before["sched_cls"] or after["sched_cls"] or "Scheduler")
        return
    # ---- MCMC
    cls = dict(after["cls"])
    cls.update(before["cls"])
    d = []
    diff(before["rest"], after["rest"], "mcmc", d)
    if d:
        add("mcmc_state", {"diffs": _dd(d)}, bucket="MCMC")
    for oid in sorted(set(before["ops"]) | set(after["ops"]) | set(before["live"]) | set(after["live"])):
        b, a = before["ops"].get(oid), after["ops"].get(oid)
        lb, la = before["live"].get(oid), after["live"].get(oid)
        ocls = cls.get(oid, "?")
        if b is None or a is None or lb is None or la is None:
            add("operator_state", {"operator": oid, "diffs": [["operators", "present" if b else "absent", "present" if a else "absent"]]}, bucket=ocls)
            continue
        d = []
        diff(b["state"], a["state"], "state_dict[%s]" % oid, d)
        diff(lb["op"], la["op"], "%s" % oid, d)
        diff(lb["tuning"], la["tuning"], "%s/tuning_parameter" % oid, d)
        _by_field(add, "operator_state", d, {"operator": oid}, ocls)
        d = []
        diff(b["mass_matrix"], a["mass_matrix"], "state_dict[%s]/mass_matrix" % oid, d)
        diff(lb["mass"], la["mass"], "%s/mass_matrix" % oid, d)
        _by_field(add, "mass_matrix", d, {"operator": oid}, ocls)
        d = []
        diff(b["integrator"], a["integrator"], "state_dict[%s]/integrator" % oid, d)
        diff(lb["integrator"], la["integrator"], "%s/integrator" % oid, d)
        _by_field(add, "integrator_state", d, {"operator": oid}, "LeapfrogIntegrator")
        ba, aa = b["adaptors"] or {}, a["adaptors"] or {}
        for aid in sorted(set(ba) | set(aa) | set(lb["adaptors"]) | set(la["adaptors"])):
            d = []
            diff(ba.get(aid), aa.get(aid), "state_dict[%s]/adaptors[%s]" % (oid, aid), d)
            diff(lb["adaptors"].get(aid), la["adaptors"].get(aid), "%s" % aid, d)
            _by_field(add, "adaptor_state", d, {"operator": oid, "adaptor": aid}, cls.get(aid, "?"))


def _field(path):
    """'op0.ad1/variance_estimator/_variance.dtype' -> 'variance_estimator.dtype': the attribute of the object and what was lost"""
    import re

    parts = path.split("/")[1:] or [path]
    parts = [q for q in parts if not q.startswith("adaptors[") and q not in ("integrator", "mass_matrix")] or ["value"]
    f = ".".join(parts)
    f = re.sub(r"\[\d+\]", "", f)
    f = re.sub(r"<\w+>", "", f)
    m = re.search(r"\.(dtype|nn|shape)$", f)
    return f.split(".")[0] + (m.group(0) if m else "")


def _by_field(add, kind, diffs, info, cls):
    groups = {}
    for dd in diffs:
        src = "state_dict:" if dd[0].startswith("state_dict[") else ""
        groups.setdefault(src + _field(dd[0]), []).append(dd)
    for fld, dl in sorted(groups.items()):
        add("%s:%s" % (kind, fld), dict(info, diffs=_dd(dl)), bucket=cls, field=fld)


# =========================================================================== in-process driver
class _ErrHandler(logging.Handler):
    def __init__(self):
        super().__init__(level=logging.ERROR)
        self.records = []

    def emit(self, record):
        self.records.append(record.getMessage())


@contextlib.contextmanager
def workdir():
    old = os.getcwd()
    d = tempfile.mkdtemp(prefix="vt-c17-")
    os.chdir(d)
    try:
        yield d
    finally:
        os.chdir(old)
        shutil.rmtree(d, ignore_errors=True)


class _StopRun(Exception):
    """raised by a harness hook to end main() before run() (the state to continue from is already known to be wrong)"""


def _alg_classes():
    from torchtree.inference.mcmc.mcmc import MCMC
    from torchtree.optim.optimizer import Optimizer

    return Optimizer, MCMC


LAST_RUN = {}  # flags of the most recent run_main (summary_zero_division, stopped)


def run_main(argv, on_save=None, on_run=None, on_done=None):
    """torchtree.torchtree.main() with the given command line; returns (registry of objects, error messages
    logged).  The harness wraps, for the duration of the call only: process_objects as seen by main (to get the
    registry), save_full_state and run of Optimizer / MCMC (to observe / to restore the random stream)."""
    tt.load_all()
    from torchtree import torchtree as ttm

    classes = _alg_classes()
    reg = {}
    orig_po = ttm.process_objects

    def process_objects(data, dic, *a, **k):
        reg["dic"] = dic
        return orig_po(data, dic, *a, **k)

    patches = []

    def patch(cls, name, make):
        orig = getattr(cls, name)
        setattr(cls, name, make(orig))
        patches.append((cls, name, orig))

    def mk_save(orig):
        def save_full_state(self, *a, **k):
            if on_save is not None:
                on_save(self)
            return orig(self, *a, **k)

        return save_full_state

    def mk_run(orig):
        def run(self, *a, **k):
            if on_run is not None:
                on_run(self)
            r = orig(self, *a, **k)
            if on_done is not None:
                on_done(self)
            return r

        return run

    old_argv, old_dtype, old_sig = sys.argv, torch.get_default_dtype(), signal.getsignal(signal.SIGINT)
    handler = _ErrHandler()
    root = logging.getLogger()
    root.addHandler(handler)
    ttm.process_objects = process_objects
    for c in classes:
        patch(c, "save_full_state", mk_save)
        patch(c, "run", mk_run)
    sys.argv = ["torchtree"] + list(argv)
    try:
        try:
            ttm.main()
        except SystemExit as e:
            raise RuntimeError("torchtree.main exited (%s) for argv %s" % (e.code, argv))
        except _StopRun:
            reg["stopped"] = True
        except ZeroDivisionError as e:
            # MCMC.run prints accept/(accept+reject) per operator after the last iteration (loggers closed, all
            # checkpoints written) and divides by zero for an operator that was never drawn: not this property's subject
            if impl_frame(e) != os.path.join("torchtree", "inference", "mcmc", "mcmc.py") + ":run":
                raise
            reg["summary_zero_division"] = True
    finally:
        sys.argv = old_argv
        ttm.process_objects = orig_po
        for cls, name, orig in reversed(patches):
            setattr(cls, name, orig)
        root.removeHandler(handler)
        torch.set_default_dtype(old_dtype)
        try:
            signal.signal(signal.SIGINT, old_sig)
        except Exception:  # noqa
            pass
    LAST_RUN.clear()
    LAST_RUN.update({k: v for k, v in reg.items() if k != "dic"})
    return reg.get("dic", {}), handler.records


# =========================================================================== case -> configuration file
LIKE_FORMS = ("zeros_like", "ones_like", "full_like")


def _pspec(id_, values, dtype=None, nn=False, form="tensor", like=None):
    d = {"id": id_, "type": "Parameter"}
    n = len(values)
    if form in LIKE_FORMS:
        d[form] = like  # id of an already defined parameter that gives shape and dtype
        if form == "full_like":
            d["tensor"] = values[0]
    elif form == "full":
        d["full"] = [n]
        d["tensor"] = values[0]
    elif form == "dimension":
        d["tensor"] = values[:1]
        d["dimension"] = n
    elif form in ("ones", "zeros"):
        d[form] = [n]
    else:
        d["tensor"] = list(values)
    if dtype:
        d["dtype"] = "torch." + dtype
    if nn:
        d["nn"] = True
    return d


def _dist(id_, distribution, x, parameters):
    return {"id": id_, "type": "Distribution", "distribution": "torch.distributions." + distribution, "x": x, "parameters": parameters}


SCHED_TYPE = "torchtree.optim.lr_scheduler.Scheduler"


def opt_config(c, iterations):
    spec, dists, opt_ids, par_ids, defined = [], [], [], [], {}
    elbo = c["target"] == "elbo"
    for i, p in enumerate(c["params"]):
        pid = "p%d" % i
        kw = {} if elbo else {"dtype": p.get("dtype"), "nn": p.get("nn", False), "form": p.get("form", "tensor")}
        if elbo and p.get("dtype"):
            kw["dtype"] = p["dtype"]
        if kw.get("form") in LIKE_FORMS:
            kw["like"] = pid + ".like"
            spec.append(_pspec(pid + ".like", [0.5] * len(p["values"]), dtype=p.get("like_dtype")))
        if p["kind"] == "pos":
            u = pid + ".unres"
            defined[pid] = {"id": pid, "type": "TransformedParameter", "transform": "torch.distributions.ExpTransform", "x": _pspec(u, p["values"], **kw)}
            prior = _dist("prior." + pid, "Gamma", None, {"concentration": [p["a"]], "rate": [p["b"]]})
            jac = True
        else:
            u = pid
            defined[pid] = _pspec(u, p["values"], **kw)
            loc = [p["a"]]
            prior = _dist("prior." + pid, "Normal", None, {"loc": loc, "scale": [p["b"]]})
            jac = False
        p_u = u
        dists.append((pid, prior, jac))
        opt_ids.append(u)
        par_ids.append(pid if p["kind"] == "pos" else u)
        p["_u"] = p_u
    # hierarchical link: the first real parameter is centred on the next real parameter of length 1 (or equal length)
    if c.get("couple"):
        reals = [i for i, p in enumerate(c["params"]) if p["kind"] == "real"]
        if len(reals) >= 2:
            i, j = reals[0], reals[1]
            if len(c["params"][j]["values"]) in (1, len(c["params"][i]["values"])):
                dists[i][1]["parameters"]["loc"] = "p%d" % j
                # the linked parameter has to be defined before it is referenced
                spec.append(defined.pop("p%d" % j))
    joint_list = []
    for pid, prior, jac in dists:
        prior["x"] = defined.pop(pid) if pid in defined else pid
        joint_list.append(prior)
        if jac:
            joint_list.append(pid)
    pl = c.get("plate")
    if pl and not elbo:
        ids = _add_plate(pl, spec, joint_list, "Normal", {"loc": [pl["a"]], "scale": [pl["b"]]})
        opt_ids += ids
        par_ids += ids
    spec.append({"id": "joint", "type": "JointDistributionModel", "distributions": joint_list})
    loss = "joint"
    if elbo:
        qd, opt_ids, par_ids = [], [], []
        for i, p in enumerate(c["params"]):
            u = p["_u"]
            n = len(p["values"])
            kw = {"dtype": p.get("dtype"), "nn": p.get("nn", False)}
            loc = _pspec("q.%s.loc" % u, p["values"], form=p.get("form", "tensor"), **kw)
            sc = {"id": "q.%s.scale" % u, "type": "TransformedParameter", "transform": "torch.distributions.ExpTransform",
                  "x": _pspec("q.%s.scale.unres" % u, [p["qs"]] * n, **kw)}
            qd.append(_dist("q.%s" % u, "Normal", u, {"loc": loc, "scale": sc}))
            opt_ids += ["q.%s.loc" % u, "q.%s.scale.unres" % u]
            par_ids += ["q.%s.loc" % u, "q.%s.scale" % u]
        spec.append({"id": "q", "type": "JointDistributionModel", "distributions": qd})
        spec.append({"id": "elbo", "type": "ELBO", "samples": c["elbo_samples"], "joint": "joint", "variational": "q"})
        loss = "elbo"
    for p in c["params"]:
        p.pop("_u", None)
    o = c["optim"]
    opt = {"id": "opt", "type": "Optimizer", "algorithm": "torch.optim." + o["name"], "options": dict(o["options"]), "iterations": iterations, "loss": loss}
    where = c.get("maximize_in", "data")
    if where == "data":
        opt["maximize"] = True
    elif where == "options":
        opt["options"]["maximize"] = True
    style = c.get("pstyle", "ids")
    if style == "parametric":
        opt["parameters"] = par_ids
    elif style == "groups" and len(opt_ids) >= 2:
        opt["parameters"] = [{"params": opt_ids[:1]}, {"params": opt_ids[1:], "lr": c["group_lr"]}]
    elif style == "each":  # one param group per tensor (the list of param groups grows with the plate)
        opt["parameters"] = [dict({"params": [u]}, **({"lr": c["group_lr"]} if k % 2 else {})) for k, u in enumerate(opt_ids)]
    else:
        opt["parameters"] = opt_ids
    ck = c.get("ckname")
    if ck is not None:
        opt["checkpoint"] = ck
    opt["checkpoint_frequency"] = c["f"]
    if c.get("ckall"):
        opt["checkpoint_all"] = True
    if c.get("sched"):
        s = {"type": SCHED_TYPE, "scheduler": "torch.optim.lr_scheduler." + c["sched"]["name"]}
        s.update(c["sched"]["args"])
        opt["scheduler"] = s
    spec.append(opt)
    return _with_comments(spec) if c.get("comments") else spec


def _add_plate(pl, spec, joint_list, distribution, parameters):
    """K parameters w.<i> written once inside a Plate (expand_plates: 'range', ids ending in '*' or containing ${var}),
    either a Plate of Distributions with the parameter inline, placed in the joint's list, or a Plate of Parameters
    at the top level; returns the expanded ids"""
    lo = pl.get("start", 0)
    idx = list(range(lo, lo + pl["k"]))
    tok = "${%s}" % pl["var"] if pl["syntax"] == "var" else "*"
    par = _pspec("w." + tok, pl["values"], dtype=pl.get("dtype"), nn=pl.get("nn", False), form=pl.get("form", "tensor"))
    plate = {"type": pl.get("type", "Plate"), "range": "%d:%d" % (lo, lo + pl["k"])}
    if pl["syntax"] == "var":
        plate["var"] = pl["var"]
    if pl["where"] == "dist":
        plate["object"] = _dist("prior.w." + tok, distribution, par, parameters)
        joint_list.append(plate)
    else:
        plate["object"] = par
        spec.append(plate)
        for i in idx:
            joint_list.append(_dist("prior.w.%d" % i, distribution, "w.%d" % i, parameters))
    return ["w.%d" % i for i in idx]


def _with_comments(spec):
    """the same analysis with the two comment forms of remove_comments sprinkled over it: keys starting with '_' and
    objects carrying "ignore": true (list elements and dict values), also inside and next to a Plate"""
    import copy

    spec = copy.deepcopy(spec)

    def walk(x):
        if isinstance(x, dict):
            for v in list(x.values()):
                walk(v)
            if x.get("type") in ("Parameter", "Distribution", "JointDistributionModel", "Optimizer", "MCMC", "Plate", "torchtree.Plate"):
                x["_comment"] = "generated by vt.props.c17"
            if x.get("type") in ("Optimizer", "MCMC"):
                x["alternative"] = {"ignore": True, "id": "unused", "type": "Parameter", "tensor": [1.0]}
        elif isinstance(x, list):
            for v in x:
                walk(v)
            if any(isinstance(v, dict) and str(v.get("type", "")).endswith(("Distribution", "Plate")) for v in x):
                x.insert(0, {"id": "ignored", "type": "Distribution", "ignore": True, "distribution": "torch.distributions.Normal",
                             "x": {"id": "p0", "type": "Parameter", "tensor": [123.0]}, "parameters": {"loc": [0.0], "scale": [1.0]}})

    walk(spec)
    out = [{"id": "w.0", "type": "Parameter", "tensor": [77.0], "ignore": True}]
    for el in spec:
        out.append(el)
        out.append({"ignore": True, "_why": "a disabled block between two objects"})
    return out


def ck_file(c, epoch):
    name = c.get("ckname")
    if name is None or name is True:
        name = "checkpoint.json"
    if c["alg"] == "opt" and c.get("ckall"):
        return name.replace(".json", "-%d.json" % epoch)
    return name


def mcmc_config(c, iterations):
    spec, dists, ops, logged = [], [], [], []
    dt = c.get("dtype")
    for i, o in enumerate(c["ops"]):
        oid = "op%d" % i
        base = {"id": oid, "weight": o["weight"]}
        if o.get("tap") is not None:
            base["target_acceptance_probability"] = o["tap"]
        if o.get("disable"):
            base["disable_adaptation"] = True
        if o["type"] != "hmc" and o.get("awl") is not None:
            base["acceptance_window_length"] = o["awl"]
        if o["type"] == "scaler":
            pid = "x%d" % i
            dists.append(_dist("prior." + pid, "Gamma", _pspec(pid, o["values"], dtype=dt), {"concentration": [2.0], "rate": [1.5]}))
            base.update(type="ScalerOperator", parameters=pid, scaler=o["tuning"])
            logged.append(pid)
        elif o["type"] == "slide":
            pid = "y%d" % i
            dists.append(_dist("prior." + pid, "Normal", _pspec(pid, o["values"], dtype=dt), {"loc": [0.3], "scale": [1.5]}))
            base.update(type="SlidingWindowOperator", parameters=pid, width=o["tuning"])
            logged.append(pid)
        elif o["type"] == "gmrf":
            names = ["A", "B", "C", "D", "E"]
            dates = [0.0, 0.0, 0.5, 1.0, 0.0]
            spec.append({"id": "taxa", "type": "Taxa", "taxa": [{"id": n, "type": "Taxon", "attributes": {"date": d}} for n, d in zip(names, dates)]})
            tree = {"id": "tree", "type": "TimeTreeModel", "newick": "(((A:1,B:1):1,C:1.5):1,(D:1.5,E:2.5):0.5);", "taxa": "taxa",
                    "internal_heights": {"id": "tree.heights", "type": "Parameter", "tensor": [1.0, 2.0, 2.5, 3.0]}}
            dists.append({"id": "coalescent", "type": "PiecewiseConstantCoalescentGridModel", "tree_model": tree,
                          "theta": {"id": "theta", "type": "TransformedParameter", "transform": "torch.distributions.ExpTransform",
                                    "x": _pspec("theta.log", o["values"], dtype=dt)},
                          "grid": {"id": "grid", "type": "Parameter", "tensor": [0.8 * (k + 1) for k in range(len(o["values"]) - 1)]}})
            dists.append({"id": "gmrf", "type": "GMRF", "x": "theta.log", "precision": _pspec("gmrf.precision", [o["precision"]], dtype=dt)})
            dists.append(_dist("prior.gmrf.precision", "Gamma", "gmrf.precision", {"concentration": [1.0], "rate": [1.0]}))
            base.pop("acceptance_window_length", None)
            base.update(type="GMRFPiecewiseCoalescentBlockUpdatingOperator", coalescent="coalescent", gmrf="gmrf", scaler=o["tuning"])
            logged += ["theta.log", "gmrf.precision"]
        elif o["type"] == "dirichlet":
            pid = "s%d" % i
            dists.append(_dist("prior." + pid, "Dirichlet", _pspec(pid, o["values"], dtype=dt), {"concentration": [2.0 + 0.5 * k for k in range(len(o["values"]))]}))
            base.update(type="DirichletOperator", parameters=pid, scaler=o["tuning"])
            logged.append(pid)
        else:
            pids = []
            for j, vals in enumerate(o["values"]):
                pid = "z%d_%d" % (i, j)
                scale = [0.5 + 0.75 * ((k + j) % 3) for k in range(len(vals))]
                dists.append(_dist("prior." + pid, "Normal", _pspec(pid, vals, dtype=dt), {"loc": [0.1 * (j + 1)], "scale": scale}))
                pids.append(pid)
                logged.append(pid)
            dim = sum(len(v) for v in o["values"])
            if o["mass"] == "dense":
                m = [[(1.0 + 0.25 * r) if r == q else 0.0 for q in range(dim)] for r in range(dim)]
            else:
                m = [1.0 + 0.25 * r for r in range(dim)]
            mm = {"id": oid + ".mass", "type": "Parameter", "tensor": m}
            if dt:
                mm["dtype"] = "torch." + dt
            ads = []
            for k, a in enumerate(o["adaptors"]):
                aid = "%s.ad%d" % (oid, k)
                if a["type"] == "adaptive":
                    ad = {"id": aid, "type": "AdaptiveStepSize", "integrator": oid + ".int"}
                    if a.get("use_rate"):
                        ad["use_acceptance_rate"] = True
                elif a["type"] == "dual":
                    ad = {"id": aid, "type": "DualAveragingStepSize", "integrator": oid + ".int"}
                    for key in ("gamma", "kappa", "t0"):
                        if a.get(key) is not None:
                            ad[key] = a[key]
                else:
                    ad = {"id": aid, "type": "MassMatrixAdaptor", "parameters": pids, "mass_matrix": oid + ".mass", "update_frequency": a["freq"]}
                    if a.get("regularize") is False:
                        ad["regularize"] = False
                    if a.get("window"):
                        ad["variance_window"] = a["window"]
                    elif a.get("swap"):
                        ad["swap_every"] = a["swap"]
                    if a.get("restart"):
                        ad["restart_frequency"] = a["restart"]
                for key in ("start", "end"):
                    if a.get(key) is not None:
                        ad[key] = a[key]
                if a.get("tap") is not None and a["type"] != "mass":
                    ad["target_acceptance_probability"] = a["tap"]
                ads.append(ad)
            base.update(type="HMCOperator", joint="joint", parameters=pids,
                        integrator={"id": oid + ".int", "type": "LeapfrogIntegrator", "steps": o["steps"], "step_size": o["step_size"]},
                        mass_matrix=mm)
            if ads:
                base["adaptors"] = ads
            if o.get("frs"):
                base["find_reasonable_step_size"] = True
        ops.append(base)
    pl = c.get("plate")
    if pl:
        ids = _add_plate(dict(pl, dtype=dt, nn=False), spec, dists, "Normal", {"loc": [pl["a"]], "scale": [pl["b"]]})
        ops.append({"id": "opw", "type": "SlidingWindowOperator", "parameters": ids, "weight": 1.0, "width": 0.5, "acceptance_window_length": 5})
        logged += ids
    spec.append({"id": "joint", "type": "JointDistributionModel", "distributions": dists})
    m = {"id": "mcmc", "type": "MCMC", "joint": "joint", "iterations": iterations, "operators": ops, "checkpoint_frequency": c["f"], "every": c.get("every", 0)}
    ck = c.get("ckname")
    if ck is not None:
        m["checkpoint"] = ck
    if c.get("logger"):
        m["loggers"] = [{"id": "log", "type": "Logger", "parameters": ["joint"] + logged, "file_name": "samples.csv", "every": 1}]
    spec.append(m)
    return _with_comments(spec) if c.get("comments") else spec


def config_of(c, iterations):
    import copy

    c = copy.deepcopy(c)
    return opt_config(c, iterations) if c["alg"] == "opt" else mcmc_config(c, iterations)


def argv_of(c, config, extra=()):
    a = []
    if c.get("argv_dtype"):
        a += ["--dtype", c["argv_dtype"]]
    a += ["-s", str(c["torch_seed"])]
    return a + list(extra) + [config]


# =========================================================================== tags, keys, triviality
def tags_of(c):
    if c["alg"] == "stages":
        return {"alg": "stages", "stage_kinds": [st_["alg"] for st_ in c["stages"]], "n_files": len(c["files"])}
    if c["alg"] == "opt":
        default = c.get("argv_dtype") or "float64"
        # a parameter written as zeros_like / ones_like / full_like takes its dtype from the referenced parameter at construction
        lossy = c["target"] != "elbo" and any(p.get("form") in LIKE_FORMS and (p.get("like_dtype") or default) != (p.get("dtype") or default) for p in c["params"])
        return {"alg": "Optimizer", "optim": c["optim"]["name"], "sched": (c.get("sched") or {}).get("name", "none"), "target": c["target"],
                "plate": (c.get("plate") or {}).get("syntax", "none") if c["target"] != "elbo" else "none", "like_dtype_from_reference": lossy,
                "forms": sorted({p.get("form", "tensor") for p in c["params"]})}
    ops = sorted({o["type"] for o in c["ops"]})
    ads = sorted({a["type"] for o in c["ops"] if o["type"] == "hmc" for a in o["adaptors"]})
    default = c.get("argv_dtype") or "float64"
    return {"alg": "MCMC", "operators": ops, "adaptors": ads or ["none"], "mixed_dtype": (c.get("dtype") or default) != default,
            "find_reasonable_step_size": any(o.get("frs") for o in c["ops"]), "plate": (c.get("plate") or {}).get("syntax", "none")}


def key_of(c, sub):
    import copy

    k = copy.deepcopy(c)
    for x in [k] + k.get("stages", []):
        x.pop("torch_seed", None)
        for p in x.get("params", []):
            p.pop("values", None)
        for o in x.get("ops", []):
            o.pop("values", None)
    return [sub, k]


def nontrivial(c, need_continue):
    if c["N"] < 2:
        return False
    if need_continue and c["T"] <= c["N"]:
        return False
    if c["alg"] == "opt":
        return bool(c.get("sched")) or c["optim"]["name"] != "SGD" or c["optim"]["options"].get("momentum", 0) > 0
    for o in c["ops"]:
        if o["type"] == "hmc":
            if o["adaptors"] or not o.get("disable"):
                return True
        elif not o.get("disable"):
            return True
    return False


def _plate_labels(c):
    out = []
    pl = c.get("plate")
    if pl and c.get("target") != "elbo":
        out += ["plate=" + pl["syntax"], "plate_of=" + ("distributions" if pl["where"] == "dist" else "parameters")]
    if c.get("comments"):
        out.append("comments")
    return out


def labels_of(c):
    if c["alg"] == "stages":
        fl_ = c["files"]
        return ("stages=%d" % len(c["stages"]), "kinds=" + "+".join(st_["alg"] for st_ in c["stages"]), "interrupted_stage=%d" % c["j"],
                "files=%d/%d" % (len(fl_), c["j"] + 1), "order=" + ("config" if fl_ == sorted(fl_) else "permuted"), "linked" if c.get("link") else "independent")
    if c["alg"] == "opt":
        dts = sorted({p.get("dtype") or "default" for p in c["params"]})
        return ("opt", "optim=" + c["optim"]["name"], "sched=" + (c.get("sched") or {}).get("name", "none"), "target=" + c["target"],
                "argv_dtype=%s" % (c.get("argv_dtype") or "default"), "nn" if any(p.get("nn") for p in c["params"]) else "tensor",
                "pstyle=" + c.get("pstyle", "ids"), "ckall" if c.get("ckall") else "single", *("dtype=" + d for d in dts),
                *("form=" + f for f in sorted({p.get("form", "tensor") for p in c["params"]} & set(LIKE_FORMS))), *_plate_labels(c),
                "tensors>=11" if len(c["params"]) + ((c.get("plate") or {}).get("k", 0) if c["target"] != "elbo" else 0) >= 11 else "tensors<11",
                "N>=10" if c["N"] >= 10 else "N<10")
    labs = ["mcmc", "dtype=%s/%s" % (c.get("dtype") or "default", c.get("argv_dtype") or "default"), *_plate_labels(c),
            "operators>=10" if len(c["ops"]) + (1 if c.get("plate") else 0) >= 10 else "operators<10"]
    for o in c["ops"]:
        labs.append("op=" + o["type"])
        if o["type"] == "hmc":
            labs.append("mass=" + o["mass"])
            if o.get("frs"):
                labs.append("find_reasonable_step_size")
            for a in o["adaptors"]:
                labs.append("adaptor=" + a["type"])
                if a["type"] == "mass" and (a.get("swap") or a.get("window")):
                    labs.append("adaptor=mass+" + ("swap" if a.get("swap") else "window"))
    return tuple(sorted(set(labs)))


# =========================================================================== bodies
class HarnessProblem(Exception):
    pass


class Discard(Exception):
    """the uninterrupted execution itself failed inside torchtree (e.g. an adapted dense mass matrix that is not
    positive definite in float32): no restart is involved, the property says nothing; the case is counted and dropped"""


def _baseline(c, config, what, saves):
    """an execution without restart"""
    try:
        dic, errs = run_main(argv_of(c, config), on_save=lambda alg: saves.append(snapshot(alg)))
    except Exception as e:  # noqa
        if impl_frame(e) is None:
            raise
        raise Discard("%s:%s" % (type(e).__name__, (impl_frame(e) or "?").split(":")[-1])) from None
    if errs:
        raise HarnessProblem("%s logged errors: %s" % (what, errs[:3]))
    return dic


def _discardable(body):
    def wrapped(c):
        try:
            return body(c)
        except Discard as e:
            return Res(nontrivial=False, key=None, labels=("discarded_baseline_raises", "discarded:%s" % e), tags=tags_of(c))

    wrapped.__name__ = body.__name__
    return wrapped



def _write(name, spec):
    with open(name, "w") as f:
        json.dump(spec, f)


def _restart(c, res, argv, n_done, **hooks):
    """main() with -c; returns the restarted algorithm object or None (failures recorded)"""
    try:
        dic, errs = run_main(argv, **hooks)
    except Exception as e:  # noqa
        if impl_frame(e) is None:
            raise
        res.fail("restart_" + raises_kind(e), {"message": str(e)[:300], "argv": argv, "after_epochs": n_done}, bucket=_frame_cls(e))
        return None
    alg = dic.get(ALG_ID[c["alg"]])
    if errs or alg is None:
        res.fail("restart_error", {"logged": [m[:300] for m in errs[:3]], "algorithm_built": alg is not None, "argv": argv}, bucket=tags_of(c)["alg"])
        return None
    return alg


def _frame_cls(exc):
    """class whose method raised (innermost torchtree frame), for the bucket"""
    tb = exc.__traceback__
    found = None
    from vt.runner import REPO

    while tb is not None:
        fn = os.path.realpath(tb.tb_frame.f_code.co_filename)
        if fn.startswith(REPO + os.sep):
            slf = tb.tb_frame.f_locals.get("self")
            found = type(slf).__name__ if slf is not None else os.path.basename(fn)
        tb = tb.tb_next
    return found or "?"


def _check_epoch(res, c, epoch_after, n_done, alg=None):
    """the restarted object must be about to run epoch n_done+1; returns True when the state is usable"""
    alg = alg or tags_of(c)["alg"]
    if epoch_after == n_done + 1:
        return True
    if epoch_after == n_done:
        res.fail("epoch_replayed", {"checkpoint_written_after_epoch": n_done, "restarted_run_starts_with_epoch": epoch_after,
                                    "expected": n_done + 1}, bucket=alg)
        return True
    res.fail("iteration", {"checkpoint_written_after_epoch": n_done, "restarted_run_starts_with_epoch": epoch_after, "expected": n_done + 1}, bucket=alg)
    return False


def _res(c, sub, need_continue):
    return Res(nontrivial=nontrivial(c, need_continue), key=key_of(c, sub), labels=labels_of(c), tags=tags_of(c))


@_discardable
def body_roundtrip(c):
    torch.manual_seed(c["torch_seed"])
    res = _res(c, "roundtrip", False)
    N = c["N"]
    with workdir():
        _write("run.json", config_of(c, N))
        saves = []
        _baseline(c, "run.json", "run to N", saves)
        if not saves or len(saves) != N // c["f"]:
            raise HarnessProblem("expected %d checkpoints, saw %d" % (N // c["f"], len(saves)))
        before = saves[-1]
        ck = ck_file(c, N)
        if not os.path.exists(ck):
            raise HarnessProblem("checkpoint file %s was not written" % ck)
        left = [f for f in os.listdir(".") if f.endswith(".old") or f.endswith(".new")]
        if left:
            res.fail("leftover_files", {"files": left}, bucket=tags_of(c)["alg"])
        cfg2 = "run.json"
        if c.get("T", N) > N:
            _write("resume.json", config_of(c, c["T"]))
            cfg2 = "resume.json"
        alg = _restart(c, res, argv_of(c, cfg2, ["--dry", "-c", ck]), N)
        if alg is None:
            return res
        after = snapshot(alg)
        _check_epoch(res, c, after["epoch"], N)
        compare(before, after, res.fail)
    return res


@_discardable
def body_trajectory(c):
    torch.manual_seed(c["torch_seed"])
    res = _res(c, "trajectory", True)
    N, T, f = c["N"], c["T"], c["f"]
    with workdir() as d:
        # ---- uninterrupted run to T (in its own directory)
        os.mkdir("full")
        os.chdir("full")
        _write("run.json", config_of(c, T))
        full = []
        _baseline(c, "run.json", "uninterrupted run", full)
        os.chdir(d)
        if len(full) != T // f:
            raise HarnessProblem("uninterrupted run: expected %d checkpoints, saw %d" % (T // f, len(full)))
        # ---- run to N
        _write("run.json", config_of(c, N))
        part = []
        _baseline(c, "run.json", "run to N", part)
        if len(part) != N // f:
            raise HarnessProblem("run to N: expected %d checkpoints, saw %d" % (N // f, len(part)))
        before = part[-1]
        ref = full[N // f - 1]
        dd = []
        compare(ref, before, lambda kind, detail, **t: dd.append((kind, detail)), restart=False)
        if dd or not torch.equal(ref["rng"], before["rng"]):
            raise HarnessProblem("two executions of the same configuration and seed differ at epoch %d: %s" % (N, dd[:2]))
        # ---- restart and continue to T
        _write("resume.json", config_of(c, T))
        ck = ck_file(c, N)
        seen = {}
        resumed = []

        def on_run(alg):
            seen["snap"] = snapshot(alg)
            usable = _check_epoch(res, c, alg._epoch, N)
            n0 = len(res.fails)
            compare(before, seen["snap"], res.fail)
            if len(res.fails) > n0 or not usable or before.get("torch_casts_state"):
                seen["stop"] = True
                raise _StopRun()  # nothing sound can be said about the continuation
            if alg._epoch != N + 1:
                alg._epoch = N + 1  # see ASSUMPTIONS: reported once, then compensated
            torch.set_rng_state(before["rng"])

        alg = _restart(c, res, argv_of(c, "resume.json", ["-c", ck]), N, on_run=on_run, on_save=lambda a: resumed.append(snapshot(a)))
        if alg is None:
            return res
        if "snap" not in seen:
            res.fail("not_run", {"what": "the restarted algorithm was built but run() was never called"}, bucket=tags_of(c)["alg"])
            return res
        if seen.get("stop") and not before.get("torch_casts_state"):
            res.labels = tuple(res.labels) + ("trajectory_skipped_state_lost",)
            res.nontrivial = False  # (b) was not evaluated for this case
            return res
        if before.get("torch_casts_state"):
            res.labels = tuple(res.labels) + ("trajectory_skipped_torch_casts_state",)
            res.nontrivial = False
            return res
        expect = full[N // f:]
        if len(resumed) != len(expect):
            res.fail("trajectory", {"what": "number of checkpoints written after the restart", "expected": len(expect), "observed": len(resumed)},
                     bucket=tags_of(c)["alg"])
            return res
        for k, (e, r) in enumerate(zip(expect, resumed)):
            epoch = (N // f + k + 1) * f
            dd = []
            compare(e, r, lambda kind, detail, **t: dd.append({"part": kind, **detail}), restart=False)
            if e["epoch"] != r["epoch"]:
                dd.append({"part": "iteration", "diffs": [["_epoch", e["epoch"], r["epoch"]]]})
            if dd:
                res.fail("trajectory", {"first_divergence_at_epoch": epoch, "restart_after_epoch": N, "differences": dd[:3],
                                        "note": "the restored state compared equal to the saved state"}, bucket=tags_of(c)["alg"])
                break
        res.labels = tuple(res.labels) + ("trajectory_compared",)
    return res


# =========================================================================== several algorithms in one configuration
_NOT_IDS = {"type", "distribution", "transform", "algorithm", "scheduler", "checkpoint", "file_name", "lr_lambda", "dtype", "line_search_fn", "newick"}


def _ids(x, out):
    if isinstance(x, dict):
        if isinstance(x.get("id"), str):
            out.add(x["id"])
        for v in x.values():
            _ids(v, out)
    elif isinstance(x, list):
        for v in x:
            _ids(v, out)
    return out


def _prefixed(x, ids, pre, key=None):
    """the same specification with every identifier (definition and reference) prefixed"""
    if isinstance(x, dict):
        d = {k: _prefixed(v, ids, pre, k) for k, v in x.items()}
        if "file_name" in d:
            d["file_name"] = pre + d["file_name"]
        return d
    if isinstance(x, list):
        return [_prefixed(v, ids, pre, key) for v in x]
    if isinstance(x, str) and key not in _NOT_IDS and x in ids:
        return pre + x
    return x


def _stage_iterations(c, upto=None):
    """iterations per stage of the uninterrupted run (upto=None) or of the run that dies in stage j at its epoch N"""
    its = [st_["T"] for st_ in c["stages"]]
    if upto is not None:
        its = its[: upto + 1]
        its[upto] = c["stages"][upto]["N"]
    return its


def _link_target(cs, pre):
    """a length-1 real parameter of a stage that later stages may use as the centre of a prior"""
    if cs["alg"] == "opt" and cs["target"] == "joint":
        for k, p in enumerate(cs["params"]):
            if p["kind"] == "real" and len(p["values"]) == 1:
                return "%sp%d" % (pre, k)
    if cs["alg"] == "mcmc":
        for k, o in enumerate(cs["ops"]):
            if o["type"] == "slide" and len(o["values"]) == 1:
                return "%sy%d" % (pre, k)
    return None


def _set_link(spec, target):
    def walk(x):
        if isinstance(x, dict):
            if x.get("type") == "Distribution" and str(x.get("distribution", "")).endswith(".Normal") and isinstance(x.get("parameters", {}).get("loc"), list):
                x["parameters"]["loc"] = target
                return True
            return any(walk(v) for v in x.values())
        if isinstance(x, list):
            return any(walk(v) for v in x)
        return False

    return walk(spec)


def stages_config(c, upto=None):
    its = _stage_iterations(c, upto)
    spec, target = [], None
    for i, it in enumerate(its):
        cs = c["stages"][i]
        one = config_of(cs, it)
        pre = "s%d." % i
        one = _prefixed(one, _ids(one, set()), pre)
        if c.get("link") and target is not None:
            _set_link(one, target)
        target = _link_target(cs, pre) or target
        spec += one
    return spec


def stage_alg_id(c, i):
    return "s%d.%s" % (i, ALG_ID[c["stages"][i]["alg"]])


def _plain_run(c, config, what, **hooks):
    try:
        dic, errs = run_main(argv_of(c, config), **hooks)
    except Exception as e:  # noqa
        if impl_frame(e) is None:
            raise
        raise Discard("%s:%s" % (type(e).__name__, (impl_frame(e) or "?").split(":")[-1])) from None
    if errs:
        raise HarnessProblem("%s logged errors: %s" % (what, errs[:3]))
    return dic


@_discardable
def body_stages(c):
    torch.manual_seed(c["torch_seed"])
    st_all, j, files = c["stages"], c["j"], list(c["files"])
    n = len(st_all)
    ids = [stage_alg_id(c, i) for i in range(n)]
    stage_of = {a: i for i, a in enumerate(ids)}
    algname = {"opt": "Optimizer", "mcmc": "MCMC"}
    res = Res(nontrivial=False, key=key_of(c, "stages"), labels=labels_of(c), tags=tags_of(c))
    with workdir() as d:
        # ---- uninterrupted run of all stages
        os.mkdir("full")
        os.chdir("full")
        _write("run.json", stages_config(c))
        snaps = {a: {} for a in ids}
        count = {a: 0 for a in ids}

        def u_run(alg):
            snaps[alg.id][0] = snapshot(alg)

        def u_save(alg):
            count[alg.id] += 1
            snaps[alg.id][count[alg.id] * st_all[stage_of[alg.id]]["f"]] = snapshot(alg)

        def u_done(alg):
            snaps[alg.id]["end"] = snapshot(alg)

        _plain_run(c, "run.json", "uninterrupted run", on_run=u_run, on_save=u_save, on_done=u_done)
        if LAST_RUN.get("summary_zero_division"):
            # MCMC.run's summary (ZeroDivisionError for an operator never drawn) ends the whole analysis: nothing to restart
            raise Discard("ZeroDivisionError:run")
        os.chdir(d)
        for i, a in enumerate(ids):
            if count[a] != st_all[i]["T"] // st_all[i]["f"] or "end" not in snaps[a]:
                raise HarnessProblem("uninterrupted run, stage %d: %d checkpoints, expected %d" % (i, count[a], st_all[i]["T"] // st_all[i]["f"]))
        # ---- the run that dies in stage j right after its checkpoint at epoch N
        _write("run.json", stages_config(c, upto=j))
        part = {a: [] for a in ids}
        _plain_run(c, "run.json", "interrupted run", on_save=lambda alg: part[alg.id].append(snapshot(alg)))
        done = {}  # stage -> epoch of the checkpoint it left behind
        for i in range(j + 1):
            f = st_all[i]["f"]
            done[i] = (st_all[i]["N"] if i == j else st_all[i]["T"]) // f * f
            if len(part[ids[i]]) != done[i] // f:
                raise HarnessProblem("interrupted run, stage %d: %d checkpoints, expected %d" % (i, len(part[ids[i]]), done[i] // f))
            dd = []
            compare(snaps[ids[i]][done[i]], part[ids[i]][-1], lambda kind, detail, **t: dd.append((kind, detail)), restart=False)
            if dd:
                raise HarnessProblem("two executions of the same configuration and seed differ (stage %d): %s" % (i, dd[:2]))
        # ---- restart with the drawn -c files in the drawn order
        _write("resume.json", stages_config(c))
        start = {i: (done[i] if i in files else 0) for i in range(n)}
        extra = []
        for i in files:
            ck = ck_file(st_all[i], done[i])
            if not os.path.exists(ck):
                raise HarnessProblem("checkpoint file %s of stage %d was not written" % (ck, i))
            extra += ["-c", ck]
        resumed = {a: [] for a in ids}
        seen, ended = {}, {}

        def r_run(alg):
            i = stage_of[alg.id]
            ref = snaps[alg.id][start[i]]
            snap = snapshot(alg)
            seen[i] = True
            info = {"stage": i, "of": n, "files": ["stage%d" % k for k in files]}
            add = lambda kind, detail, **t: res.fail(kind, dict(detail, **info), **t)  # noqa
            n0 = len(res.fails)
            if start[i] == 0:
                if alg._epoch != 1:
                    res.fail("iteration", dict(info, what="no checkpoint was given for this stage", restarted_run_starts_with_epoch=alg._epoch, expected=1),
                             bucket=algname[st_all[i]["alg"]])
            else:
                ok = _check_epoch(res, c, alg._epoch, start[i], alg=algname[st_all[i]["alg"]])
                if res.fails[n0:]:
                    res.fails[-1].detail.update(info)
                if ok and alg._epoch != start[i] + 1:
                    alg._epoch = start[i] + 1
            compare(ref, snap, add, restart=start[i] > 0)
            if len(res.fails) > n0 or (start[i] > 0 and ref.get("torch_casts_state")):
                seen["stop"] = "state_lost" if len(res.fails) > n0 else "torch_casts_state"
                raise _StopRun()
            torch.set_rng_state(ref["rng"])

        def r_done(alg):
            ended[stage_of[alg.id]] = snapshot(alg)

        argv = argv_of(c, "resume.json", extra)
        try:
            dic, errs = run_main(argv, on_run=r_run, on_save=lambda alg: resumed[alg.id].append(snapshot(alg)), on_done=r_done)
        except Exception as e:  # noqa
            if impl_frame(e) is None:
                raise
            res.fail("restart_" + raises_kind(e), {"message": str(e)[:300], "argv": argv}, bucket=_frame_cls(e))
            return res
        if errs:
            res.fail("restart_error", {"logged": [m[:300] for m in errs[:3]], "argv": argv}, bucket="stages")
            return res
        if seen.get("stop"):
            res.labels = tuple(res.labels) + ("stages_stopped_" + seen["stop"],)
            return res
        for i, a in enumerate(ids):
            f, T = st_all[i]["f"], st_all[i]["T"]
            info = {"stage": i, "of": n, "files": ["stage%d" % k for k in files], "continued_after_epoch": start[i]}
            if i not in seen or i not in ended:
                res.fail("not_run", dict(info, what="run() of this stage was not reached / did not finish after the restart"), bucket=algname[st_all[i]["alg"]])
                break
            expect = [e for e in range(f, T + 1, f) if e > start[i]]
            if len(resumed[a]) != len(expect):
                res.fail("trajectory", dict(info, what="number of checkpoints written by this stage after the restart", expected=len(expect),
                                            observed=len(resumed[a])), bucket=algname[st_all[i]["alg"]])
                break
            bad = False
            for e, r in list(zip(expect, resumed[a])) + [("end", ended[i])]:
                ref = snaps[a][e]
                dd = []
                compare(ref, r, lambda kind, detail, **t: dd.append({"part": kind, **detail}), restart=False)
                if ref["epoch"] != r["epoch"]:
                    dd.append({"part": "iteration", "diffs": [["_epoch", ref["epoch"], r["epoch"]]]})
                if dd:
                    res.fail("trajectory", dict(info, first_divergence_at_epoch=e, differences=dd[:3]), bucket=algname[st_all[i]["alg"]])
                    bad = True
                    break
            if bad:
                break
        res.labels = tuple(res.labels) + ("stages_compared",)
        res.nontrivial = len(files) >= 2 and any(nontrivial(dict(st_all[i], N=start[i], T=st_all[i]["T"] + (1 if i < j else 0)), i == j) for i in files)
    return res


# =========================================================================== generators
def _opt_options(draw, name):
    lr = draw(logu(0.005, 0.2))
    if name == "SGD":
        o = {"lr": lr}
        m = draw(st.sampled_from([0.0, 0.5, 0.9]))
        if m:
            o["momentum"] = m
            if draw(st.booleans()):
                o["nesterov"] = True
            elif draw(st.booleans()):
                o["dampening"] = 0.1
        if draw(st.booleans()):
            o["weight_decay"] = 0.01
        return o
    if name in ("Adam", "AdamW"):
        o = {"lr": lr}
        if draw(st.booleans()):
            o["amsgrad"] = True
        if draw(st.booleans()):
            o["betas"] = [draw(st.sampled_from([0.8, 0.9])), draw(st.sampled_from([0.99, 0.999]))]
        if draw(st.booleans()):
            o["weight_decay"] = 0.01
        return o
    if name == "Adagrad":
        o = {"lr": lr}
        if draw(st.booleans()):
            o["lr_decay"] = 0.1
        if draw(st.booleans()):
            o["initial_accumulator_value"] = 0.1
        return o
    if name == "RMSprop":
        o = {"lr": lr / 4}
        if draw(st.booleans()):
            o["momentum"] = 0.9
        if draw(st.booleans()):
            o["centered"] = True
        if draw(st.booleans()):
            o["alpha"] = 0.9
        return o
    if name == "Adadelta":
        return {"lr": draw(st.sampled_from([0.5, 1.0])), "rho": draw(st.sampled_from([0.9, 0.8]))}
    if name in ("Adamax", "NAdam", "RAdam"):
        o = {"lr": lr}
        if draw(st.booleans()):
            o["betas"] = [0.8, 0.99]
        if name == "NAdam" and draw(st.booleans()):
            o["momentum_decay"] = 0.01
        return o
    if name == "ASGD":
        return {"lr": lr, "t0": draw(st.sampled_from([2.0, 1000000.0])), "lambd": 0.001}
    if name == "Rprop":
        return {"lr": lr}
    if name == "LBFGS":
        o = {"lr": draw(st.sampled_from([0.1, 0.5, 1.0])), "max_iter": draw(st.integers(1, 4)), "history_size": draw(st.sampled_from([2, 5, 100]))}
        if draw(st.booleans()):
            o["line_search_fn"] = "strong_wolfe"
        return o
    raise ValueError(name)


OPTIMS = ["SGD", "Adam", "AdamW", "Adagrad", "RMSprop", "Adadelta", "Adamax", "NAdam", "RAdam", "ASGD", "Rprop", "LBFGS"]
SCHEDS = ["LambdaLR", "StepLR", "ExponentialLR", "MultiStepLR", "CosineAnnealingLR", "LinearLR", "PolynomialLR", "ConstantLR",
          "CosineAnnealingWarmRestarts", "MultiplicativeLR"]
LAMBDAS = ["lambda epoch: 1.0 / (epoch + 1)**0.5", "lambda epoch: 0.9 ** epoch", "lambda e: 1.0 if e < 3 else 0.25"]


def _sched(draw, name):
    if name == "LambdaLR":
        return {"name": name, "args": {"lr_lambda": draw(st.sampled_from(LAMBDAS))}}
    if name == "MultiplicativeLR":
        return {"name": name, "args": {"lr_lambda": draw(st.sampled_from(["lambda epoch: 0.9", "lambda epoch: 0.5 if epoch % 2 else 1.0"]))}}
    if name == "StepLR":
        return {"name": name, "args": {"step_size": draw(st.integers(1, 3)), "gamma": draw(st.sampled_from([0.5, 0.9, 0.1]))}}
    if name == "ExponentialLR":
        return {"name": name, "args": {"gamma": draw(st.sampled_from([0.5, 0.9, 0.99]))}}
    if name == "MultiStepLR":
        ms = sorted(draw(st.one_of(st.sets(st.integers(1, 9), min_size=1, max_size=3), st.sets(st.integers(1, 16), min_size=1, max_size=4),
                                   st.sets(st.integers(1, 24), min_size=10, max_size=12))))
        return {"name": name, "args": {"milestones": ms, "gamma": draw(st.sampled_from([0.5, 0.1]))}}
    if name == "CosineAnnealingLR":
        return {"name": name, "args": {"T_max": draw(st.integers(2, 8)), "eta_min": draw(st.sampled_from([0.0, 0.001]))}}
    if name == "LinearLR":
        return {"name": name, "args": {"start_factor": 0.25, "end_factor": 1.0, "total_iters": draw(st.integers(2, 6))}}
    if name == "PolynomialLR":
        return {"name": name, "args": {"total_iters": draw(st.integers(2, 8)), "power": draw(st.sampled_from([1.0, 2.0]))}}
    if name == "ConstantLR":
        return {"name": name, "args": {"factor": 0.5, "total_iters": draw(st.integers(1, 5))}}
    if name == "CosineAnnealingWarmRestarts":
        return {"name": name, "args": {"T_0": draw(st.integers(1, 4)), "T_mult": draw(st.integers(1, 2))}}
    raise ValueError(name)


def _count(draw, small, big):
    """a count that is usually small (cheap cases) and regularly crosses the one-digit / two-digit boundary
    (keys "10", "11", ... of saved dictionaries, list lengths, file names, counters)"""
    return draw(st.one_of(st.integers(1, small), st.integers(1, small), st.integers(small + 1, big)))


def _epochs(draw, c, continue_, nmax=6, extra=5):
    N = _count(draw, nmax, 12) if nmax < 12 else draw(st.integers(1, nmax))
    c["N"] = N
    c["f"] = draw(st.sampled_from([k for k in range(1, N + 1) if N % k == 0]))
    c["T"] = N + (draw(st.integers(1, extra)) if continue_ else draw(st.integers(0, 2)))


def _plate(draw, dtype):
    n = _count(draw, 3, 11)
    v = round(draw(fl(-1.5, 1.5)), 3)
    form = draw(st.sampled_from(["tensor", "tensor", "full", "zeros"]))
    vals = [0.0] * n if form == "zeros" else [v] * n if form == "full" else [round(v + 0.25 * k, 3) for k in range(n)]
    return {"k": _count(draw, 4, 16), "start": draw(st.sampled_from([0, 0, 1, 3, 8])), "syntax": draw(st.sampled_from(["var", "star"])),
            "var": draw(st.sampled_from(["i", "k", "idx"])), "where": draw(st.sampled_from(["dist", "dist", "top"])),
            "type": draw(st.sampled_from(["Plate", "torchtree.Plate"])), "values": vals, "form": form, "dtype": dtype, "nn": draw(st.booleans()),
            "a": round(draw(fl(0.5, 3.0)), 2), "b": round(draw(fl(0.5, 3.0)), 2)}


@st.composite
def opt_cases(draw, continue_=False, optim=None, sched="draw"):
    c = {"alg": "opt", "torch_seed": draw(st.integers(0, 2**31 - 1)), "argv_dtype": draw(st.sampled_from([None, None, "float64", "float32"]))}
    name = optim or draw(st.sampled_from(OPTIMS))
    c["optim"] = {"name": name, "options": _opt_options(draw, name)}
    if sched == "draw":
        c["sched"] = _sched(draw, draw(st.sampled_from(SCHEDS))) if draw(st.integers(0, 3)) else None
    else:
        c["sched"] = _sched(draw, sched) if sched else None
    c["target"] = draw(st.sampled_from(["joint", "joint", "elbo"])) if name != "LBFGS" else "joint"
    if c["target"] == "elbo":
        c["elbo_samples"] = draw(st.integers(1, 3))
    ps = []
    for _ in range(draw(st.integers(1, 3))):
        kind = draw(st.sampled_from(["real", "real", "pos"]))
        n = _count(draw, 4, 12)
        form = draw(st.sampled_from(["tensor", "tensor", "tensor", "full", "dimension", "zeros" if kind == "real" or c["target"] == "elbo" else "ones", "ones"]
                                    + ([] if c["target"] == "elbo" else ["zeros_like", "ones_like", "full_like"])))
        vals = [round(draw(fl(-1.5, 1.5)), 3) for _ in range(n)]
        if form in ("full", "dimension", "full_like"):
            vals = [vals[0]] * n
        elif form in ("ones", "ones_like"):
            vals = [1.0] * n
        elif form in ("zeros", "zeros_like"):
            vals = [0.0] * n
        p = {"kind": kind, "values": vals, "form": form, "dtype": draw(st.sampled_from([None, None, "float32", "float64"])), "nn": draw(st.booleans()),
             "a": round(draw(fl(0.5, 3.0)), 2), "b": round(draw(fl(0.5, 3.0)), 2)}
        if c["target"] == "elbo":
            p["qs"] = round(draw(fl(-2.0, 0.0)), 2)
        if form in LIKE_FORMS:
            # shape and dtype come from the referenced parameter; an own dtype key, when present, agrees with it
            p["like_dtype"] = draw(st.sampled_from([None, "float32", "float64"]))
            p["dtype"] = draw(st.sampled_from([None, p["like_dtype"]]))
        if name == "LBFGS" and ps:
            p["dtype"] = ps[0]["dtype"]  # see ASSUMPTIONS (one flat history for all parameters)
        ps.append(p)
    c["params"] = ps
    if draw(st.integers(0, 2)) == 0 and c["target"] != "elbo":
        c["plate"] = _plate(draw, ps[0]["dtype"] if name == "LBFGS" else draw(st.sampled_from([None, None, "float32", "float64"])))
    c["comments"] = draw(st.integers(0, 3)) == 0
    # (a parameter of a prior that is itself sampled by q is DESIGN section 8 #25, C10's subject: no link under the ELBO)
    c["couple"] = draw(st.booleans()) and c["target"] == "joint"
    c["pstyle"] = draw(st.sampled_from(["ids", "ids", "parametric", "groups", "each"])) if name != "LBFGS" else draw(st.sampled_from(["ids", "parametric"]))
    if c["pstyle"] in ("groups", "each"):
        c["group_lr"] = draw(st.sampled_from([0.01, 0.05]))
    c["maximize_in"] = draw(st.sampled_from(["data", "data", "options", "default"]))
    c["ckname"] = draw(st.sampled_from([None, None, True, "state.json"]))
    c["ckall"] = draw(st.booleans())
    _epochs(draw, c, continue_)
    return c


def _adaptor(draw, kind):
    a = {"type": kind}
    if kind == "adaptive":
        a["use_rate"] = draw(st.booleans())
        if draw(st.booleans()):
            a["tap"] = draw(st.sampled_from([0.6, 0.8]))
    elif kind == "dual":
        if draw(st.booleans()):
            a["gamma"], a["kappa"], a["t0"] = 0.1, 0.6, draw(st.sampled_from([5, 10]))
    else:
        a["freq"] = draw(st.integers(1, 5))
        a["regularize"] = draw(st.sampled_from([True, True, False]))
        v = draw(st.integers(0, 3))
        if v == 1:
            a["swap"] = draw(st.integers(2, 6))
        elif v == 2:
            a["window"] = 1
        if draw(st.integers(0, 4)) == 0:
            a["restart"] = draw(st.integers(3, 8))
    if draw(st.integers(0, 3)) == 0:
        a["start"] = draw(st.integers(1, 3))
    if draw(st.integers(0, 3)) == 0:
        a["end"] = draw(st.integers(3, 12))
    return a


ADAPTOR_SETS = [[], ["adaptive"], ["dual"], ["mass"], ["adaptive", "mass"], ["dual", "mass"], ["mass", "adaptive"]]


@st.composite
def mcmc_cases(draw, continue_=False, adaptors="draw", need_hmc=False, mass=None):
    c = {"alg": "mcmc", "torch_seed": draw(st.integers(0, 2**31 - 1)), "argv_dtype": draw(st.sampled_from([None, None, None, "float64", "float32"])),
         "dtype": draw(st.sampled_from([None, None, "float64", "float32"]))}
    ops = []
    types = draw(st.lists(st.sampled_from(["scaler", "slide", "dirichlet", "hmc", "hmc", "gmrf"]), min_size=1, max_size=4))
    if draw(st.integers(0, 3)) == 0:  # a long list of (cheap) operators
        types += [draw(st.sampled_from(["scaler", "slide", "dirichlet"])) for _ in range(draw(st.integers(5, 9)))]
    if need_hmc and "hmc" not in types:
        types[0] = "hmc"
    # one tree / coalescent / GMRF per configuration, in the session's default dtype
    first = types.index("gmrf") if "gmrf" in types else None
    types = [t for k, t in enumerate(types) if t != "gmrf" or (k == first and c["dtype"] is None)] or ["slide"]
    for t in types:
        o = {"type": t, "weight": draw(st.sampled_from([1.0, 1.0, 2.0, 0.5])), "disable": draw(st.integers(0, 5)) == 0}
        if draw(st.integers(0, 2)) == 0:
            o["tap"] = draw(st.sampled_from([0.24, 0.5, 0.7]))
        if t != "hmc":
            o["awl"] = draw(st.sampled_from([None, 2, 3, 10, 12]))
        if t == "scaler":
            o["values"] = [round(draw(logu(0.2, 3.0)), 3) for _ in range(_count(draw, 3, 11))]
            o["tuning"] = draw(st.sampled_from([0.1, 0.5, 0.75]))
        elif t == "slide":
            o["values"] = [round(draw(fl(-2.0, 2.0)), 3) for _ in range(_count(draw, 3, 11))]
            o["tuning"] = draw(st.sampled_from([0.1, 0.5, 2.0]))
        elif t == "gmrf":
            o["values"] = [round(draw(fl(-1.0, 2.0)), 3) for _ in range(draw(st.integers(2, 5)))]
            o["precision"] = round(draw(logu(0.2, 5.0)), 3)
            o["tuning"] = draw(st.sampled_from([2.0, 1.5, 4.0]))
        elif t == "dirichlet":
            k = draw(st.integers(2, 4))
            v = [draw(st.integers(1, 5)) for _ in range(k)]
            s = float(sum(v))
            o["values"] = [x / s for x in v]
            o["tuning"] = draw(st.sampled_from([1.0, 10.0, 50.0]))
        else:
            o["values"] = [[round(draw(fl(-1.5, 1.5)), 3) for _ in range(draw(st.integers(1, 3)))] for _ in range(draw(st.integers(1, 2)))]
            o["steps"] = draw(st.integers(1, 4))
            o["step_size"] = draw(st.sampled_from([0.05, 0.1, 0.3]))
            o["mass"] = mass or draw(st.sampled_from(["diag", "dense"]))
            kinds = draw(st.sampled_from(ADAPTOR_SETS)) if adaptors == "draw" else adaptors
            o["adaptors"] = [_adaptor(draw, k) for k in kinds]
            if draw(st.integers(0, 7)) == 0:
                o["frs"] = True
        ops.append(o)
    c["ops"] = ops
    if draw(st.integers(0, 2)) == 0:
        c["plate"] = _plate(draw, None)
    c["comments"] = draw(st.integers(0, 3)) == 0
    c["ckname"] = draw(st.sampled_from([None, None, True, "state.json"]))
    c["logger"] = draw(st.integers(0, 3)) == 0
    c["every"] = draw(st.sampled_from([0, 0, 1, 100]))
    _epochs(draw, c, continue_, nmax=12, extra=10)
    return c


@st.composite
def staged_cases(draw):
    """2-3 algorithms (Optimizer and / or MCMC) in one configuration, each with its own parameters, checkpoint file and
    checkpoint frequency; the run dies in stage j at a checkpoint; restart with a drawn subset and order of -c files"""
    n = draw(st.integers(2, 3))
    stages = []
    for i in range(n):
        cs = draw(st.one_of(opt_cases(True), mcmc_cases(True)))
        for p_ in cs.get("params", []):
            if p_.get("form") in LIKE_FORMS:
                p_["dtype"] = p_.get("like_dtype")  # the dtype lost by *_like definitions (known finding) is exercised in the single-stage sub-checks
        cs.pop("plate", None)  # references to expanded plate ids are written out (w.0, w.1): not prefixed by _prefixed
        if cs["alg"] == "mcmc":
            # one tree per configuration would need unique taxon names: the GMRF block operator stays in the single-stage sub-checks
            cs["ops"] = [o for o in cs["ops"] if o["type"] != "gmrf"][:3] or [{"type": "slide", "weight": 1.0, "disable": False, "awl": 3, "values": [0.1], "tuning": 0.5}]
            cs["ckname"] = "stage%d.json" % i
        else:
            cs["ckname"] = "stage%d.json" % i
        stages.append(cs)
    j = draw(st.integers(0, n - 1)) if draw(st.integers(0, 3)) == 0 else draw(st.integers(1, n - 1))
    perm = list(draw(st.permutations(list(range(j + 1)))))
    k = draw(st.sampled_from([j + 1, j + 1, j + 1, draw(st.integers(1, j + 1))]))
    return {"alg": "stages", "torch_seed": stages[0]["torch_seed"], "argv_dtype": stages[0].get("argv_dtype"), "stages": stages, "j": j,
            "files": perm[:k], "link": draw(st.booleans())}


def cases_roundtrip():
    return st.one_of(opt_cases(False), mcmc_cases(False))


def cases_trajectory():
    return st.one_of(opt_cases(True), mcmc_cases(True))


# ---- enumerated grid: every optimiser x every scheduler, every adaptor set x mass matrix form, fixed remaining choices
def _first(strategy, seed):
    """deterministic example of a strategy (the enumerated grid fixes the secondary choices)"""
    from hypothesis import HealthCheck, Phase, given, seed as hseed, settings

    box = []

    @hseed(seed)
    @settings(max_examples=1, database=None, deadline=None, phases=[Phase.generate], suppress_health_check=list(HealthCheck), derandomize=False)
    @given(strategy)
    def t(x):
        if not box:
            box.append(x)

    t()
    return box[0]


def grid(tier):
    out = []
    k = 0
    for o in OPTIMS:
        for s in [None] + SCHEDS:
            k += 1
            c = _first(opt_cases(True, optim=o, sched=s), 1000 + k)
            c["N"], c["f"], c["T"] = 3, 1, 6
            out.append(c)
    for ads in ADAPTOR_SETS:
        for mass in ("diag", "dense"):
            k += 1
            c = _first(mcmc_cases(True, adaptors=ads, need_hmc=True, mass=mass), 1000 + k)
            c["N"], c["f"], c["T"] = 8, 4, 16
            out.append(c)
    # state whose loss only shows late: the sample window of variance_window (first removal after 100 samples) and the
    # second estimator of swap_every (next swap), restart in the middle
    for mass in ("diag", "dense"):
        for a, (N, f, T) in (({"type": "mass", "freq": 3, "regularize": True, "window": 1}, (60, 60, 120)),
                             ({"type": "mass", "freq": 3, "regularize": True, "swap": 5}, (7, 1, 18))):
            out.append({"alg": "mcmc", "torch_seed": 11, "argv_dtype": None, "dtype": None, "ckname": None, "logger": False, "every": 0,
                        "ops": [{"type": "hmc", "weight": 1.0, "disable": False, "values": [[0.3, -0.4], [0.2]], "steps": 2, "step_size": 0.2,
                                 "mass": mass, "adaptors": [dict(a), {"type": "adaptive", "use_rate": False}]}], "N": N, "f": f, "T": T})
    # the one-digit / two-digit boundary of the integer keys of saved dictionaries: 9 .. 16 parameter tensors, two-digit milestones
    for k, (optim, options) in itertools_product_counts():
        out.append({"alg": "opt", "torch_seed": 3, "argv_dtype": None, "optim": {"name": optim, "options": options},
                    "sched": {"name": "MultiStepLR", "args": {"milestones": [2, 10, 12], "gamma": 0.5}}, "target": "joint",
                    "params": [{"a": 0.5, "b": 1.0, "dtype": None, "form": "tensor", "kind": "real", "nn": False, "values": [0.3, -0.2]}],
                    "plate": {"k": k - 1, "start": 0, "syntax": "var" if k % 2 else "star", "var": "i", "where": "dist", "type": "Plate", "values": [0.1, 0.4],
                              "form": "tensor", "dtype": None, "nn": False, "a": 1.0, "b": 1.5},
                    "comments": False, "couple": False, "pstyle": "ids" if k % 3 else "each", "group_lr": 0.05, "maximize_in": "data", "ckname": None,
                    "ckall": False, "N": 3, "f": 1, "T": 6})
    # several algorithms in one configuration, each with its own checkpoint file; every order of the -c options
    def P(**k):
        return dict({"a": 0.5, "b": 1.0, "dtype": None, "form": "tensor", "kind": "real", "nn": False, "values": [0.3]}, **k)

    def O(name, options, N, f, T, i, **k):
        return dict({"alg": "opt", "torch_seed": 5, "argv_dtype": None, "optim": {"name": name, "options": options}, "sched": None, "target": "joint",
                     "params": [P()], "couple": False, "pstyle": "ids", "maximize_in": "data", "ckname": "stage%d.json" % i, "ckall": False,
                     "N": N, "f": f, "T": T}, **k)

    def M(N, f, T, i):
        return {"alg": "mcmc", "torch_seed": 5, "argv_dtype": None, "dtype": None, "ckname": "stage%d.json" % i, "logger": False, "every": 0,
                "ops": [{"type": "slide", "weight": 1.0, "disable": False, "awl": 3, "values": [0.2], "tuning": 0.5},
                        {"type": "hmc", "weight": 1.0, "disable": False, "values": [[0.3, -0.4]], "steps": 2, "step_size": 0.2, "mass": "diag",
                         "adaptors": [{"type": "dual"}, {"type": "mass", "freq": 2, "regularize": True}]}], "N": N, "f": f, "T": T}

    combos = [[O("Adam", {"lr": 0.1}, 6, 6, 6, 0), O("Adam", {"lr": 0.1}, 3, 1, 8, 1, ckall=True)],
              [O("Adam", {"lr": 0.1}, 4, 2, 5, 0, sched={"name": "StepLR", "args": {"step_size": 2, "gamma": 0.5}}), M(8, 4, 14, 1)],
              [M(6, 3, 12, 0), O("RMSprop", {"lr": 0.01, "momentum": 0.9}, 2, 2, 6, 1), O("SGD", {"lr": 0.05, "momentum": 0.9}, 3, 1, 5, 2)]]
    import itertools

    for stages in combos:
        j = len(stages) - 1
        for files in itertools.permutations(range(j + 1)):
            for link in (False, True):
                out.append({"alg": "stages", "torch_seed": 5, "argv_dtype": None, "stages": stages, "j": j, "files": list(files), "link": link})
    return out


def itertools_product_counts():
    return [(k, oo) for k in (9, 10, 11, 12, 16) for oo in (("Adam", {"lr": 0.05}), ("RMSprop", {"lr": 0.01, "momentum": 0.9}))]


def body_any(c):
    return body_stages(c) if c["alg"] == "stages" else body_trajectory(c)


# =========================================================================== self test of the comparison
def selftest():
    a = {"state": {0: {"step": torch.tensor(3.0), "m": torch.tensor([1.0, 2.0])}}, "param_groups": [{"lr": 0.1, "betas": (0.9, 0.999)}]}
    same = {"state": {0: {"step": torch.tensor(3.0), "m": torch.tensor([1.0, 2.0])}}, "param_groups": [{"lr": 0.1, "betas": [0.9, 0.999]}]}
    assert diff(norm(a), norm(same)) == [], "tuple/list must compare equal"
    strkey = {"state": {"0": a["state"][0]}, "param_groups": a["param_groups"]}
    assert diff(norm(a), norm(strkey)), "int key turned into str must be seen"
    dt = {"state": {0: {"step": torch.tensor(3.0), "m": torch.tensor([1.0, 2.0], dtype=torch.float32)}}, "param_groups": a["param_groups"]}
    assert diff(norm(a), norm(dt)), "dtype change must be seen"
    dropped = {"state": {0: {"step": torch.tensor(3.0)}}, "param_groups": a["param_groups"]}
    assert diff(norm(a), norm(dropped)), "dropped key must be seen"
    assert diff(norm({"n": 1}), norm({"n": 1.0})), "int vs float must be seen"
    assert diff(norm({"w": deque([1, 0])}), norm({"w": [1, 0]})) == []
    assert diff(norm(torch.nn.Parameter(torch.ones(2))), norm(torch.ones(2))), "nn-ness must be seen"
    assert diff(norm([float("nan")]), norm([float("nan")])) == []


def subchecks(tier):
    return [
        Sub("roundtrip", body_roundtrip, strategy=cases_roundtrip, quick=1000, thorough=16000),
        Sub("trajectory", body_trajectory, strategy=cases_trajectory, quick=640, thorough=12000),
        Sub("stages", body_stages, strategy=staged_cases, quick=260, thorough=5000),
        Sub("grid", body_any, enumerate=grid, exhaustive=True),
    ]
