"""C13, thorough tier: the 'spec' test driven by atheris (libFuzzer, coverage of torchtree.core).

The fuzzer mutates byte strings; Hypothesis's `fuzz_one_input` decodes them through the same
grammar (vt/gen/idspec.py), so every input is a structured specification and coverage feedback
steers the choices.  Each run happens in its own process with its own output directory; the
parent re-evaluates every failing case with the ordinary body, so buckets, known findings and
replays work as for generated cases.
"""
import hashlib
import json
import os
import re
import shutil
import subprocess
import sys
import tempfile

from vt.runner import HERE, Res, Sub, jdump

RUNS = int(os.environ.get("VT_C13_FUZZ_RUNS", "12000"))
PROCS = int(os.environ.get("VT_C13_FUZZ_PROCS", "8"))


def _have_atheris():
    import importlib.util

    deps = os.path.join(HERE, ".deps")
    if deps not in sys.path:
        sys.path.insert(1, deps)
    if importlib.util.find_spec("atheris") is not None:
        return True
    try:
        os.makedirs(deps, exist_ok=True)
        subprocess.run(
            [sys.executable, "-m", "pip", "install", "-q", "--no-index", "--no-deps", "--find-links", "/opt/veriftools/wheels", "--target", deps, "atheris"],
            check=True, env=dict(os.environ, PIP_NO_INDEX="1"), stdout=subprocess.DEVNULL, stderr=subprocess.DEVNULL, timeout=300,
        )
        importlib.invalidate_caches()
    except Exception:  # noqa
        return False
    return importlib.util.find_spec("atheris") is not None


def runs(tier):
    seed = int(os.environ.get("VERIF_SEED", "1") or 1)
    return [{"run": i, "runs": RUNS, "seed": seed * 1000 + i + 1} for i in range(PROCS)]


def body(case):
    from vt.props import c13

    res = Res(nontrivial=False, key=("atheris", case["run"], case["seed"]), tags={"bucket": "atheris"})
    if not _have_atheris():
        res.labels = ("unavailable(no wheel): Hypothesis only",)
        return res
    out = tempfile.mkdtemp(prefix="c13fuzz-")
    try:
        env = dict(os.environ)
        with open(os.path.join(out, "log.txt"), "w") as log:
            try:
                subprocess.run(
                    [sys.executable, "-m", "vt.props.c13fuzz", out, str(case["runs"]), str(case["seed"])],
                    cwd=HERE, env=env, stdout=log, stderr=log, timeout=1200,
                )
            except subprocess.TimeoutExpired:
                res.labels += ("timeout",)
        try:
            with open(os.path.join(out, "result.json")) as f:
                r = json.load(f)
        except Exception:  # noqa
            with open(os.path.join(out, "log.txt")) as f:
                tail = f.read()[-1500:]
            res.labels += ("no_result",)
            res.fail("fuzzer_did_not_run", {"log": tail})
            return res
        with open(os.path.join(out, "log.txt")) as f:
            log = f.read()
        m = re.findall(r"#(\d+)\s+DONE\s+cov: (\d+) ft: (\d+) corp: (\d+)", log)
        res.nontrivial = r["decoded"] > 0
        band = lambda n: "%dk+" % (n // 1000) if n >= 1000 else "<1k"  # noqa
        res.labels = ("ran", "execs:" + band(r["execs"]), "decoded:" + band(r["decoded"]), "wellformed:" + band(r["wellformed"]), "raised:" + band(r["raised"]),
                      "known_hits:" + band(r["known"]))
        if m:
            res.labels += ("coverage_edges:%d+" % (int(m[-1][1]) // 100 * 100), "corpus:%d+" % (int(m[-1][3]) // 50 * 50))
        else:
            res.labels += ("no_coverage_line",)
        for rec in r["failures"]:
            sub = c13.body(rec["case"])
            for f in sub.fails:
                name = "fuzzcase-%s.json" % hashlib.sha256(jdump(rec["case"]).encode()).hexdigest()[:10]
                d = os.path.join(HERE, "replays", "C13", "found")
                os.makedirs(d, exist_ok=True)
                with open(os.path.join(d, name), "w") as fh:
                    fh.write(jdump({"property": "C13", "sub": "spec", "bucket": "spec|%s|%s" % (f.tags.get("bucket"), f.kind), "kind": f.kind,
                                    "tags": f.tags, "detail": f.detail, "case": rec["case"], "seed": case["seed"], "tier": "thorough", "found_by": "atheris"}))
                detail = dict(f.detail)
                detail["spec_replay"] = "replays/C13/found/" + name
                res.fail(f.kind, detail, **f.tags)
        return res
    finally:
        shutil.rmtree(out, ignore_errors=True)


def sub():
    s = Sub("atheris", body, enumerate=runs, raising_is_failure=False)
    return s


# --------------------------------------------------------------------------- the fuzzing process
def main(out, nruns, seed):
    import torch

    torch.set_default_dtype(torch.float64)
    torch.set_num_threads(1)
    deps = os.path.join(HERE, ".deps")
    if deps not in sys.path:
        sys.path.insert(1, deps)
    import atheris

    from vt import tt

    with atheris.instrument_imports(include=["torchtree.core"], enable_loader_override=False):
        tt.load_all()
    from hypothesis import HealthCheck, given, settings

    from vt import runner
    from vt.gen import idspec
    from vt.props import c13

    # known findings that still reproduce are counted, not reported (as in the runner)
    active = []
    for e in runner.load_known("C13"):
        if e.get("status") != "known":
            continue
        s, rec, res = runner.replay_file("C13", os.path.join(HERE, e["replay"]))
        if any(runner.entry_matches(e, s.name, f) for f in res.fails):
            active.append(e)

    st = {"execs": 0, "decoded": 0, "wellformed": 0, "raised": 0, "known": 0, "failures": []}
    seen = set()

    def dump():
        with open(os.path.join(out, "result.json.tmp"), "w") as f:
            f.write(jdump(st))
        os.replace(os.path.join(out, "result.json.tmp"), os.path.join(out, "result.json"))

    @settings(database=None, deadline=None, suppress_health_check=list(HealthCheck))
    @given(idspec.cases())
    def test(case):
        st["decoded"] += 1
        res = c13.body(case)
        if "wellformed" in res.labels:
            st["wellformed"] += 1
        if "raised" in res.labels:
            st["raised"] += 1
        for f in res.fails:
            if any(runner.entry_matches(e, "spec", f) for e in active):
                st["known"] += 1
                continue
            b = (f.kind, f.tags.get("bucket"))
            if b not in seen and len(st["failures"]) < 20:
                seen.add(b)
                st["failures"].append({"kind": f.kind, "case": case})
                dump()

    def one(data):
        st["execs"] += 1
        test.hypothesis.fuzz_one_input(data)
        if st["execs"] % 250 == 0 or st["execs"] >= nruns - 2:
            dump()

    dump()
    corpus = os.path.join(out, "corpus")
    os.makedirs(corpus, exist_ok=True)
    atheris.Setup([sys.argv[0], "-runs=%d" % nruns, "-seed=%d" % seed, "-max_len=8192", "-len_control=0", "-print_final_stats=0", "-verbosity=1", corpus], one)
    import atexit

    atexit.register(dump)
    atheris.Fuzz()


if __name__ == "__main__":
    main(sys.argv[1], int(sys.argv[2]), int(sys.argv[3]))
