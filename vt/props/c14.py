"""C14 - variational objectives are exact at the true posterior.

Conjugate models are written as JSON specifications (the way the examples and the CLI write
them: a JointDistributionModel for the joint, with TransformedParameters standing for their
log-Jacobians inside it; a JointDistributionModel of Distributions or a MultivariateNormal
for the variational distribution; ELBO / VR / CUBO / KLpq with `samples`), built through
`vt.tt.build` and evaluated the way Optimizer and VariationalConvergence evaluate them:
`objective()`, then `fire_parameter_changed()` on the variational parameters, then
`objective()` / `objective(samples=...)` again.

Oracle (vt.oracle.conjugate, numpy / scipy only):
 (a) q = exact posterior  =>  value = closed-form log marginal likelihood (1e-9);
 (b) pairing: whatever q is, the value equals the objective recomputed with scipy.stats
     densities from the draws found in the shared parameters after the call;
 (c) freshness: every evaluation request leaves new draws of the requested shape.
"""
import math

import numpy as np
import torch
from hypothesis import strategies as st

from vt import tt
from vt.cmp import arr
from vt.gen.basic import fl, logu
from vt.oracle import conjugate as cj
from vt.runner import Res, Sub, guarded, raises_kind

PROPERTY = "C14"
LEVEL = "exploration"
RULE = (
    "Hypothesis draws a model of 1-3 independent conjugate blocks (gamma-exponential, gamma-Poisson, "
    "gamma-gamma(known shape), normal-normal with normal or log-normal likelihood, beta-binomial, "
    "multivariate-normal mean with known covariance; latent dimension 1-3, 1-20 observations, bounded "
    "log-uniform hyper-parameters), for each block a route (direct; prior written on an affine / exp "
    "TransformedParameter with its Jacobian in the joint; latent = affine TransformedParameter of the sampled "
    "variable with Jacobian, the CLI's shape; variational distribution writing through a TransformedParameter "
    "(exp / sigmoid / affine) setter), the joint's nesting (flat / joint+jacobian / prior+like), the form of q "
    "(JointDistributionModel of Distributions / MultivariateNormal direct or inside a joint; every normal and multivariate-normal "
    "term - prior, likelihood, q - written either with the package's own class (MultivariateNormal, Normal(loc, precision), "
    "LogNormal(mean, scale)) or with the generic Distribution wrapper around the torch class, mean-field or one "
    "full-rank normal over several parameters; plain or exp-transformed variational parameters; "
    "scale_tril / TrilExpDiagonal / covariance / precision), the objective (ELBO Monte-Carlo, analytic entropy, "
    "multi-sample; VR(alpha); CUBO(n); KLpq) with samples S, [S] or [S,K] (entropy=True also together with [S,K], at construction and through "
    "the override), the torch seed, an optional "
    "`samples=` override for the second request, how each hyper-parameter of the prior / likelihood is written (bare JSON "
    "number, list, or Parameter object; drawn per hyper-parameter) and the process default dtype (float64 as torchtree's main() sets it, or - library use - torch's float32 default "
    "with every Parameter carrying \"dtype\": \"torch.float64\"; restored after the case). Sub-check 'exact' sets q to the closed-form posterior, "
    "'pairing' draws arbitrary q parameters; 'grid' enumerates objective x sample-shape form x family x route; 'classes' enumerates package class / generic wrapper for prior x likelihood x q of the normal families x route x objective; "
    "'dtype' enumerates family x route x objective "
    "x hyper-parameter form x default dtype with hyper-parameters that float32 cannot represent. "
    "Every case makes three evaluation requests separated by the change notification Optimizer issues. "
    "Non-trivial = more than one draw (S*K > 1) and more than one observed number; "
    "distinct = the whole case without the torch seed (floats rounded to 6 digits)."
)
ASSUMPTIONS = [
    "the variational distribution is always in a documented form (JointDistributionModel of Distributions, "
    "or MultivariateNormal); a bare factorised Distribution as q is outside documented use and not generated",
    "the generic Distribution wrapper around torch's MultivariateNormal is used as q only as a factor of a "
    "JointDistributionModel (a bare Distribution as q is outside documented use)",
    "ELBO(score=True) and KLpqImportance return gradient surrogates, not estimates of log Z; not asserted",
    "ELBO with entropy=True and a two-dimensional sample shape (at construction or through the samples= override) is "
    "generated; the documentation gives one estimator for [N,K] (the multi-sample ELBO) and no analytic-entropy "
    "variant of it, so that request must return the multi-sample bound of the draws (log Z at the posterior); a "
    "one-dimensional request of the same objective must satisfy the analytic-entropy identity",
    "analytic-entropy ELBO is generated only where q is a JointDistributionModel of Distributions or a direct "
    "MultivariateNormal (JointDistributionModel.entropy concatenates per-distribution entropies and cannot "
    "take the 0-d entropy of a nested MultivariateNormal; the CLI never emits that combination)",
    "two consecutive calls without a change notification return the cached value (CallableModel contract); "
    "an evaluation request is `fire_parameter_changed()` on the variational parameters followed by a call, "
    "as in Optimizer._run / VariationalConvergence.check",
    "for [S,K] samples of VR, CUBO and KLpq the documentation does not fix the reduction; the value may equal "
    "either the estimator over all S*K draws or the mean over S of the K-draw estimators",
    "whether the draws are distributed according to q is not observable through the objective's value and is "
    "not asserted (a mutation that mis-assigns slices in CatParameter's setter leaves value and draws consistent)",
    "the float32-default route is library use (torchtree's main() sets the default dtype, float64 unless --dtype; an API "
    "user and the repository's tests keep torch's float32 default): the model is float64 through the documented `dtype` "
    "attribute of its Parameters; a dtype-mismatch error under that mixture is a clean rejection (label dtype-rejected), "
    "not a violation; "
    "CUBO keeps its order n as a tensor of the default dtype, so the chi bound of order float32(n) is accepted as well",
    "tolerance 1e-9 * max(1, |expected|, 1e-3 * max|log p|) ; alpha of VR stays 0.05 away from 1 "
    "(division by 1-alpha), hyper-parameters bounded so that densities stay finite in float64",
]

TOL = 1e-9
GAMMA = ("gexp", "gpois", "ggam")
KINDS = ("gexp", "gpois", "ggam", "nn", "betabin", "mvn")
FORMS = ("num", "list", "param")
# a term may be written with the package's own class or with the generic Distribution wrapper around the torch class
WRAP = ("package", "torch")
TORCH_MVN = "torch.distributions.MultivariateNormal"
OWN_NORMAL = "torchtree.distributions.Normal"  # loc, precision
OWN_LOGNORMAL = "torchtree.distributions.log_normal.LogNormal"  # mean, scale
ROUTES = {
    "gexp": ("direct", "prior_affine", "unres_affine", "setter"),
    "gpois": ("direct", "prior_affine", "unres_affine", "setter"),
    "ggam": ("direct", "prior_affine", "unres_affine", "setter"),
    "nn": ("direct", "prior_affine", "prior_exp", "unres_affine", "setter", "setter_exp"),
    "betabin": ("direct", "prior_affine", "unres_affine", "setter"),
    "mvn": ("direct", "unres_affine"),
}
DISTR = {
    "gamma": "torch.distributions.Gamma",
    "normal": "torch.distributions.Normal",
    "lognormal": "torch.distributions.LogNormal",
    "beta": "torch.distributions.Beta",
}


# =========================================================================== specification
def _tp(id_, transform, x, **params):
    d = {"id": id_, "type": "TransformedParameter", "transform": transform, "x": x}
    if params:
        d["parameters"] = params
    return d


def _affine(id_, x, loc, scale):
    return _tp(id_, "torch.distributions.AffineTransform", x, loc=loc, scale=scale)


def _dist(id_, distribution, x, parameters):
    return {"id": id_, "type": "Distribution", "distribution": distribution, "x": x, "parameters": parameters}


def _np(x):
    return np.asarray(x, dtype=float)


def _qparam(id_, values, exp_unres, var_ids):
    """a variational parameter: plain Parameter, or (CLI style) exp of an unconstrained one"""
    v = _np(values)
    if exp_unres:
        var_ids.append(id_ + ".unres")
        return _tp(id_, "torch.distributions.ExpTransform", tt.P(id_ + ".unres", np.log(v).tolist()))
    var_ids.append(id_)
    return tt.P(id_, v.tolist())


def _tril_flat(L):
    d = L.shape[0]
    out = []
    for i in range(d):
        for j in range(i + 1):
            out.append(math.log(L[i, j]) if i == j else float(L[i, j]))
    return out


def _mvn_term(id_, x, params, wrap):
    """a multivariate-normal term: torchtree's MultivariateNormal, or Distribution(torch MultivariateNormal)"""
    if wrap == "torch":
        return {"id": id_, "type": "Distribution", "distribution": TORCH_MVN, "x": x, "parameters": params}
    return {"id": id_, "type": "MultivariateNormal", "x": x, "parameters": params}


def _mvn_q_spec(id_, x, p, par, var_ids, wrap="package"):
    """multivariate-normal specification for q given loc / cov"""
    loc, cov = _np(p["loc"]), _np(p["cov"])
    var_ids.append(id_ + ".loc")
    params = {"loc": tt.P(id_ + ".loc", loc.tolist())}
    if par == "scale_tril":
        var_ids.append(id_ + ".scale_tril")
        params["scale_tril"] = tt.P(id_ + ".scale_tril", np.linalg.cholesky(cov).tolist())
    elif par == "scale_tril_unres":
        var_ids.append(id_ + ".scale_tril.unres")
        params["scale_tril"] = _tp(
            id_ + ".scale_tril", "TrilExpDiagonalTransform", tt.P(id_ + ".scale_tril.unres", _tril_flat(np.linalg.cholesky(cov)))
        )
    elif par == "covariance_matrix":
        var_ids.append(id_ + ".cov")
        params["covariance_matrix"] = tt.P(id_ + ".cov", cov.tolist())
    else:
        var_ids.append(id_ + ".prec")
        prec = _np(p["prec"]) if "prec" in p else np.linalg.inv(cov)
        params["precision_matrix"] = tt.P(id_ + ".prec", (0.5 * (prec + prec.T)).tolist())
    return _mvn_term(id_, x, params, wrap)


class Blk:
    """everything one block contributes to the specification and to the oracle"""

    def __init__(self, i, b):
        self.b = b
        self.pre = "b%d." % i
        self.defs, self.priors, self.likes, self.jacs = [], [], [], []
        self.g = None  # latent z = g(sampled variable)
        self.sid = None  # id(s) of the variable q writes: str or list of str
        self.used_forms = set()
        self.used_wraps = set()
        self.build()

    def hp(self, name, values):
        """a hyper-parameter in the form drawn for it: bare JSON number (scalars only), list, or Parameter"""
        v = _np(values).reshape(-1).tolist()
        form = self.b.get("forms", {}).get(name.split("#")[0], "list")
        if form == "num" and len(v) == 1:
            self.used_forms.add("num")
            return v[0]
        if form == "param":
            self.used_forms.add("param")
            return tt.P(self.pre + "hp." + name.replace("#", ""), v)
        self.used_forms.add("list")
        return v

    def wrap(self, role):
        """package class or generic wrapper for this role; defaults keep older replay files meaningful"""
        default = "package" if (self.b["kind"] == "mvn" and not (role == "like" and self.b.get("lik") == "diag")) else "torch"
        w = self.b.get("w_" + role, default)
        if self.b["kind"] in ("nn", "mvn"):
            self.used_wraps.add("%s:%s:%s" % (self.b["kind"], role, w))
        return w

    def normal_term(self, id_, x, loc, scale, role, hp_names, lognormal=False, loc_is_ref=False):
        """Normal / LogNormal term with torch's (loc, scale) or the package's (loc, precision) / (mean, scale)"""
        w = self.wrap(role)
        if lognormal:
            if w == "package" and not loc_is_ref:
                mean = np.exp(_np(loc) + 0.5 * _np(scale) ** 2)
                return _dist(id_, OWN_LOGNORMAL, x, {"mean": self.hp(hp_names[0], mean), "scale": self.hp(hp_names[1], scale)})
            return _dist(id_, DISTR["lognormal"], x, {"loc": loc if loc_is_ref else self.hp(hp_names[0], loc), "scale": self.hp(hp_names[1], scale)})
        if w == "package":
            return _dist(id_, OWN_NORMAL, x, {"loc": loc if loc_is_ref else self.hp(hp_names[0], loc), "precision": self.hp(hp_names[1], 1.0 / _np(scale) ** 2)})
        return _dist(id_, DISTR["normal"], x, {"loc": loc if loc_is_ref else self.hp(hp_names[0], loc), "scale": self.hp(hp_names[1], scale)})

    def build(self):
        b, pre = self.b, self.pre
        k, route = b["kind"], b["route"]
        X = _np(b["data"])
        n, d = X.shape
        base = {"gexp": "lam", "gpois": "lam", "ggam": "lam", "nn": "mu", "betabin": "p", "mvn": "mu"}[k]
        zid = pre + base
        init = {"nn": 0.25, "betabin": 0.4, "mvn": 0.25}.get(k, 1.5)
        loc, scale = b.get("tloc", 0.0), b.get("tscale", 1.0)
        prior_x = zid
        self.sid = zid
        if route == "direct":
            if k == "mvn" and b.get("split"):
                s = b["split"]
                self.defs += [tt.P(zid + ".0", [init] * s), tt.P(zid + ".1", [init] * (d - s))]
                self.sid = [zid + ".0", zid + ".1"]
                prior_x = list(self.sid)
            else:
                self.defs.append(tt.P(zid, [init] * d))
        elif route == "prior_affine":
            self.defs.append(tt.P(zid, [init] * d))
            self.defs.append(_affine(pre + "tau", zid, loc, scale))
            prior_x = pre + "tau"
            self.jacs.append(pre + "tau")
        elif route == "prior_exp":
            self.defs.append(tt.P(zid, [init] * d))
            self.defs.append(_tp(pre + "theta", "torch.distributions.ExpTransform", zid))
            prior_x = pre + "theta"
            self.jacs.append(pre + "theta")
        elif route == "unres_affine":
            u0 = (init - loc) / scale
            self.defs.append(tt.P(pre + "u", [u0] * d))
            self.defs.append(_affine(zid, pre + "u", loc, scale))
            self.jacs.append(zid)
            self.sid = pre + "u"
            self.g = ("affine", loc, scale)
        elif route == "setter":
            if k in GAMMA:
                self.defs.append(tt.P(pre + "z", [math.log(init)] * d))
                self.defs.append(_tp(zid, "torch.distributions.ExpTransform", pre + "z"))
            elif k == "betabin":
                self.defs.append(tt.P(pre + "z", [math.log(init / (1 - init))] * d))
                self.defs.append(_tp(zid, "torch.distributions.SigmoidTransform", pre + "z"))
            else:
                self.defs.append(tt.P(pre + "u", [(init - loc) / scale] * d))
                self.defs.append(_affine(zid, pre + "u", loc, scale))
        elif route == "setter_exp":  # nn: theta = exp(z); q (log-normal) writes theta; the likelihood reads z
            self.defs.append(tt.P(zid, [init] * d))
            self.defs.append(_tp(pre + "theta", "torch.distributions.ExpTransform", zid))
            prior_x = pre + "theta"
            self.sid = pre + "theta"
            self.g = ("log",)
        else:
            raise ValueError(route)

        # ---- prior
        if k in GAMMA:
            a, r = _np(b["a"]), _np(b["b"])
            if route == "prior_affine":
                r = r / scale
            self.priors.append(_dist(pre + "prior", DISTR["gamma"], prior_x, {"concentration": self.hp("prior.p0", a), "rate": self.hp("prior.p1", r)}))
        elif k == "nn":
            m0, s0 = _np(b["m0"]), _np(b["s0"])
            if route == "prior_affine":
                m0, s0 = loc + scale * m0, abs(scale) * s0
            self.priors.append(self.normal_term(pre + "prior", prior_x, m0, s0, "prior", ("prior.p0", "prior.p1"),
                                                lognormal=route in ("prior_exp", "setter_exp")))
        elif k == "betabin":
            c1, c0 = _np(b["alpha"]), _np(b["beta"])
            if route == "prior_affine":
                c1, c0 = c0, c1
            self.priors.append(_dist(pre + "prior", DISTR["beta"], prior_x, {"concentration1": self.hp("prior.p0", c1), "concentration0": self.hp("prior.p1", c0)}))
        else:
            S0 = _np(b["S0"])
            par = b.get("prior_par", "covariance_matrix")
            if par == "covariance_matrix":
                pp = {"covariance_matrix": tt.P(pre + "S0", S0.tolist())}
            elif par == "precision_matrix":
                P0 = np.linalg.inv(S0)
                pp = {"precision_matrix": tt.P(pre + "P0", (0.5 * (P0 + P0.T)).tolist())}
            else:
                pp = {"scale_tril": tt.P(pre + "L0", np.linalg.cholesky(S0).tolist())}
            pp["loc"] = tt.P(pre + "m0", _np(b["m0"]).tolist())
            self.priors.append(_mvn_term(pre + "prior", prior_x, pp, self.wrap("prior")))

        # ---- likelihood: d == 1 -> one term over the n observations; d > 1 -> one term per observation
        rows = [X[:, 0].tolist()] if d == 1 else [X[i].tolist() for i in range(n)]
        for t, row in enumerate(rows):
            lid, did = pre + "like%d" % t, tt.P(pre + "data%d" % t, row)
            if k == "gexp":
                self.likes.append(_dist(lid, "torch.distributions.Exponential", did, {"rate": zid}))
            elif k == "gpois":
                self.likes.append(_dist(lid, "torch.distributions.Poisson", did, {"rate": zid}))
            elif k == "ggam":
                sh = self.hp("like.p#%d" % t, b["shape"])
                self.likes.append(_dist(lid, DISTR["gamma"], did, {"concentration": sh, "rate": zid}))
            elif k == "nn":
                self.likes.append(self.normal_term(lid, did, zid, b["sigma"], "like", (None, "like.p#%d" % t),
                                                   lognormal=b.get("lik", "normal") == "lognormal", loc_is_ref=True))
            elif k == "betabin":
                N = _np(b["N"])
                tot = self.hp("like.p#%d" % t, N[:, 0] if d == 1 else N[t])
                if route == "setter" and b.get("logits"):
                    self.likes.append(_dist(lid, "torch.distributions.Binomial", did, {"total_count": tot, "logits": pre + "z"}))
                else:
                    self.likes.append(_dist(lid, "torch.distributions.Binomial", did, {"total_count": tot, "probs": zid}))
        if k == "mvn":
            Sg = _np(b["Sigma"])
            for i in range(n):
                lid = pre + "like%d" % i
                if b.get("lik", "sym") == "diag":
                    self.likes.append(self.normal_term(lid, tt.P(pre + "data%d" % i, X[i].tolist()), zid, np.sqrt(np.diag(Sg)), "like",
                                                       (None, "like.p#%d" % i), loc_is_ref=True))
                else:
                    # N(x_i | mu, Sigma) = N(mu | x_i, Sigma): the sampled mean is the `x` of the term
                    cov = tt.P(pre + "Sigma", Sg.tolist()) if i == 0 else pre + "Sigma"
                    mx = prior_x if isinstance(prior_x, list) else zid
                    self.likes.append(_mvn_term(lid, mx, {"loc": tt.P(pre + "data%d" % i, X[i].tolist()), "covariance_matrix": cov}, self.wrap("like")))

    # the distribution of the sampled variable that equals the exact posterior
    def posterior_u(self):
        qk, p = cj.posterior(self.b)
        return cj.q_over_u(qk, p, self.g)

    def qkind(self):
        return self.posterior_u()[0]

    def dim(self):
        return _np(self.b["data"]).shape[1]


def _cov_of(qk, p):
    if qk == "normal":
        s = _np(p["scale"])
        return np.diag(s * s)
    return _np(p["cov"])


class Model:
    def __init__(self, c):
        self.c = c
        self.blocks = [Blk(i, b) for i, b in enumerate(c["blocks"])]
        self.var_ids = []
        self.q_wraps = set()
        self.groups = []  # (qkind, params, [block indices]) - log q is the sum over groups
        self.spec = self._spec()

    def _q_groups(self):
        c = self.c
        if c.get("full"):
            # one multivariate normal over all blocks' sampled variables
            if c["mode"] == "posterior":
                locs, covs = [], []
                for blk in self.blocks:
                    qk, p = blk.posterior_u()
                    locs.append(_np(p["loc"]))
                    covs.append(_cov_of(qk, p))
                D = sum(x.shape[0] for x in locs)
                cov = np.zeros((D, D))
                o = 0
                for x in covs:
                    cov[o : o + x.shape[0], o : o + x.shape[0]] = x
                    o += x.shape[0]
                p = {"loc": np.concatenate(locs), "cov": cov}
            else:
                L = _np(c["full_q"]["tril"])
                p = {"loc": _np(c["full_q"]["loc"]), "cov": L @ L.T}
            return [("mvn", p, list(range(len(self.blocks))))]
        out = []
        for i, blk in enumerate(self.blocks):
            if c["mode"] == "posterior":
                qk, p = blk.posterior_u()
            else:
                qk = blk.qkind()
                p = {k: _np(v) for k, v in blk.b["q"].items()}
                if qk == "mvn":
                    L = p.pop("tril")
                    p["cov"] = L @ L.T
            out.append((qk, p, [i]))
        return out

    def _spec(self):
        c = self.c
        spec, priors, likes, jacs = [], [], [], []
        for blk in self.blocks:
            spec += blk.defs
            priors += blk.priors
            likes += blk.likes
            jacs += blk.jacs
        style = c.get("joint_style", "flat")
        if style == "flat":
            spec.append({"id": "joint", "type": "JointDistributionModel", "distributions": priors + likes + jacs})
            jid = "joint"
        elif style == "jacobian":  # the CLI's shape: joint, then joint.jacobian = [joint, transformed parameters]
            spec.append({"id": "joint", "type": "JointDistributionModel", "distributions": likes + priors})
            spec.append({"id": "joint.jacobian", "type": "JointDistributionModel", "distributions": ["joint"] + jacs})
            jid = "joint.jacobian"
        else:  # prior / like sub-models
            spec.append({"id": "prior", "type": "JointDistributionModel", "distributions": priors})
            spec.append({"id": "like", "type": "JointDistributionModel", "distributions": likes})
            spec.append({"id": "joint", "type": "JointDistributionModel", "distributions": ["like", "prior"] + jacs})
            jid = "joint"
        self.groups = self._q_groups()
        qd = []
        for gi, (qk, p, idx) in enumerate(self.groups):
            qid = "q%d" % gi
            if qk == "mvn":
                x = []
                for i in idx:
                    s = self.blocks[i].sid
                    x += s if isinstance(s, list) else [s]
                wq = c.get("w_q", "package") if c.get("full") else self.blocks[idx[0]].wrap("q")
                self.q_wraps.add("mvn:q:" + wq)
                qd.append(_mvn_q_spec(qid, x[0] if len(x) == 1 else x, p, c.get("q_par", "scale_tril"), self.var_ids, wq))
            else:
                names = {"gamma": ("concentration", "rate", "conc", "rate"), "normal": ("loc", "scale", "loc", "scale"),
                         "lognormal": ("loc", "scale", "loc", "scale"), "beta": ("concentration1", "concentration0", "c1", "c0")}[qk]
                ex = bool(c.get("q_exp"))
                first_pos = qk in ("gamma", "beta")
                blk = self.blocks[idx[0]]
                if qk in ("normal", "lognormal") and blk.wrap("q") == "package":
                    # the package's own classes: Normal(loc, precision), LogNormal(mean, scale)
                    if qk == "normal":
                        params = {"loc": _qparam(qid + ".loc", p["loc"], False, self.var_ids),
                                  "precision": _qparam(qid + ".precision", 1.0 / _np(p["scale"]) ** 2, ex, self.var_ids)}
                        qd.append(_dist(qid, OWN_NORMAL, blk.sid, params))
                    else:
                        params = {"mean": _qparam(qid + ".mean", np.exp(_np(p["loc"]) + 0.5 * _np(p["scale"]) ** 2), ex, self.var_ids),
                                  "scale": _qparam(qid + ".scale", p["scale"], ex, self.var_ids)}
                        qd.append(_dist(qid, OWN_LOGNORMAL, blk.sid, params))
                    continue
                params = {
                    names[0]: _qparam(qid + "." + names[0], p[names[2]], ex and first_pos, self.var_ids),
                    names[1]: _qparam(qid + "." + names[1], p[names[3]], ex, self.var_ids),
                }
                qd.append(_dist(qid, DISTR[qk], blk.sid, params))
        if c.get("q_form", "joint") == "direct" and len(qd) == 1 and qd[0]["type"] == "MultivariateNormal":
            qd[0]["id"] = "q"
            qspec = qd[0]
        else:
            qspec = {"id": "q", "type": "JointDistributionModel", "distributions": qd}
        o = c["objective"]
        obj = {"id": "obj", "type": o["type"], "samples": o["samples"], "joint": jid}
        for k in ("entropy", "alpha", "n"):
            if k in o:
                obj[k] = o[k]
        if c.get("q_inline"):
            obj["variational"] = qspec
        else:
            spec.append(qspec)
            obj["variational"] = "q"
        spec.append(obj)
        return spec

    # ---- oracle side
    def log_z(self):
        return float(sum(cj.log_marginal(blk.b) for blk in self.blocks))

    def log_p(self, draws):
        return sum(cj.log_joint_u(blk.b, blk.g, u) for blk, u in zip(self.blocks, draws))

    def log_q(self, draws):
        tot = 0.0
        for qk, p, idx in self.groups:
            u = np.concatenate([draws[i] for i in idx], axis=-1)
            tot = tot + cj.log_q(qk, p, u)
        return tot

    def entropy(self):
        return float(sum(cj.entropy(qk, p) for qk, p, idx in self.groups))


# =========================================================================== classification
def _sshape(s):
    return [int(s)] if not isinstance(s, list) else [int(x) for x in s]


def obj_label(o):
    ss = _sshape(o["samples"])
    if o["type"] == "ELBO":
        if len(ss) == 2:
            return "ELBO-multi-entropy" if o.get("entropy") else "ELBO-multi"
        return "ELBO-entropy" if o.get("entropy") else "ELBO"
    return o["type"]


def pretags(c):
    o = c["objective"]
    return {
        "cls": obj_label(o),
        "objective": o["type"],
        "sdim": len(_sshape(o["samples"])),
        "families": sorted({b["kind"] for b in c["blocks"]}),
        "routes": sorted({b["route"] for b in c["blocks"]}),
        "q_form": ("full-" if c.get("full") else "") + c.get("q_form", "joint"),
        "mode": c["mode"],
        "f32_default": bool(c.get("f32")),
    }


def _round(x):
    if isinstance(x, float):
        return round(x, 6)
    if isinstance(x, list):
        return [_round(v) for v in x]
    if isinstance(x, dict):
        return {k: _round(v) for k, v in x.items() if k != "torch_seed"}
    return x


def _data_size(b):
    return int(_np(b["data"]).size)


# =========================================================================== the check
def _fire(dic, ids):
    # what Optimizer._run does after optimizer.step() and after convergence.check()
    for i in ids:
        dic[i].fire_parameter_changed()


def _scalar(v):
    a = arr(v)
    return a.reshape(-1)


def _fail_once(res, kind, detail, **tags):
    """one failure per (kind, request sample dimension) and case"""
    if not any(f.kind == kind and f.tags.get("req_sdim") == tags.get("req_sdim") for f in res.fails):
        res.fail(kind, detail, **tags)


def _f32_log(k):
    """log K rounded the way a float32 default dtype rounds it (classification of a known finding only)"""
    return float(torch.tensor(float(k), dtype=torch.float32).log().item())


def body(c):
    """route f32: library use - torch's default dtype stays float32 (torchtree's own main() sets it, float64
    unless --dtype says otherwise; an API user and the repository's tests do not) while the model is float64
    through the explicit dtype of its Parameters; the default is restored whatever happens"""
    tt.load_all()  # imports (and the float64 default they are made under) happen before the switch
    with tt.default_dtype(torch.float32 if c.get("f32") else torch.float64):
        return _body(c)


def _dtype_rejection(exc):
    """a dtype-mismatch error under the float32-default / float64-Parameter mixture is a clean rejection"""
    msg = str(exc)
    return isinstance(exc, (RuntimeError, TypeError)) and any(w in msg for w in ("dtype", "Float", "Double", "scalar type"))


def _body(c):
    torch.manual_seed(int(c["torch_seed"]))
    m = Model(c)
    if c.get("f32"):
        m.spec = tt.explicit64(m.spec)
    o = c["objective"]
    tags = pretags(c)
    ss0 = _sshape(o["samples"])
    total = int(np.prod(ss0))
    res = Res(
        nontrivial=total > 1 and sum(_data_size(b) for b in c["blocks"]) > 1,
        key=_round(c),
        labels=(tags["cls"], "samples%dd" % len(ss0), "int-samples" if not isinstance(o["samples"], list) else "list-samples",
                "q:" + tags["q_form"], "joint:" + c.get("joint_style", "flat"), "override" if c.get("override") else "no-override",
                "nblocks%d" % len(c["blocks"]), "default-float32" if c.get("f32") else "default-float64")
        + tuple(sorted({"hyper:" + f for blk in m.blocks for f in blk.used_forms}))
        + tuple(sorted({"class:" + w for blk in m.blocks for w in blk.used_wraps} | {"class:" + w for w in m.q_wraps}))
        + tuple("fam:" + b["kind"] for b in c["blocks"])
        + tuple("route:" + b["route"] for b in c["blocks"]),
        tags=tags,
    )
    built, exc = guarded(tt.build, m.spec)
    if exc is not None:
        if c.get("f32") and _dtype_rejection(exc):
            res.labels += ("dtype-rejected",)
            return res
        raise exc
    dic = built[1]
    obj = dic["obj"]
    log_z = m.log_z()
    sids = [blk.sid for blk in m.blocks]
    prev = {}  # sample shape -> draws of the latest request with that shape
    H = m.entropy() if o.get("entropy") else None
    for req in range(3):
        ss = ss0
        kw = {}
        if req > 0:
            _fire(dic, m.var_ids)
        if req == 1 and c.get("override"):
            ss = _sshape(c["override"])
            kw = {"samples": torch.Size(ss)}
        rt = {"req_sdim": len(ss)}  # tags of this request (the override may change the sample shape)
        with torch.no_grad():
            v, exc = guarded(obj, **kw)
        if exc is not None:
            if c.get("f32") and _dtype_rejection(exc):
                res.labels += ("dtype-rejected",)
                return res
            res.fail(raises_kind(exc), dict(request=req, samples=ss, message=str(exc)[:300]), **rt)
            return res
        val = _scalar(v)
        draws = []
        for s in sids:
            if isinstance(s, list):
                draws.append(np.concatenate([arr(dic[x].tensor) for x in s], axis=-1))
            else:
                draws.append(arr(dic[s].tensor))
        where = {"request": req, "samples": ss}
        # ---- the draws left in the parameters have the requested sample shape
        bad = [list(u.shape) for u, blk in zip(draws, m.blocks) if tuple(u.shape) != tuple(ss) + (blk.dim(),)]
        if bad:
            res.fail("draw_shape", dict(where, shapes=bad), **rt)
            return res
        if not all(np.all(np.isfinite(u)) for u in draws) or not np.all(np.isfinite(val)):
            res.fail("nonfinite", dict(where, value=val.tolist()), **rt)
            return res
        # ---- (c) freshness
        if tuple(ss) in prev:
            same = [float(np.mean(p == u)) for p, u in zip(prev[tuple(ss)], draws)]
            if any(f > 0 for f in same):
                _fail_once(res, "stale_draws", dict(where, fraction_equal=same), **rt)
        prev[tuple(ss)] = draws
        # ---- (b) pairing: recompute from the draws with independent densities
        lp, lq = m.log_p(draws), m.log_q(draws)
        obj_now = dict(o, samples=ss)
        two = len(ss) == 2
        if obj_now.get("entropy") and two:
            # documented: "2 dimensions [N,K]: multi sample ELBO"; no analytic-entropy variant of the
            # importance-weighted bound is documented, so the only admissible value of a two-dimensional
            # request is the multi-sample bound of the draws (= log Z at the posterior), entropy flag or not
            obj_now.pop("entropy")
        cands = cj.objective_candidates(obj_now, lp, lq, H)
        if c.get("f32") and o["type"] == "CUBO":
            # CUBO.from_json keeps the order n as a tensor of the default dtype: the objective of order
            # float32(n) is an equally valid chi bound (and equals log Z at the posterior for any n)
            n32 = float(np.float32(float(o.get("n", 2.0))))
            cands = cands + cj.objective_candidates(dict(obj_now, n=n32), lp, lq, H)
        scale = max(1.0, 1e-3 * float(np.max(np.abs(lp))))
        if not np.all(np.isfinite(lp)) or not np.all(np.isfinite(lq)):
            res.fail("nonfinite", dict(where, log_p=np.asarray(lp).tolist(), log_q=np.asarray(lq).tolist()), **rt)
            return res

        def off(expected):
            return float(np.max(np.abs(val - expected))) / max(abs(expected), scale)

        outer = float(ss[0]) if two else 1.0

        def logk(expected):
            # value - expected == log K - float32(log K): the multi-sample ELBO's float32 constant
            if not (two and o["type"] == "ELBO" and c.get("f32")):
                return False
            return bool(off(expected + math.log(ss[1]) - _f32_log(ss[1])) <= TOL)

        if min(off(e) for e in cands) > TOL:
            t_outer = bool(two and ss[0] > 1 and min(off(outer * e) for e in cands) <= TOL)
            _fail_once(res, "mismatch:draws", dict(where, value=val.tolist(), recomputed=cands, log_z=log_z), times_outer=t_outer,
                       f32_logk=any(logk(e) for e in cands), **rt)
        # ---- (a) exactness at the posterior
        if c["mode"] == "posterior":
            expected = log_z
            if obj_now.get("entropy"):
                # per-draw identity of the analytic-entropy form
                expected = log_z + float(np.mean(lq)) + H
            if off(expected) > TOL:
                t_outer = bool(two and ss[0] > 1 and off(outer * expected) <= TOL)
                _fail_once(res, "mismatch:logz", dict(where, value=val.tolist(), expected=expected, log_z=log_z), times_outer=t_outer,
                           f32_logk=logk(expected), **rt)
            # the posterior handed to q really is the posterior: log p - log q is flat
            flat = float(np.max(np.abs(lp - lq - log_z))) / max(abs(log_z), scale)
            if flat > TOL:
                raise AssertionError("oracle: log p - log q not constant at the posterior (%g) for %r" % (flat, c))
    return res


# =========================================================================== generation
def _vec(draw, strat, d):
    return [draw(strat) for _ in range(d)]


def _tril(draw, D):
    L = [[0.0] * D for _ in range(D)]
    for i in range(D):
        for j in range(i):
            L[i][j] = draw(fl(-1.0, 1.0))
        L[i][i] = draw(logu(0.2, 3.0))
    return L


def _spd(draw, D, diag=False):
    if diag:
        return [[(draw(logu(0.05, 9.0)) if i == j else 0.0) for j in range(D)] for i in range(D)]
    L = np.asarray(_tril(draw, D))
    return (L @ L.T).tolist()


@st.composite
def block(draw, mode, kinds=KINDS, need_plain_normal=False):
    k = draw(st.sampled_from(kinds))
    routes = ROUTES[k]
    if need_plain_normal:
        routes = tuple(r for r in routes if r not in ("setter", "setter_exp"))
    route = draw(st.sampled_from(routes))
    d = draw(st.integers(2, 3)) if k == "mvn" else draw(st.sampled_from([1, 1, 1, 2, 3]))
    n = draw(st.integers(1, 20)) if d == 1 else draw(st.integers(1, 5))
    b = {"kind": k, "route": route}
    if k in GAMMA:
        b["a"] = _vec(draw, logu(0.5, 20.0), d)
        b["b"] = _vec(draw, logu(0.1, 20.0), d)
        if k == "gpois":
            b["data"] = [[float(draw(st.integers(0, 30))) for _ in range(d)] for _ in range(n)]
        else:
            b["data"] = [_vec(draw, logu(0.01, 50.0), d) for _ in range(n)]
        if k == "ggam":
            b["shape"] = _vec(draw, logu(0.3, 10.0), d)
        if route in ("prior_affine", "unres_affine"):
            b["tloc"], b["tscale"] = 0.0, draw(logu(0.1, 10.0))
    elif k == "nn":
        b["m0"] = _vec(draw, fl(-5.0, 5.0), d)
        b["s0"] = _vec(draw, logu(0.1, 5.0), d)
        b["sigma"] = _vec(draw, logu(0.1, 5.0), d)
        b["lik"] = draw(st.sampled_from(["normal", "normal", "lognormal"]))
        if b["lik"] == "lognormal":
            b["data"] = [_vec(draw, logu(0.05, 20.0), d) for _ in range(n)]
        else:
            b["data"] = [_vec(draw, fl(-10.0, 10.0), d) for _ in range(n)]
        if route in ("prior_affine", "unres_affine", "setter"):
            b["tloc"] = draw(fl(-3.0, 3.0))
            b["tscale"] = draw(logu(0.1, 10.0)) * draw(st.sampled_from([1.0, -1.0]))
    elif k == "betabin":
        lo = 1.0 if route == "setter" else 0.5
        b["alpha"] = _vec(draw, logu(lo, 20.0), d)
        b["beta"] = _vec(draw, logu(lo, 20.0), d)
        N = [[draw(st.integers(1, 20)) for _ in range(d)] for _ in range(n)]
        b["N"] = [[float(x) for x in r] for r in N]
        b["data"] = [[float(draw(st.integers(0, x))) for x in r] for r in N]
        if route in ("prior_affine", "unres_affine"):
            b["tloc"], b["tscale"] = 1.0, -1.0
        if route == "setter":
            b["logits"] = draw(st.booleans())
    else:
        b["lik"] = draw(st.sampled_from(["sym", "diag"]))
        b["m0"] = _vec(draw, fl(-5.0, 5.0), d)
        b["S0"] = _spd(draw, d)
        b["Sigma"] = _spd(draw, d, diag=b["lik"] == "diag")
        b["data"] = [_vec(draw, fl(-10.0, 10.0), d) for _ in range(n)]
        b["prior_par"] = draw(st.sampled_from(["covariance_matrix", "precision_matrix", "scale_tril"]))
        if route == "direct" and b["lik"] == "sym" and draw(st.booleans()):
            b["split"] = draw(st.integers(1, d - 1))
        if route == "unres_affine":
            b["tloc"] = draw(fl(-3.0, 3.0))
            b["tscale"] = draw(logu(0.1, 10.0)) * draw(st.sampled_from([1.0, -1.0]))
    if k in ("nn", "mvn"):
        # each term with the package's own class or with the generic wrapper around the torch class
        for role in ("prior", "like", "q"):
            b["w_" + role] = draw(st.sampled_from(WRAP))
    # how each hyper-parameter is written: bare JSON number (scalars), list, or Parameter object
    b["forms"] = {name: draw(st.sampled_from(FORMS)) for name in ("prior.p0", "prior.p1", "like.p")}
    if mode == "perturbed":
        # arbitrary member of the family of the sampled variable
        qk = "gamma" if k in GAMMA else {"nn": "lognormal" if route == "setter_exp" else "normal", "betabin": "beta", "mvn": "mvn"}[k]
        if qk == "gamma":
            b["q"] = {"conc": _vec(draw, logu(0.5, 30.0), d), "rate": _vec(draw, logu(0.1, 30.0), d)}
        elif qk == "normal":
            b["q"] = {"loc": _vec(draw, fl(-5.0, 5.0), d), "scale": _vec(draw, logu(0.05, 3.0), d)}
        elif qk == "lognormal":
            b["q"] = {"loc": _vec(draw, fl(-2.0, 2.0), d), "scale": _vec(draw, logu(0.05, 1.5), d)}
        elif qk == "beta":
            b["q"] = {"c1": _vec(draw, logu(1.0, 30.0), d), "c0": _vec(draw, logu(1.0, 30.0), d)}
        else:
            b["q"] = {"loc": _vec(draw, fl(-5.0, 5.0), d), "tril": _tril(draw, d)}
    return b


@st.composite
def objective(draw, can_entropy):
    t = draw(st.sampled_from(["ELBO", "ELBO", "ELBO", "VR", "VR", "CUBO", "KLpq"]))
    form = draw(st.sampled_from(["int", "list1", "list2", "list2"]))
    S = draw(st.integers(1, 6))
    if form == "int":
        samples = S
    elif form == "list1":
        samples = [S]
    else:
        samples = [S, draw(st.integers(1, 5))]
    o = {"type": t, "samples": samples}
    if t == "ELBO" and can_entropy and draw(st.booleans()):
        o["entropy"] = True
    if t == "VR" and draw(st.integers(0, 4)) > 0:
        o["alpha"] = draw(st.one_of(fl(-2.0, 0.95), fl(1.05, 3.0), st.sampled_from([0.0, 0.5, 2.0])))
    if t == "CUBO" and draw(st.integers(0, 3)) > 0:
        o["n"] = draw(st.one_of(fl(0.5, 4.0), st.sampled_from([1.0, 2.0, 3.0, 2, 3])))
    return o


def _all_normal(blocks):
    return all(b["kind"] in ("nn", "mvn") and b["route"] not in ("setter", "setter_exp") for b in blocks)


def cases(mode):
    @st.composite
    def strat(draw):
        c = {"mode": mode, "torch_seed": draw(st.integers(0, 2**31 - 1))}
        full = draw(st.integers(0, 4)) == 0
        nb = draw(st.sampled_from([1, 1, 2, 2, 3]))
        if full:
            blocks = [draw(block(mode, kinds=("nn", "mvn"), need_plain_normal=True)) for _ in range(nb)]
        else:
            blocks = [draw(block(mode)) for _ in range(nb)]
        c["blocks"] = blocks
        c["joint_style"] = draw(st.sampled_from(["flat", "jacobian", "prior_like"]))
        has_mvn = full or any(b["kind"] == "mvn" for b in blocks)
        if full:
            c["full"] = True
            D = sum(len(b["data"][0]) for b in blocks)
            if mode == "perturbed":
                for b in blocks:
                    b.pop("q", None)
                c["full_q"] = {"loc": _vec(draw, fl(-5.0, 5.0), D), "tril": _tril(draw, D)}
        single_mvn = full or (nb == 1 and blocks[0]["kind"] == "mvn")
        if full:
            c["w_q"] = draw(st.sampled_from(WRAP))
        generic_q = (c.get("w_q") if full else blocks[0].get("w_q")) == "torch"
        # the generic wrapper is a documented q only as a factor of a JointDistributionModel
        c["q_form"] = draw(st.sampled_from(["direct", "joint"])) if single_mvn and not generic_q else "joint"
        if has_mvn:
            c["q_par"] = draw(st.sampled_from(["scale_tril", "scale_tril_unres", "covariance_matrix", "precision_matrix"]))
        c["q_exp"] = draw(st.booleans())
        c["q_inline"] = draw(st.booleans())
        c["f32"] = draw(st.booleans())
        can_entropy = (not has_mvn) or c["q_form"] == "direct"
        c["objective"] = draw(objective(can_entropy))
        if draw(st.integers(0, 2)) == 0:
            two = draw(st.booleans())
            c["override"] = [draw(st.integers(1, 6))] + ([draw(st.integers(1, 4))] if two else [])
        return c

    return strat


# --------------------------------------------------------------------------- enumeration: objective x shape x family x route
_FIXED = {
    "gexp": {"a": [2.0], "b": [3.0], "data": [[0.5], [1.2], [0.1], [2.0]]},
    "gpois": {"a": [2.5], "b": [0.7], "data": [[3.0], [0.0], [7.0]]},
    "ggam": {"a": [2.5], "b": [0.7], "shape": [1.7], "data": [[3.3], [0.2], [7.0]]},
    "nn": {"m0": [0.3], "s0": [0.8], "sigma": [0.5], "lik": "normal", "data": [[0.1], [0.9], [0.4], [-0.2], [0.7]]},
    "betabin": {"alpha": [1.5], "beta": [2.2], "N": [[5.0], [3.0]], "data": [[2.0], [3.0]]},
    "mvn": {"m0": [0.1, -0.4], "S0": [[2.0, 0.3], [0.3, 1.0]], "Sigma": [[1.0, -0.2], [-0.2, 0.5]], "lik": "sym",
            "data": [[0.5, 1.0], [1.5, -1.0], [0.0, 0.2]], "prior_par": "covariance_matrix"},
}
_FIXED_Q = {"gamma": {"conc": [3.0], "rate": [1.5]}, "normal": {"loc": [0.7], "scale": [0.6]}, "lognormal": {"loc": [0.2], "scale": [0.5]},
            "beta": {"c1": [2.0], "c0": [3.5]}, "mvn": {"loc": [0.3, 0.1], "tril": [[0.8, 0.0], [0.3, 0.6]]}}
_OBJS = [
    {"type": "ELBO"}, {"type": "ELBO", "entropy": True}, {"type": "VR"}, {"type": "VR", "alpha": 0.5}, {"type": "VR", "alpha": 2.0},
    {"type": "CUBO"}, {"type": "CUBO", "n": 3.0}, {"type": "KLpq"},
]
_SHAPES = [1, [5], [4, 3], [1, 3], [3, 1], [3, 3]]


def grid(tier):
    out = []
    i = 0
    for k in KINDS:
        for route in ROUTES[k]:
            for o in _OBJS:
                for sh in _SHAPES:
                    for mode in ("posterior", "perturbed"):
                        b = dict(_FIXED[k], kind=k, route=route)
                        if k in GAMMA and route in ("prior_affine", "unres_affine"):
                            b["tloc"], b["tscale"] = 0.0, 2.5
                        if k in ("nn", "mvn") and route in ("prior_affine", "unres_affine", "setter"):
                            b["tloc"], b["tscale"] = 0.4, -1.7
                        if k == "betabin" and route in ("prior_affine", "unres_affine"):
                            b["tloc"], b["tscale"] = 1.0, -1.0
                        if mode == "perturbed":
                            qk = "gamma" if k in GAMMA else {"nn": "lognormal" if route == "setter_exp" else "normal", "betabin": "beta", "mvn": "mvn"}[k]
                            b["q"] = _FIXED_Q[qk]
                        i += 1
                        c = {"mode": mode, "torch_seed": 1000 + i, "blocks": [b], "joint_style": ("flat", "jacobian", "prior_like")[i % 3],
                             "q_form": "direct" if k == "mvn" and i % 2 else "joint", "q_exp": bool(i % 2), "q_inline": bool((i // 2) % 2),
                             "objective": dict(o, samples=sh)}
                        if i % 5 == 0:
                            c["override"] = [2, 2] if i % 10 == 0 else [3]
                        if k == "mvn":
                            c["q_par"] = ("scale_tril", "scale_tril_unres", "covariance_matrix", "precision_matrix")[i % 4]
                            if o.get("entropy") and c["q_form"] != "direct":
                                c["q_form"] = "direct"
                        out.append(c)
    return out


# --------------------------------------------------------------------------- enumeration: default dtype x hyper-parameter form
# hyper-parameters that float32 cannot represent (2.1, 0.1, 0.3, 0.7, 1.3, 2.2 ...)
_FIXED_NR = {
    "gexp": {"a": [2.1], "b": [0.1], "data": [[0.5], [1.2], [0.1], [2.3]]},
    "gpois": {"a": [2.6], "b": [0.7], "data": [[3.0], [0.0], [7.0]]},
    "ggam": {"a": [2.3], "b": [0.7], "shape": [1.7], "data": [[3.3], [0.2], [7.1]]},
    "nn": {"m0": [0.3], "s0": [0.8], "sigma": [0.7], "lik": "normal", "data": [[0.1], [0.9], [0.4], [-0.2], [0.7]]},
    "betabin": {"alpha": [1.3], "beta": [2.2], "N": [[5.0]], "data": [[2.0]]},
    "mvn": {"m0": [0.1, -0.4], "S0": [[2.1, 0.3], [0.3, 1.1]], "Sigma": [[1.3, 0.0], [0.0, 0.6]], "lik": "diag",
            "data": [[0.5, 1.1], [1.5, -1.0], [0.0, 0.2]], "prior_par": "covariance_matrix"},
}
_OBJS_DT = [{"type": "ELBO", "samples": 4}, {"type": "ELBO", "samples": 3, "entropy": True}, {"type": "ELBO", "samples": [3, 4]},
            {"type": "ELBO", "samples": [2, 5], "entropy": True},
            {"type": "ELBO", "samples": [2, 3]}, {"type": "VR", "samples": [5], "alpha": 0.3}, {"type": "VR", "samples": [2, 3], "alpha": 2.0},
            {"type": "CUBO", "samples": 4, "n": 2.7}, {"type": "KLpq", "samples": 6}]


def dtype_grid(tier):
    out = []
    i = 0
    for k in KINDS:
        for route in ROUTES[k]:
            for o in _OBJS_DT:
                for form in FORMS:
                    for f32 in (True, False):
                        if not f32 and form != "num":
                            continue  # float64 default with lists / Parameters is the main grid's setting
                        for mode in ("posterior", "perturbed"):
                            b = dict(_FIXED_NR[k], kind=k, route=route, forms={"prior.p0": form, "prior.p1": form, "like.p": form})
                            if k in GAMMA and route in ("prior_affine", "unres_affine"):
                                b["tloc"], b["tscale"] = 0.0, 2.3
                            if k in ("nn", "mvn") and route in ("prior_affine", "unres_affine", "setter"):
                                b["tloc"], b["tscale"] = 0.4, -1.7
                            if k == "betabin" and route in ("prior_affine", "unres_affine"):
                                b["tloc"], b["tscale"] = 1.0, -1.0
                            if mode == "perturbed":
                                qk = "gamma" if k in GAMMA else {"nn": "lognormal" if route == "setter_exp" else "normal", "betabin": "beta", "mvn": "mvn"}[k]
                                b["q"] = _FIXED_Q[qk]
                            i += 1
                            c = {"mode": mode, "torch_seed": 5000 + i, "blocks": [b], "joint_style": ("flat", "jacobian", "prior_like")[i % 3],
                                 "q_form": "direct" if k == "mvn" else "joint", "q_exp": bool(i % 2), "q_inline": False, "f32": f32,
                                 "objective": dict(o)}
                            if k == "mvn":
                                c["q_par"] = ("scale_tril", "scale_tril_unres", "covariance_matrix", "precision_matrix")[i % 4]
                            if i % 4 == 0:
                                c["override"] = [2, 3]
                            out.append(c)
    return out


# --------------------------------------------------------------------------- enumeration: package class x generic wrapper
def class_grid(tier):
    """normal and multivariate-normal families with every term (prior, likelihood, q) written with the package's
    own class (MultivariateNormal; Normal(loc, precision); LogNormal(mean, scale)) or with Distribution(torch class)"""
    out = []
    i = 0
    for k in ("nn", "mvn"):
        for route in ROUTES[k]:
            for lik in (("normal", "lognormal") if k == "nn" else ("sym", "diag")):
                for o in _OBJS_DT:
                    for wp in WRAP:
                        for wl in WRAP:
                            for wq in WRAP:
                                i += 1
                                mode = ("posterior", "perturbed")[i % 2]
                                b = dict(_FIXED_NR[k], kind=k, route=route, lik=lik, w_prior=wp, w_like=wl, w_q=wq)
                                if lik == "lognormal":
                                    b["data"] = [[0.6], [0.9], [1.4], [2.2]]
                                if lik == "sym":
                                    b["Sigma"] = [[1.3, -0.2], [-0.2, 0.6]]
                                if route in ("prior_affine", "unres_affine", "setter"):
                                    b["tloc"], b["tscale"] = 0.4, -1.7
                                if mode == "perturbed":
                                    qk = {"nn": "lognormal" if route == "setter_exp" else "normal", "mvn": "mvn"}[k]
                                    b["q"] = _FIXED_Q[qk]
                                direct = k == "mvn" and wq == "package" and (i // 2) % 2 == 0
                                one_d = not (isinstance(o["samples"], list) and len(o["samples"]) == 2)
                                if o.get("entropy") and k == "mvn":
                                    if wq == "torch" and one_d:
                                        continue  # analytic entropy needs a direct MultivariateNormal (ASSUMPTIONS)
                                    direct = wq == "package"
                                c = {"mode": mode, "torch_seed": 9000 + i, "blocks": [b], "joint_style": ("flat", "jacobian", "prior_like")[i % 3],
                                     "q_form": "direct" if direct else "joint", "q_exp": bool((i // 4) % 2), "q_inline": bool((i // 8) % 2),
                                     "f32": bool((i // 16) % 2), "objective": dict(o)}
                                if k == "mvn":
                                    c["q_par"] = ("scale_tril", "scale_tril_unres", "covariance_matrix", "precision_matrix")[i % 4]
                                if i % 4 == 0:
                                    c["override"] = [2, 3]
                                out.append(c)
    return out


# =========================================================================== oracle calibration
def selftest():
    # literals of DESIGN.md (prototype runs) and closed forms against quadrature / Bayes' identity
    lit = cj.log_marginal(dict(_FIXED["gexp"], kind="gexp"))
    if abs(lit - (-4.5168193529741)) > 1e-12:
        raise AssertionError("gamma-exponential literal: %r" % lit)
    lit = cj.log_marginal(dict(_FIXED["nn"], kind="nn"))
    if abs(lit - (-4.021928740464636)) > 1e-12:
        raise AssertionError("normal-normal literal: %r" % lit)
    extra = [
        {"kind": "gexp", "a": [2.0, 0.7], "b": [3.0, 1.1], "data": [[0.5, 2.0], [1.2, 0.3]]},
        {"kind": "nn", "lik": "lognormal", "m0": [0.3], "s0": [0.8], "sigma": [0.5], "data": [[0.1], [0.9], [1.4]]},
        {"kind": "betabin", "alpha": [0.6, 3.0], "beta": [2.2, 1.0], "N": [[5.0, 9.0], [3.0, 1.0]], "data": [[2.0, 9.0], [3.0, 0.0]]},
    ]
    for b in [dict(v, kind=k) for k, v in _FIXED.items()] + extra:
        err, qerr = cj.audit(b)
        if err > 1e-12 or (qerr is not None and qerr > 1e-9):
            raise AssertionError("closed form of %s disagrees with its audit: %r %r" % (b["kind"], err, qerr))
    # objective formulas at equal weights give log Z whatever the shape
    for o in _OBJS:
        for shp in [(5,), (4, 3)]:
            if o.get("entropy"):
                continue
            lq = np.linspace(-3.0, 1.0, int(np.prod(shp))).reshape(shp)
            for v in cj.objective_candidates(o, lq - 2.5, lq):
                if abs(v + 2.5) > 1e-12:
                    raise AssertionError("objective formula %r" % (o,))


def subchecks(tier):
    return [
        Sub("exact", body, strategy=cases("posterior"), quick=1600, thorough=40000, pretags=pretags),
        Sub("pairing", body, strategy=cases("perturbed"), quick=1600, thorough=40000, pretags=pretags),
        Sub("grid", body, enumerate=grid, exhaustive=True, pretags=pretags),
        Sub("dtype", body, enumerate=dtype_grid, exhaustive=True, pretags=pretags),
        Sub("classes", body, enumerate=class_grid, exhaustive=True, pretags=pretags),
    ]
