#!/venv/bin/python
"""regenerate sections 12.2 / 12.3 of DESIGN.md from known_findings.json"""
import json, subprocess
k = json.load(open("/verif/known_findings.json"))["findings"]
def subj(c):
    try:
        return subprocess.check_output(["git", "-C", "/repo", "log", "--format=%s", "-1", c], stderr=subprocess.DEVNULL).decode().strip()
    except Exception:
        return ""
fixed = [e for e in k if e["status"] == "fixed"]
known = [e for e in k if e["status"] == "known"]
rows = []
for e in sorted(fixed, key=lambda e: (e["property"], e["id"])):
    w = e["what"].split(" ", 3)[-1] if e["what"].startswith("fixed:") else e["what"]
    rows.append("| %s | %s | %s | %s `%s` |" % (e["property"], e["id"], w.replace("|", "/")[:420], subj(e["commit"]).replace("fix: ", ""), e["commit"]))
rows2 = ["| %s | %s | %s |" % (e["property"], e["id"], e["what"].replace("|", "/")[:600]) for e in sorted(known, key=lambda e: (e["property"], e["id"]))]
commits = sorted({e["commit"] for e in fixed})
txt = """### 12.2 Findings on the pinned tree: repaired defects (generated from known_findings.json)

Every entry below was first reported by a check on the unchanged tree, reproduced from its shrunk replay, classified as
a genuine violation of the stated property, repaired by one minimal `fix:` commit in /repo (144/144 repository tests
pass after each), and recorded in `known_findings.json` as `fixed` with a committed replay (which stays in the
regression corpus and is reported again as a VIOLATION if the defect returns). %d entries, %d distinct fix commits.

| property | id | what failed | fix commit |
|---|---|---|---|
%s

### 12.3 Findings recorded, not repaired (`status: known`; generated)

Each is matched by a predicate on case tags (never on a seed or literal value), its replay is re-run at the start of
every run, `KNOWN-FINDING:` is printed while it still fails, and cases in the matched region are skipped or their
matching failures discounted (`excluded_known` / `known_finding_hits` in evidence). %d entries.

| property | id | what fails and why it is not repaired |
|---|---|---|
%s

""" % (len(fixed), len(commits), "\n".join(rows), len(known), "\n".join(rows2))
p = "/verif/DESIGN.md"
s = open(p).read()
a = s.index("### 12.2 Findings on the pinned tree")
b = s.index("### 12.4 False alarms")
s = s[:a] + txt + s[b:]
open(p, "w").write(s)
print("fixed", len(fixed), "commits", len(commits), "known", len(known))
