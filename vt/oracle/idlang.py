"""Reference interpreter of torchtree's specification language (no torchtree import).

A specification is a JSON list.  The language, as documented by `remove_comments`,
`process_object(s)`, the Plate example (examples/advi/planar-flow.json) and the
`from_json` docstrings of the classes below:

* decorations: a key that starts with '_' is dropped together with its value; a dict that has
  a true "ignore" entry is dropped from the list / dict that holds it;
* plates: a list element {"type": "...Plate", "range": "a:b[:s]", "var": v, "object": o} is
  replaced by one deep copy of o per i in range(a, b[, s]); in every "id" of the copy
  "${v}" is replaced by str(i) (without "var": a trailing '*' of an id is replaced);
* objects: a dict in an object position defines a new object (needs "id" and "type"); a
  string in an object position refers to an object that has been *completed* earlier; the
  top-level elements are processed in order, lists in order;
* ids -> first definition; a second definition of an id (anywhere) and a reference that does
  not resolve are errors.

The interpreter walks the whole specification, collects *all* faults with their kind and
nesting relation, records who holds whom (for identity checks) and can evaluate the public
value of every object of the small zoo with numpy.
"""
import copy
import math

import numpy as np

try:  # scipy is only needed for gammaln
    from scipy.special import gammaln
except Exception:  # pragma: no cover
    gammaln = np.vectorize(math.lgamma)

MODULES = {
    "Parameter": "torchtree.core.parameter",
    "ViewParameter": "torchtree.core.parameter",
    "CatParameter": "torchtree.core.parameter",
    "TransformedParameter": "torchtree.core.parameter",
    "Distribution": "torchtree.distributions.distributions",
    "JointDistributionModel": "torchtree.distributions.joint_distribution",
    "CTMCScale": "torchtree.distributions.ctmc_scale",
    "ConstantSiteModel": "torchtree.evolution.site_model",
    "InvariantSiteModel": "torchtree.evolution.site_model",
    "WeibullSiteModel": "torchtree.evolution.site_model",
    "JC69": "torchtree.evolution.substitution_model.nucleotide",
    "HKY": "torchtree.evolution.substitution_model.nucleotide",
    "GTR": "torchtree.evolution.substitution_model.nucleotide",
    "Taxon": "torchtree.evolution.taxa",
    "Taxa": "torchtree.evolution.taxa",
    "UnRootedTreeModel": "torchtree.evolution.tree_model",
    "TimeTreeModel": "torchtree.evolution.tree_model",
    "FlexibleTimeTreeModel": "torchtree.evolution.tree_model_flexible",
    "StrictClockModel": "torchtree.evolution.branch_model",
    "SimpleClockModel": "torchtree.evolution.branch_model",
    "Logger": "torchtree.core.logger",
}
TYPE_NAMES = {}
for _c, _m in MODULES.items():
    TYPE_NAMES[_c] = _c
    TYPE_NAMES[_m + "." + _c] = _c
for _c in ("Parameter", "ViewParameter", "CatParameter", "TransformedParameter"):
    TYPE_NAMES["torchtree." + _c] = _c

DIST_ARGS = {
    "torch.distributions.Normal": ("loc", "scale"),
    "torch.distributions.LogNormal": ("loc", "scale"),
    "torch.distributions.Gamma": ("concentration", "rate"),
    "torch.distributions.Exponential": ("rate",),
    "torch.distributions.Dirichlet": ("concentration",),
}
TRANSFORMS = ("torch.distributions.ExpTransform", "torch.distributions.SigmoidTransform")


# --------------------------------------------------------------------------- decorations, plates
def _ignored(v):
    return isinstance(v, dict) and "ignore" in v and bool(v["ignore"])


def strip(obj):
    """the specification with every decoration removed (new structure)"""
    if isinstance(obj, list):
        return [strip(e) for e in obj if not _ignored(e)]
    if isinstance(obj, dict):
        return {k: strip(v) for k, v in obj.items() if not k.startswith("_") and not _ignored(v)}
    return obj


def has_decoration(obj):
    """underscore keys, ignored objects, and explicit markers "ignore": <false> (which keep the object)"""
    if isinstance(obj, list):
        return any(_ignored(e) or has_decoration(e) for e in obj)
    if isinstance(obj, dict):
        return "ignore" in obj or any(k.startswith("_") or _ignored(v) or has_decoration(v) for k, v in obj.items())
    return False


def is_plate(v):
    return isinstance(v, dict) and isinstance(v.get("type"), str) and v["type"].endswith("Plate")


def _subst_ids(obj, fn):
    if isinstance(obj, list):
        for e in obj:
            _subst_ids(e, fn)
    elif isinstance(obj, dict):
        for k in list(obj):
            _subst_ids(obj[k], fn)
            if k == "id" and isinstance(obj[k], str):
                obj[k] = fn(obj[k])


class PlateError(Exception):
    pass


def expand(obj, in_list=True):
    """plates expanded (new structure); a plate that is not an element of a list raises
    PlateError; plates inside a plate's object are outside the documented form (PlateError
    with 'nested')"""
    if isinstance(obj, list):
        out = []
        for e in obj:
            if is_plate(e) and "range" in e:
                r = [int(x) for x in e["range"].split(":")]
                if _has_plate(e.get("object")):
                    raise PlateError("nested")
                for i in range(*r):
                    clone = copy.deepcopy(e["object"])
                    if "var" in e:
                        w = "${%s}" % e["var"]
                        _subst_ids(clone, lambda s, w=w, i=i: s.replace(w, str(i)))
                    else:
                        _subst_ids(clone, lambda s, i=i: s[:-1] + str(i) if s.endswith("*") else s)
                    out.append(clone)
            else:
                out.append(expand(e))
        return out
    if isinstance(obj, dict):
        out = {}
        for k, v in obj.items():
            if is_plate(v) and "range" in v:
                raise PlateError("not_in_list")
            out[k] = expand(v)
        return out
    return obj


def _has_plate(obj):
    if is_plate(obj):
        return True
    if isinstance(obj, list):
        return any(_has_plate(e) for e in obj)
    if isinstance(obj, dict):
        return any(_has_plate(v) for v in obj.values())
    return False


# --------------------------------------------------------------------------- the interpreter
def relation(p1, p2):
    """nesting relation of a second definition at p2 to the first definition at p1"""
    if p2[: len(p1)] == p1:
        return "ancestor"  # the second one lies inside the first one's own definition
    if p1[0] != p2[0]:
        return "toplevel"  # in different top-level elements
    if p1[:-1] == p2[:-1]:
        return "sibling"  # two elements of one list
    return "distant"


class Node(dict):
    """cls, id, path, uses=[(slot, child Node | [Nodes])], plus class specific fields"""

    __hash__ = object.__hash__
    __eq__ = object.__eq__


class Interp:
    def __init__(self, spec):
        self.spec = spec
        self.defined = {}  # id -> path of the first definition (set when the definition starts)
        self.reg = {}  # id -> Node (set when the definition is complete)
        self.faults = []  # (kind, relation)
        self.pending = []  # unresolved references (id, path)
        self.nested_dups = set()  # ids defined again inside their own definition
        self.fault_tops = []
        self.order_dependent = False  # verdict would depend on the order of keys inside one object
        self.malformed = None  # outside the zoo / the language subset handled here
        self.nodes = []
        self.n_refs = 0
        self.stripped = strip(spec)
        self.decorated = has_decoration(spec)
        self.plates = _has_plate(self.stripped)
        try:
            self.expanded = expand(self.stripped)
        except PlateError as e:
            self.expanded = None
            if str(e) == "nested":
                self.malformed = "nested plate"
            else:
                self._fault("plate_not_in_list", "-", [])
        if self.expanded is not None:
            if not isinstance(self.expanded, list):
                self.malformed = "top level is not a list"
            else:
                for i, e in enumerate(self.expanded):
                    try:
                        self.objs(e, [i])
                    except _Malformed as m:
                        self.malformed = str(m)
                        break
                if self.malformed is None and self._cyclic():
                    # only possible through a holder that enters the id table before it is complete
                    # (FlexibleTimeTreeModel referring to itself from its heights): legal for the id
                    # language, but no class of the zoo can make sense of it (a tree used as a vector)
                    self.malformed = "circular reference"
                for id_, path in self.pending:
                    if id_ in self.defined:
                        self._lca_guard(self.defined[id_], path)
                        self._fault("dangling", "forward", path)
                    else:
                        self._fault("dangling", "nothing", path)

    def _fault(self, kind, rel, path):
        self.faults.append((kind, rel))
        self.fault_tops.append(path[0] if path else -1)

    @property
    def fault_top(self):
        """index (in the expanded top-level list) of the first element that cannot be completed;
        -1 when nothing can be constructed at all, None when well-formed"""
        return min(self.fault_tops) if self.fault_tops else None

    # ---- verdict
    @property
    def wellformed(self):
        return not self.faults

    def fault_tags(self):
        root = [f for f in self.faults if f != ("dangling", "enclosing_shadowed")]
        kinds = sorted({k for k, _ in root})
        rels = sorted({r for _, r in root})
        return {"fault": "+".join(kinds) or "none", "relation": "+".join(rels) or "none"}

    # ---- walking
    def _lca_guard(self, pdef, pref):
        n = 0
        while n < len(pdef) and n < len(pref) and pdef[n] == pref[n]:
            n += 1
        if n < len(pdef) and not isinstance(pdef[n], int):
            self.order_dependent = True

    def obj(self, v, path):
        if isinstance(v, str):
            self.n_refs += 1
            if "{" in v:
                raise _Malformed("range reference syntax")
            if v in self.reg:
                self._lca_guard(self.reg[v]["path"], path)
                return self.reg[v]
            if v in self.defined and path[: len(self.defined[v])] == self.defined[v]:
                # a reference to the object being defined; when a second definition of the same id has
                # already been seen inside it, this is a consequence of that duplicate, not a fault of its own
                self._fault("dangling", "enclosing_shadowed" if v in self.nested_dups else "enclosing", path)
            else:
                self.pending.append((v, path))
            return None
        if isinstance(v, dict):
            return self.define(v, path)
        self._fault("not_object", "-", path)
        return None

    def objs(self, v, path):
        if isinstance(v, list):
            return [self.obj(e, path + [i]) for i, e in enumerate(v)]
        return self.obj(v, path)

    def define(self, v, path):
        first = False
        id_ = None
        if "id" not in v:
            self._fault("missing_id", "-", path)
        else:
            id_ = v["id"]
            if not isinstance(id_, str):
                raise _Malformed("id is not a string")
            if id_ in self.defined:
                rel = relation(self.defined[id_], path)
                if rel == "ancestor":
                    self.nested_dups.add(id_)
                self._fault("duplicate", rel, path)
            else:
                self.defined[id_] = path
                first = True
        if "type" not in v:
            self._fault("missing_type", "-", path)
            return None
        cls = TYPE_NAMES.get(v["type"]) if isinstance(v["type"], str) else None
        if cls is None:
            if isinstance(v["type"], str) and (v["type"].startswith("torch.") or v["type"].endswith("Plate")):
                raise _Malformed("type outside the zoo")
            self._fault("unknown_type", "-", path)
            return None
        node = Node(cls=cls, id=id_, path=path, uses=[])
        node["_first"] = first
        getattr(self, "_" + cls)(v, path, node)
        self.nodes.append(node)
        if first:
            self.reg[id_] = node  # (a class that announced itself early keeps that position)
        return node

    def _slot(self, v, key, path, node, many=False, optional=False):
        if key not in v:
            if optional:
                return None
            raise _Malformed("missing key %s" % key)
        c = (self.objs if many else self.obj)(v[key], path + [key])
        node["uses"].append((key, c))
        return c

    # ---- classes (slots in the order their from_json reads them)
    def _Parameter(self, v, path, node):
        node["leaf"] = True
        node["updatable"] = False
        like = [k for k in ("full_like", "zeros_like", "ones_like") if k in v]
        if "full_like" in v:
            c = self._slot(v, "full_like", path, node)
            node["value"] = _like(c, float(v["tensor"]))
        elif "full" in v:
            node["value"] = np.full(tuple(np.atleast_1d(v["full"])), float(v["tensor"]))
        elif "zeros_like" in v:
            c = self._slot(v, "zeros_like", path, node)
            node["value"] = _like(c, 0.0)
        elif "zeros" in v:
            node["value"] = np.zeros(tuple(np.atleast_1d(v["zeros"])))
        elif "ones_like" in v:
            c = self._slot(v, "ones_like", path, node)
            node["value"] = _like(c, 1.0)
        elif "ones" in v:
            node["value"] = np.ones(tuple(np.atleast_1d(v["ones"])))
        else:
            if "tensor" not in v:
                raise _Malformed("Parameter without tensor")
            node["value"] = np.asarray(v["tensor"], dtype=float)
            node["updatable"] = True
        node["shape_only"] = bool(like)

    def _ViewParameter(self, v, path, node):
        self._slot(v, "parameter", path, node)
        if not isinstance(v.get("indices"), str):
            raise _Malformed("indices")
        node["indices"] = v["indices"]

    def _CatParameter(self, v, path, node):
        if not isinstance(v.get("parameters"), list):
            raise _Malformed("CatParameter.parameters must be a list")
        self._slot(v, "parameters", path, node, many=True)

    def _TransformedParameter(self, v, path, node):
        if v.get("transform") not in TRANSFORMS or "parameters" in v:
            raise _Malformed("transform outside the zoo")
        node["transform"] = v["transform"]
        self._slot(v, "x", path, node, many=True)

    def _Distribution(self, v, path, node):
        d = v.get("distribution")
        if d not in DIST_ARGS:
            raise _Malformed("distribution outside the zoo")
        node["dist"] = d
        self._slot(v, "x", path, node, many=True)
        node["params"] = {}
        pd = v.get("parameters", {})
        for arg in DIST_ARGS[d]:
            if arg not in pd:
                raise _Malformed("distribution parameter missing")
            pv = pd[arg]
            if isinstance(pv, (str, dict)):
                c = self.obj(pv, path + ["parameters", arg])
                node["uses"].append(("parameters." + arg, c))
                node["params"][arg] = c
            elif isinstance(pv, bool) or pv is None:
                raise _Malformed("distribution parameter literal")
            else:
                node["params"][arg] = np.asarray(pv, dtype=float)

    def _JointDistributionModel(self, v, path, node):
        if not isinstance(v.get("distributions"), list):
            raise _Malformed("distributions must be a list")
        self._slot(v, "distributions", path, node, many=True)

    def _CTMCScale(self, v, path, node):
        self._slot(v, "x", path, node)
        self._slot(v, "tree_model", path, node)

    def _ConstantSiteModel(self, v, path, node):
        self._slot(v, "mu", path, node, optional=True)

    def _InvariantSiteModel(self, v, path, node):
        self._slot(v, "invariant", path, node)
        self._slot(v, "mu", path, node, optional=True)

    def _WeibullSiteModel(self, v, path, node):
        node["K"] = v["categories"]
        self._slot(v, "shape", path, node)
        self._slot(v, "invariant", path, node, optional=True)
        self._slot(v, "mu", path, node, optional=True)

    def _JC69(self, v, path, node):
        pass

    def _HKY(self, v, path, node):
        self._slot(v, "kappa", path, node)
        self._slot(v, "frequencies", path, node)

    def _GTR(self, v, path, node):
        self._slot(v, "rates", path, node)
        self._slot(v, "frequencies", path, node)

    def _Taxon(self, v, path, node):
        node["attributes"] = dict(v.get("attributes", {}))

    def _Taxa(self, v, path, node):
        if not isinstance(v.get("taxa"), list):
            raise _Malformed("taxa must be a list")
        self._slot(v, "taxa", path, node, many=True)

    def _UnRootedTreeModel(self, v, path, node):
        self._slot(v, "taxa", path, node)
        c = self._slot(v, "branch_lengths", path, node)
        if v.get("keep_branch_lengths"):
            # the lengths written in the newick string are assigned to the branch-length parameter (the
            # registered, possibly shared object) while the tree is loaded; the two branches at the root
            # are merged and the last node, a child of the root, is dropped (DESIGN A.1)
            if c is not None:
                if c["cls"] != "Parameter" or not c.get("updatable"):
                    raise _Malformed("keep_branch_lengths on a derived parameter")
                w = _newick_lengths(v.get("newick", ""))
                if w is None:
                    raise _Malformed("newick outside the caterpillar form")
                c["value"] = w

    def _TimeTreeModel(self, v, path, node):
        self._slot(v, "taxa", path, node)
        self._slot(v, "internal_heights", path, node)

    def _FlexibleTimeTreeModel(self, v, path, node):
        # documented in its from_json: the tree model enters the id table after its taxa and before its
        # internal heights, so that the heights (a transformed parameter) may refer to the tree itself
        self._slot(v, "taxa", path, node)
        if node["_first"]:
            self.reg[node["id"]] = node
        self._slot(v, "internal_heights", path, node)

    def _StrictClockModel(self, v, path, node):
        self._slot(v, "tree_model", path, node)
        self._slot(v, "rate", path, node)

    _SimpleClockModel = _StrictClockModel

    def _Logger(self, v, path, node):
        # a Runnable: torchtree.main runs it as soon as its top-level element is complete
        if not isinstance(v.get("parameters"), list) or "delimiter" in v or v.get("every", 1) != 1:
            raise _Malformed("logger outside the subset")
        self._slot(v, "parameters", path, node, many=True)
        node["file_name"] = v.get("file_name")
        try:  # main runs it at once: it logs the values of this moment
            node["content"] = logger_file(node)
        except Exception:  # noqa  (a fault below it)
            node["content"] = None

    def _cyclic(self):
        """does the holder graph contain a cycle? (iterative; value() would never terminate on one)"""
        state = {}
        for root in self.nodes:
            if id(root) in state:
                continue
            stack = [(root, iter(self._children(root)))]
            state[id(root)] = 1
            while stack:
                node, it = stack[-1]
                nxt = next(it, None)
                if nxt is None:
                    state[id(node)] = 2
                    stack.pop()
                elif state.get(id(nxt)) == 1:
                    return True
                elif id(nxt) not in state:
                    state[id(nxt)] = 1
                    stack.append((nxt, iter(self._children(nxt))))
        return False

    @staticmethod
    def _children(node):
        out = []
        for _, c in node["uses"]:
            out += [x for x in (c if isinstance(c, list) else [c]) if x is not None]
        return out

    # ---- derived facts
    def holders(self):
        """id -> number of (holder, slot position) pairs that hold the object"""
        cnt = {}
        for n in self.nodes:
            for _, c in n["uses"]:
                for x in c if isinstance(c, list) else [c]:
                    if x is not None and x["id"] is not None and self.reg.get(x["id"]) is x:
                        cnt[x["id"]] = cnt.get(x["id"], 0) + 1
        return cnt


class _Malformed(Exception):
    pass


def _like(c, fill):
    """tensor of the shape of c's value (None when c is unusable because of a fault below it)"""
    try:
        return np.full(np.shape(value(c)["tensor"]), fill)
    except Exception:  # noqa
        return None


# --------------------------------------------------------------------------- values (numpy)
def _use(node, slot):
    for k, c in node["uses"]:
        if k == slot:
            return c
    return None


def _t(node):
    return value(node)["tensor"]


def _pyslice(s):
    parts = [int(x) if x != "" else None for x in s.split(":")]
    return slice(*parts)


def _cat(nodes):
    return np.concatenate([np.atleast_1d(_t(c)) for c in nodes])


def _x(node):
    x = _use(node, "x")
    return _cat(x) if isinstance(x, list) else _t(x)


def _logpdf(d, x, p):
    if d.endswith("Normal") and not d.endswith("LogNormal"):
        z = (x - p["loc"]) / p["scale"]
        return -0.5 * z * z - np.log(p["scale"]) - 0.5 * math.log(2 * math.pi)
    if d.endswith("LogNormal"):
        z = (np.log(x) - p["loc"]) / p["scale"]
        return -0.5 * z * z - np.log(p["scale"]) - 0.5 * math.log(2 * math.pi) - np.log(x)
    if d.endswith("Gamma"):
        a, b = p["concentration"], p["rate"]
        return a * np.log(b) + (a - 1) * np.log(x) - b * x - gammaln(a)
    if d.endswith("Exponential"):
        return np.log(p["rate"]) - p["rate"] * x
    if d.endswith("Dirichlet"):
        a = p["concentration"]
        return np.sum((a - 1) * np.log(x)) + gammaln(np.sum(a)) - np.sum(gammaln(a))
    raise ValueError(d)


def _newick_lengths(newick):
    """branch lengths, by node index, of a caterpillar (((t0:a,t1:b):c,t2:d):e,...); as assigned by
    keep_branch_lengths: root branches merged, last node dropped"""
    import re

    w = [float(x) for x in re.findall(r":([0-9.eE+-]+)", newick)]
    if len(w) < 4 or len(w) % 2:
        return None
    n = (len(w) + 2) // 2
    order = [0, 1]
    for k in range(2, n):
        order += [n + k - 2, k]
    v = [0.0] * (2 * n - 2)
    for pos, idx in enumerate(order):
        v[idx] = w[pos]
    a, b = n - 1, 2 * n - 3
    v[a] = v[b] = v[a] + v[b]
    return np.asarray(v[:-1], dtype=float)


def _tree_lengths(node):
    cls = node["cls"]
    if cls == "UnRootedTreeModel":
        return np.asarray(_t(_use(node, "branch_lengths")), dtype=float)
    taxa = _use(node, "taxa")
    dates = np.array([float(t["attributes"]["date"]) for t in _use(taxa, "taxa")])
    n = len(dates)
    tip = dates if dates.min() == 0.0 else dates.max() - dates
    h = np.concatenate([tip, np.atleast_1d(_t(_use(node, "internal_heights")))])
    # caterpillar (((t0,t1),t2),...): leaves 0,1 hang on node n; leaf k>=2 on node n+k-1; node n+j on n+j+1
    parent = [n, n] + [n + k - 1 for k in range(2, n)] + [n + j + 1 for j in range(n - 2)]
    return np.array([h[parent[i]] - h[i] for i in range(2 * n - 2)])


def value(node):
    """public value of an object as a dict of named numpy arrays"""
    cls = node["cls"]
    if cls == "Parameter":
        return {"tensor": node["value"]}
    if cls == "ViewParameter":
        return {"tensor": np.asarray(_t(_use(node, "parameter")))[..., _pyslice(node["indices"])]}
    if cls == "CatParameter":
        return {"tensor": _cat(_use(node, "parameters"))}
    if cls == "TransformedParameter":
        x = _x(node)
        if node["transform"].endswith("ExpTransform"):
            return {"tensor": np.exp(x), "call": x}
        return {"tensor": 1.0 / (1.0 + np.exp(-x)), "call": -np.logaddexp(0.0, -x) - np.logaddexp(0.0, x)}
    if cls == "Distribution":
        p = {k: (_t(c) if isinstance(c, Node) else c) for k, c in node["params"].items()}
        return {"call": _logpdf(node["dist"], _x(node), p)}
    if cls == "JointDistributionModel":
        return {"call": np.sum([np.sum(value(c)["call"]) for c in _use(node, "distributions")])}
    if cls == "CTMCScale":
        x = _t(_use(node, "x"))
        total = np.sum(_tree_lengths(_use(node, "tree_model")))
        return {"call": 0.5 * np.log(total) - math.lgamma(0.5) - 0.5 * np.log(x) - x * total}
    if cls in ("ConstantSiteModel", "InvariantSiteModel", "WeibullSiteModel"):
        from vt.oracle import sitecat

        mu = _use(node, "mu")
        mu = None if mu is None else float(np.ravel(_t(mu))[0])
        pinv = _use(node, "invariant")
        pinv = None if pinv is None else float(np.ravel(_t(pinv))[0])
        if cls == "ConstantSiteModel":
            r, p = sitecat.categories("constant", mu=mu)
        elif cls == "InvariantSiteModel":
            r, p = sitecat.categories("invariant", pinv=pinv, mu=mu)
        else:
            shape = float(np.ravel(_t(_use(node, "shape")))[0])
            r, p = sitecat.categories("weibull", node["K"], shape, pinv, mu)
        o = np.lexsort((p, r))
        return {"rates~": r[o], "probs~": p[o]}
    if cls == "JC69":
        q = np.full((4, 4), 1.0 / 3)
        np.fill_diagonal(q, -1.0)
        return {"q": q, "freq": np.full(4, 0.25)}
    if cls in ("HKY", "GTR"):
        pi = np.asarray(_t(_use(node, "frequencies")), dtype=float)
        if cls == "HKY":
            k = float(np.ravel(_t(_use(node, "kappa")))[0])
            r = [1.0, k, 1.0, 1.0, k, 1.0]
        else:
            r = list(np.asarray(_t(_use(node, "rates")), dtype=float))
        q = np.zeros((4, 4))
        idx = 0
        for i in range(4):
            for j in range(i + 1, 4):
                q[i, j] = r[idx] * pi[j]
                q[j, i] = r[idx] * pi[i]
                idx += 1
        np.fill_diagonal(q, -q.sum(1))
        return {"q": q, "freq": pi}
    if cls == "Taxon":
        return {"attributes": dict(node["attributes"])}
    if cls == "Taxa":
        return {"names": [c["id"] for c in _use(node, "taxa")]}
    if cls in ("UnRootedTreeModel", "TimeTreeModel", "FlexibleTimeTreeModel"):
        return {"blens": _tree_lengths(node)}
    if cls == "StrictClockModel":
        tree = _use(node, "tree_model")
        n = len(_use(_use(tree, "taxa"), "taxa"))
        return {"rates": np.broadcast_to(np.asarray(_t(_use(node, "rate")), dtype=float), (2 * n - 2,))}
    if cls == "SimpleClockModel":
        return {"rates": np.asarray(_t(_use(node, "rate")), dtype=float)}
    if cls == "Logger":
        return {}
    raise ValueError(cls)


def logger_file(node):
    """what a Logger writes when it is run once (header, then one row: 0.0 and the current values)"""
    import csv
    import io

    buf = io.StringIO()
    w = csv.writer(buf)
    head, row = ["sample"], [0.0]
    for c in _use(node, "parameters"):
        t = np.atleast_1d(np.asarray(_t(c), dtype=float))
        head += ["%s.%d" % (c["id"], i) for i in range(t.shape[-1])]
        row += [float(x) for x in t]
    w.writerow(head)
    w.writerow(row)
    return buf.getvalue()
