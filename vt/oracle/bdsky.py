"""Birth-death-sampling skyline density by numerical integration of the master equations
along the tree (numpy / scipy only), plus the constant-rate closed form (Stadler 2010).

Conventions (DESIGN A.6, fixed by calibration against the BEAST2 literals in the repository's
tests; `selftest` re-checks them): forward time runs from the origin (0) to the present (x0);
epoch i uses (lambda_i, mu_i, psi_i) on forward time [T_i, T_{i+1}), T_0 = 0, T_m = x0, so index
0 is the oldest epoch; rho_i acts at T_{i+1}.  In height h = x0 - forward time:
  p0(0) = 1 - rho_{m-1};  dp0/dh = mu - (lambda+mu+psi) p0 + lambda p0^2;
  crossing T_i going back: p0 <- p0 (1 - rho_{i-1}).
Along an edge d log g / dh = -(lambda+mu+psi) + 2 lambda p0; crossing a boundary adds
log(1 - rho_{i-1}).  Tip on a boundary with rho > 0: g = rho.  Other tips: g = psi (r + (1-r) p0).
Internal node: g = lambda(epoch of the node's own time) g_left g_right.  Density = g at the
origin, divided by 1 - p0(x0) when conditioning on survival; (n-1) log 2 is added iff a removal
probability is configured (labelled vs oriented trees)."""
import math

import numpy as np
from scipy.integrate import solve_ivp

RT, AT = 1e-12, 1e-14


def density(tip_heights, parent, heights, lam, mu, psi, rho, T, survival=True, r=None, tol=1e-9):
    """T = [0, T_1, .., T_m = x0] forward boundaries; parent: child -> parent; heights: node -> height"""
    m = len(lam)
    T = np.asarray(T, dtype=float)
    x0 = float(T[-1])
    bh = x0 - T  # boundary heights, decreasing; bh[m] = 0
    n = len(tip_heights)

    # ---- p0 on each epoch as dense solutions, integrating from the present backwards
    sols = {}
    p0 = 1.0 - rho[m - 1]
    for i in range(m - 1, -1, -1):
        lo, hi = bh[i + 1], bh[i]
        f = lambda h, y, i=i: [mu[i] - (lam[i] + mu[i] + psi[i]) * y[0] + lam[i] * y[0] ** 2]
        sol = solve_ivp(f, (lo, hi), [p0], rtol=RT, atol=AT, dense_output=True, method="DOP853")
        sols[i] = sol
        p0 = sol.y[0, -1]
        if i > 0:
            p0 = p0 * (1.0 - rho[i - 1])
    p0_origin = sols[0].y[0, -1]

    def p0_at(h, e):
        return float(sols[e].sol(h)[0])

    def epoch_older(h):
        """epoch of the lineage just above (older than) height h: boundary belongs to the older side"""
        for i in range(m - 1, -1, -1):
            if bh[i + 1] <= h < bh[i] or (i == 0 and h >= bh[1]):
                # h == bh[i+1] -> epoch i (older side) since interval is [bh[i+1], bh[i])
                return i
        return 0

    def epoch_of_node(h):
        """forward-time rule l(t) = i iff T_i <= t < T_{i+1} applied to the event's own time"""
        fwd = x0 - h
        i = int(np.searchsorted(T, fwd, side="right")) - 1
        return min(max(i, 0), m - 1)

    children = {}
    for c, p in parent.items():
        children.setdefault(p, []).append(c)
    root = [v for v in heights if v not in parent][0]

    def on_boundary(h):
        for j in range(1, m + 1):
            if abs(bh[j] - h) <= 1e-12 * max(1.0, x0):
                return j
        return None

    def edge(node):
        h = heights[node]
        if node < n:
            j = on_boundary(h)
            if j is not None and rho[j - 1] > 0:
                lg = math.log(rho[j - 1])
                e = j - 1  # the lineage above the tip lives in the older epoch
            else:
                e_tip = epoch_of_node(h)
                rr = 1.0 if r is None else r[e_tip]
                lg = math.log(psi[e_tip] * (rr + (1.0 - rr) * p0_at(h, e_tip)))
                e = epoch_older(h)
                if j is not None and e != e_tip:
                    # psi-tip exactly on a boundary without rho-sampling: the lineage above it is in the
                    # older epoch; nothing to add when crossing (rho = 0)
                    pass
        else:
            l, rt = children[node]
            e_node = epoch_of_node(h)
            lg = math.log(lam[e_node]) + edge(l) + edge(rt)
            e = epoch_older(h)
        top = heights[parent[node]] if node in parent else x0
        cur = h
        while True:
            hi = min(top, bh[e])
            if hi > cur:
                ff = lambda hh, y, e=e: [-(lam[e] + mu[e] + psi[e]) + 2.0 * lam[e] * p0_at(hh, e)]
                sol = solve_ivp(ff, (cur, hi), [0.0], rtol=RT, atol=AT, method="DOP853")
                lg += sol.y[0, -1]
                cur = hi
            if cur >= top or e == 0:
                break
            if bh[e] >= top:
                break
            lg += math.log(1.0 - rho[e - 1])
            e -= 1
        return lg

    lg = edge(root)
    if survival:
        lg -= math.log(1.0 - p0_origin)
    if r is not None:
        lg += (n - 1) * math.log(2.0)
    return lg


def constant_rate_closed_form(tip_heights, internal_heights, lam, mu, psi, rho, x0, survival=True):
    """Stadler (2010) constant-rate birth-death-sampling density of an oriented sampled tree,
    psi-sampled tips are removed with probability 1, rho-sampling at the present only"""
    c1 = math.sqrt((lam - mu - psi) ** 2 + 4.0 * lam * psi)
    c2 = -(lam - mu - 2.0 * lam * rho - psi) / c1

    def q(t):
        return 2.0 * (1.0 - c2 ** 2) + math.exp(-c1 * t) * (1.0 - c2) ** 2 + math.exp(c1 * t) * (1.0 + c2) ** 2

    def p0(t):
        e = math.exp(-c1 * t) * (1.0 - c2)
        return (lam + mu + psi + c1 * (e - (1.0 + c2)) / (e + (1.0 + c2))) / (2.0 * lam)

    lp = math.log(4.0 / q(x0))  # lineage from the origin; constant 4 per q: q as in Stadler (2010) eq. 2
    n_present = sum(1 for h in tip_heights if h == 0.0)
    for h in internal_heights:
        lp += math.log(lam) + math.log(4.0 / q(h))
    for h in tip_heights:
        if h == 0.0 and rho > 0:
            lp += math.log(rho)
        else:
            lp += math.log(psi) - math.log(4.0 / q(h))
    if rho == 0:
        pass
    if survival:
        lp -= math.log(1.0 - p0(x0))
    return lp
