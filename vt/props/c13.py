"""C13 - in a model specification every id denotes exactly one shared object."""
import copy
import json
import logging
import os

import numpy as np
import torch
from hypothesis import strategies as st

from vt import tt
from vt.cmp import arr
from vt.gen import idspec
from vt.gen.basic import fl, logu, simplex
from vt.oracle import idlang
from vt.runner import Res, Sub, guarded, impl_frame, jdump

PROPERTY = "C13"
LEVEL = "exploration"
RULE = (
    "sub-check 'spec': a grammar (vt/gen/idspec.py) generates programs = top-level lists of 2..6 elements over a zoo of "
    "20 registered classes (Parameter incl. *_like, View/Cat/TransformedParameter, Distribution over Normal/LogNormal/Gamma/"
    "Exponential/Dirichlet, JointDistributionModel, CTMCScale, 3 site models, JC69/HKY/GTR, Taxon, Taxa, UnRooted/Time/FlexibleTimeTreeModel, "
    "Strict/SimpleClockModel); every typed slot is filled by an inline definition or by the id of an object completed earlier "
    "(earlier top-level element, earlier element of a list at any depth); top-level sub-lists, top-level string elements and "
    "plates (range a:b[:2], var or trailing '*') in every list slot; then with probability 1/2 one injected fault (same id "
    "twice: siblings in a list / nested in its own definition / distant branches / across top-level elements / clones of a "
    "plate; reference to nothing / to a later definition / to the enclosing object; missing id; missing type; unknown type; "
    "a number where an object is expected; a plate outside a list) and with probability 0.45 one to four decorations "
    "(underscore keys in any dict, ignored objects inserted in any list or as a dict value, carrying live ids, dangling "
    "references, unknown types). The verdict (well-formed or the list of faults with kind and nesting relation) is computed "
    "from the specification by an independent interpreter (vt/oracle/idlang.py). non-trivial = some id has >= 2 holders or "
    "the specification has a fault; distinct = the specification with numbers blanked. sub-check 'factory': arguments for "
    "each of the 12 json_factory helpers; non-trivial = always (each case compares a loaded and a directly constructed "
    "object); distinct = helper + variant + rounded arguments."
)
ASSUMPTIONS = [
    "a reference is only generated where the lowest common ancestor of definition and reference is a list (list order is "
    "the only order the language defines; the order in which one from_json reads its keys is not asserted); specifications "
    "whose verdict would depend on key order are skipped and counted (label order_dependent)",
    "ids and references never contain '{' (undocumented range-reference syntax 'stem.{a:b}'), ids never end in '*' outside "
    "plates; plates are generated in the form of the repository's example (non-empty range, not nested in another plate's "
    "object, references inside the plate object do not use the plate variable)",
    "ill-formed => torchtree.core.utils.JSONParseError: asserted for duplicate ids and unresolved references (the property "
    "statement) and for the faults process_object documents with the same error (missing id/type, unknown type, non-object, "
    "plate outside a list); a type that names an existing non-torchtree class is not generated",
    "values are compared with a numpy re-implementation at 1e-9 relative; site-model categories as a multiset",
    "the zoo avoids classes with known stale-cache defects (C11) and Distribution(x=list) with literal parameters "
    "(x.dtype on a Python list: AttributeError, not a property of the id language)",
    "json_factory: 'directly constructed' = the class constructor called with the objects the factory arguments describe; "
    "DeterministicNormal draws its variates at construction, only log_prob (deterministic) is compared",
]

TOL = 1e-9


# --------------------------------------------------------------------------- loading as torchtree.main does
def load(spec):
    """remove_comments, expand_plates, process_objects per top-level element (DESIGN A.9);
    returns (registry, None) or (partial registry, exception that passed through torchtree)"""
    tt.load_all()
    from torchtree.core.utils import expand_plates, process_objects, remove_comments

    logging.disable(logging.CRITICAL)  # torchtree logs every parse error; the check prints only its own lines
    data = copy.deepcopy(spec)
    dic = {}

    def run():
        remove_comments(data)
        expand_plates(data)
        for element in data:
            process_objects(element, dic)

    _, exc = guarded(run)
    return dic, exc


def observe(obj):
    """the public value of a loaded object, under the names the reference interpreter uses"""
    from torchtree.core.abstractparameter import AbstractParameter

    n = type(obj).__name__
    out = {}
    if isinstance(obj, AbstractParameter):
        out["tensor"] = arr(obj.tensor)
        if n == "TransformedParameter":
            out["call"] = arr(obj())
    elif n in ("Distribution", "JointDistributionModel", "CTMCScale"):
        out["call"] = arr(obj())
    elif n.endswith("SiteModel"):
        r, p = arr(obj.rates()).ravel(), arr(obj.probabilities()).ravel()
        if r.shape == p.shape:
            o = np.lexsort((p, r))
            r, p = r[o], p[o]
        out["rates~"], out["probs~"] = r, p
    elif n in ("JC69", "HKY", "GTR"):
        out["q"] = arr(obj.q())
        out["freq"] = arr(obj.frequencies)
    elif n == "Taxon":
        out["attributes"] = dict(obj.data)
    elif n == "Taxa":
        out["names"] = [t.id for t in obj]
    elif n.endswith("TreeModel"):
        out["blens"] = arr(obj.branch_lengths())
    elif n.endswith("ClockModel"):
        out["rates"] = arr(obj.rates)
    return out


def observe_all(dic):
    def run():
        return {k: observe(v) for k, v in dic.items()}

    return guarded(run)


def _same(a, b, tol):
    if isinstance(a, (dict, list)) or isinstance(b, (dict, list)):
        return a == b
    a, b = np.asarray(a, dtype=float), np.asarray(b, dtype=float)
    if a.size != b.size:
        return False
    a, b = a.ravel(), b.ravel()
    if tol == 0.0:
        return bool(np.array_equal(a, b))
    fa, fb = np.isfinite(a), np.isfinite(b)
    if not np.array_equal(fa, fb):
        return False
    if not fa.all():  # overflow (exp of exp ...) must at least be the same overflow
        if not np.array_equal(a[~fa], b[~fa], equal_nan=True):
            return False
        a, b = a[fa], b[fa]
    return bool(np.all(np.abs(a - b) <= tol * np.maximum(1.0, np.abs(b))))


def compare(got, want, tol):
    """first difference between two {id: {name: value}} tables, or None"""
    if set(got) != set(want):
        return {"ids_only_loaded": sorted(map(str, set(got) - set(want)))[:5], "ids_only_expected": sorted(map(str, set(want) - set(got)))[:5]}
    for k in want:
        if set(got[k]) != set(want[k]):
            return {"id": k, "outputs_loaded": sorted(got[k]), "outputs_expected": sorted(want[k])}
        for name in want[k]:
            # site-model categories span many orders of magnitude for small shapes (see C05)
            if not _same(got[k][name], want[k][name], tol * 100 if (tol and name.endswith("~")) else tol):
                return {"id": k, "output": name, "loaded": got[k][name], "expected": want[k][name]}
    return None


# how a loaded holder exposes the object in one of its slots (None: it does not)
def _params(cat):
    return list(cat._parameter_container.params())


ACCESS = {
    ("ViewParameter", "parameter"): lambda o: o.parameter,
    ("CatParameter", "parameters"): _params,
    ("TransformedParameter", "x"): lambda o: o.x,
    ("Distribution", "x"): lambda o: o.x,
    ("JointDistributionModel", "distributions"): lambda o: list(o._distributions._models.values()) + list(o._distributions._parameters.values()),
    ("CTMCScale", "x"): lambda o: o.x,
    ("CTMCScale", "tree_model"): lambda o: o.tree_model,
    ("ConstantSiteModel", "mu"): lambda o: o._mu,
    ("InvariantSiteModel", "mu"): lambda o: o._mu,
    ("InvariantSiteModel", "invariant"): lambda o: o._invariant,
    ("WeibullSiteModel", "mu"): lambda o: o._mu,
    ("WeibullSiteModel", "invariant"): lambda o: o._invariant,
    ("WeibullSiteModel", "shape"): lambda o: o._parameter,
    ("HKY", "kappa"): lambda o: o._kappa,
    ("HKY", "frequencies"): lambda o: o._frequencies,
    ("GTR", "rates"): lambda o: o._rates,
    ("GTR", "frequencies"): lambda o: o._frequencies,
    ("Taxa", "taxa"): lambda o: list(o.data),
    ("UnRootedTreeModel", "taxa"): lambda o: o._taxa,
    ("UnRootedTreeModel", "branch_lengths"): lambda o: o._branch_lengths,
    ("TimeTreeModel", "taxa"): lambda o: o._taxa,
    ("TimeTreeModel", "internal_heights"): lambda o: o._internal_heights,
    ("FlexibleTimeTreeModel", "taxa"): lambda o: o._taxa,
    ("FlexibleTimeTreeModel", "internal_heights"): lambda o: o._internal_heights,
    ("StrictClockModel", "tree_model"): lambda o: o.tree,
    ("StrictClockModel", "rate"): lambda o: o._rates,
    ("SimpleClockModel", "tree_model"): lambda o: o.tree,
    ("SimpleClockModel", "rate"): lambda o: o._rates,
    ("Logger", "parameters"): lambda o: list(o.objs),
}


def exposed(holder_obj, cls, slot, child):
    """the loaded object(s) the holder keeps in the slot, as a list aligned with the reference
    children; None when the holder does not expose them"""
    if slot.startswith("parameters.") and cls == "Distribution":
        fn = lambda o: o.dict_parameters[slot.split(".", 1)[1]]  # noqa
    else:
        fn = ACCESS.get((cls, slot))
    if fn is None:
        return None
    try:
        got = fn(holder_obj)
    except Exception:  # noqa  (private layout changed: identity is then not observable)
        return None
    if isinstance(child, list) and not isinstance(got, list):
        # x given as a list is wrapped in an anonymous CatParameter
        try:
            got = _params(got)
        except Exception:  # noqa
            return None
    return got if isinstance(got, list) else [got]


# --------------------------------------------------------------------------- the body
def skeleton(o):
    if isinstance(o, dict):
        return {k: skeleton(v) for k, v in o.items()}
    if isinstance(o, list):
        if o and all(isinstance(e, (int, float)) and not isinstance(e, bool) for e in o):
            return len(o)
        return [skeleton(e) for e in o]
    if isinstance(o, float):
        return 0
    return o


def interp_of(case):
    return idlang.Interp(case["spec"])


def pretags(case):
    it = interp_of(case)
    t = it.fault_tags()
    t["bucket"] = t["fault"] + "/" + t["relation"]
    return t


def _exc_info(exc):
    return {"type": type(exc).__name__, "message": str(exc)[:300], "where": impl_frame(exc)}


def body(case):
    from torchtree.core.utils import JSONParseError

    spec = case["spec"]
    it = interp_of(case)
    tags = it.fault_tags()
    tags["bucket"] = tags["fault"] + "/" + tags["relation"]
    holders = it.holders()
    shared = [k for k, v in holders.items() if v >= 2]
    labels = ["intent:" + case.get("intent", "none")]
    if it.decorated:
        labels.append("decorated")
    if it.plates:
        labels.append("plates")
    res = Res(nontrivial=bool(shared) or bool(it.faults), key=skeleton(spec), tags=tags)

    def fin():
        res.labels = tuple(labels)
        return res

    if it.malformed is not None or it.order_dependent:
        labels.append("skipped:" + ("order_dependent" if it.order_dependent else "outside_subset"))
        res.nontrivial = False
        return fin()

    dic, exc = load(spec)

    # ---------------- ill-formed: must be rejected with the parse error
    if it.faults:
        labels.append("illformed")
        for k, r in sorted(set(it.faults)):
            labels.append("fault:%s/%s" % (k, r))
        if exc is None:
            res.fail("accepted", {"faults": sorted(set(it.faults)), "registry": sorted(map(str, dic))[:20], "spec": spec})
        elif isinstance(exc, JSONParseError):
            labels.append("raised")
        else:
            res.fail("wrong_exception:" + type(exc).__name__, dict(_exc_info(exc), faults=sorted(set(it.faults)), spec=spec))
        return fin()

    # ---------------- well-formed: loads, registry = the ids of the language, values agree
    labels.append("wellformed")
    labels.append("shared>=2" if shared else "no_sharing")
    labels.append("ids:%s" % ("1-4" if len(it.reg) <= 4 else "5-9" if len(it.reg) <= 9 else "10+"))
    if exc is not None:
        res.fail("rejected:" + type(exc).__name__, dict(_exc_info(exc), spec=spec))
        return fin()
    want = {k: idlang.value(n) for k, n in it.reg.items()}
    got, exc = observe_all(dic)
    if exc is not None:
        res.fail("evaluation_raises:" + type(exc).__name__, dict(_exc_info(exc), spec=spec))
        return fin()
    diff = compare(got, want, TOL)
    if diff is not None:
        res.fail("registry" if "ids_only_loaded" in diff else "value", dict(diff, spec=spec))
        return fin()

    # ---------------- identity: every holder keeps the registered instance
    routes = {}  # id -> list of loaded objects reached through holders
    n_edges = 0
    for node in it.nodes:
        if node["id"] is None or it.reg.get(node["id"]) is not node:
            continue
        for slot, child in node["uses"]:
            held = exposed(dic[node["id"]], node["cls"], slot, child)
            kids = child if isinstance(child, list) else [child]
            if held is None:
                labels.append("identity_not_exposed")
                continue
            if len(held) != len(kids):
                res.fail("identity", {"holder": node["id"], "slot": slot, "held": len(held), "expected": len(kids), "spec": spec})
                return fin()
            if node["cls"] == "JointDistributionModel":  # container order: models first, then parameters
                ok = sorted(id(h) for h in held) == sorted(id(dic[k["id"]]) for k in kids)
                pairs = [] if ok else [(held[0], kids[0])]
                if ok:
                    n_edges += len(kids)
                    for k in kids:
                        routes.setdefault(k["id"], []).append(dic[k["id"]])
            else:
                pairs = list(zip(held, kids))
            for h, k in pairs:
                n_edges += 1
                if h is not dic[k["id"]]:
                    res.fail("identity", {"holder": node["id"], "slot": slot, "child": k["id"], "held": repr(h)[:200], "spec": spec})
                    return fin()
                routes.setdefault(k["id"], []).append(h)
    if n_edges:
        labels.append("identity_checked")

    # ---------------- behaviour: update through one holder, observe through every object
    n_upd = 0
    for i, (uid, vals) in enumerate(sorted(case.get("updates", {}).items())):
        node = it.reg.get(uid)
        if node is None or not node.get("updatable") or np.shape(node["value"]) != np.shape(vals):
            continue
        rs = routes.get(uid, [])
        route = case.get("route", 0) + i
        r = 0 if (route % 2 == 0 or not rs) else 1 + (route // 2) % len(rs)
        target = dic[uid] if r == 0 else rs[r - 1]
        labels.append("update_via_registry" if r == 0 else "update_via_holder")

        def run(target=target, vals=vals):
            target.tensor = torch.tensor(vals, dtype=torch.get_default_dtype())

        _, exc = guarded(run)
        if exc is not None:
            res.fail("update_raises:" + type(exc).__name__, dict(_exc_info(exc), id=uid, spec=spec))
            return fin()
        node["value"] = np.asarray(vals, dtype=float)
        want = {k: idlang.value(n) for k, n in it.reg.items()}
        got, exc = observe_all(dic)
        if exc is not None:
            res.fail("evaluation_raises:" + type(exc).__name__, dict(_exc_info(exc), after_update=uid, spec=spec))
            return fin()
        diff = compare(got, want, TOL)
        if diff is not None:
            res.fail("update_not_observed", dict(diff, updated=uid, route=r, holders=holders.get(uid, 0), spec=spec))
            return fin()
        n_upd += 1
        if holders.get(uid, 0) >= 2:
            labels.append("updated_shared")
    if n_upd:
        labels.append("updated")

    # ---------------- decorations have no effect: same registry, same values as without them
    if it.decorated:
        dic2, exc = load(it.stripped)
        if exc is not None:
            res.fail("undecorated_rejected:" + type(exc).__name__, dict(_exc_info(exc), spec=spec))
            return fin()
        dic1, exc = load(spec)  # fresh: the first registry has been updated
        got1, e1 = observe_all(dic1)
        got2, e2 = observe_all(dic2)
        if e1 is not None or e2 is not None:
            res.fail("evaluation_raises:" + type(e1 or e2).__name__, dict(_exc_info(e1 or e2), spec=spec))
            return fin()
        if list(dic1) != list(dic2):
            res.fail("decoration_changes_registry", {"with": list(map(str, dic1))[:20], "without": list(map(str, dic2))[:20], "spec": spec})
            return fin()
        diff = compare(got1, got2, 0.0)
        if diff is not None:
            res.fail("decoration_changes_value", dict(diff, spec=spec))
            return fin()
        labels.append("decoration_checked")
    return fin()


# --------------------------------------------------------------------------- through the real entry point
def run_main(spec):
    """torchtree.torchtree.main() in-process on the specification written to a private directory
    (cwd switched, argv patched, everything removed afterwards). Returns a dict with the registry
    main threaded through process_objects, the exception process_objects raised, the exception
    that escaped main, and the files the run left behind."""
    import shutil
    import sys
    import tempfile

    tt.load_all()
    import torchtree.torchtree as entry

    logging.disable(logging.CRITICAL)
    out = {"dic": {}, "inner": None, "escaped": None, "files": {}, "calls": 0}
    real = entry.process_objects

    def spy(data, dic, *a, **k):
        out["dic"] = dic
        out["calls"] += 1
        try:
            return real(data, dic, *a, **k)
        except Exception as e:  # noqa
            out["inner"] = e
            raise

    work = tempfile.mkdtemp(prefix="c13main-")
    cwd, argv = os.getcwd(), sys.argv
    try:
        with open(os.path.join(work, "spec.json"), "w") as f:
            json.dump(spec, f)
        os.chdir(work)
        sys.argv = ["torchtree", "spec.json"]
        entry.process_objects = spy
        try:
            entry.main()
        except SystemExit as e:
            out["escaped"] = e
        except Exception as e:  # noqa
            if impl_frame(e) is None:
                raise
            out["escaped"] = e
        for fn in sorted(os.listdir(work)):
            if fn != "spec.json":
                with open(os.path.join(work, fn), newline="") as f:
                    out["files"][fn] = f.read()
    finally:
        entry.process_objects = real
        sys.argv = argv
        os.chdir(cwd)
        torch.set_default_dtype(torch.float64)
        shutil.rmtree(work, ignore_errors=True)
    return out


def body_main(case):
    from torchtree.core.utils import JSONParseError

    spec = case["spec"]
    it = interp_of(case)
    tags = it.fault_tags()
    tags["bucket"] = tags["fault"] + "/" + tags["relation"]
    loggers = [n for n in it.nodes if n["cls"] == "Logger" and n["id"] is not None and it.reg.get(n["id"]) is n and len(n["path"]) == 1]
    res = Res(nontrivial=it.decorated or it.plates or bool(it.faults), key=skeleton(spec), tags=tags)
    labels = ["decorated" if it.decorated else "plain"]
    if it.plates:
        labels.append("plates")
    if any(idlang._ignored(e) and idlang.is_plate(e) for e in _walk_dicts(spec)):
        labels.append("ignored_plate")
    if any(idlang._ignored(e) and e.get("type") == "Logger" for e in _walk_dicts(spec)):
        labels.append("ignored_runnable")

    def fin():
        res.labels = tuple(labels)
        return res

    if it.malformed is not None or it.order_dependent:
        labels.append("skipped")
        res.nontrivial = False
        return fin()
    r = run_main(spec)
    dic, esc = r["dic"], r["escaped"]
    ghosts = [f for f in r["files"] if f.startswith("ghost")]
    if ghosts:
        res.fail("ignored_runnable_ran", {"files": {f: r["files"][f] for f in ghosts}, "spec": spec})
        return fin()

    if it.faults:
        labels.append("illformed")
        top = it.fault_top
        err = esc if esc is not None else r["inner"]
        if err is None:
            res.fail("accepted", {"faults": sorted(set(it.faults)), "registry": sorted(map(str, dic))[:20], "spec": spec})
            return fin()
        if not isinstance(err, JSONParseError):
            res.fail("wrong_exception:" + type(err).__name__, dict(_exc_info(err), faults=sorted(set(it.faults)), spec=spec))
            return fin()
        labels.append("raised")
        labels.append("reported_by_main" if esc is None else "escaped_main")
        # everything before the faulty top-level element exists, nothing after it was constructed or run
        before = {k for k, n in it.reg.items() if n["path"][0] < top}
        after = {k for k, p in it.defined.items() if p[0] > top}
        if not before <= set(dic) or (after & set(dic)):
            res.fail("construction_continued", {"fault_at_element": top, "missing": sorted(map(str, before - set(dic)))[:10],
                                                "constructed_after": sorted(map(str, after & set(dic)))[:10], "spec": spec})
            return fin()
        want_files = {n["file_name"] for n in loggers if n["path"][0] < top}
        maybe = {n["file_name"] for n in loggers if n["path"][0] == top}
        if not (want_files <= set(r["files"]) <= want_files | maybe):
            res.fail("runnables_after_error", {"files": sorted(r["files"]), "expected": sorted(want_files), "spec": spec})
        return fin()

    labels.append("wellformed")
    if esc is not None or r["inner"] is not None:
        e = esc or r["inner"]
        res.fail("rejected:" + type(e).__name__, dict(_exc_info(e), spec=spec))
        return fin()
    if list(dic) != list(it.reg):
        res.fail("registry", {"loaded": list(map(str, dic))[:30], "expected": list(map(str, it.reg))[:30], "spec": spec})
        return fin()
    want = {k: idlang.value(n) for k, n in it.reg.items()}
    got, exc = observe_all(dic)
    if exc is not None:
        res.fail("evaluation_raises:" + type(exc).__name__, dict(_exc_info(exc), spec=spec))
        return fin()
    diff = compare(got, want, TOL)
    if diff is not None:
        res.fail("value", dict(diff, spec=spec))
        return fin()
    want_files = {n["file_name"]: n["content"] for n in loggers}
    if want_files:
        labels.append("runnables")
    if r["files"] != want_files:
        res.fail("runnable_output", {"files": r["files"], "expected": want_files, "spec": spec})
    return fin()


def _walk_dicts(o):
    if isinstance(o, dict):
        yield o
        for v in o.values():
            yield from _walk_dicts(v)
    elif isinstance(o, list):
        for v in o:
            yield from _walk_dicts(v)


# --------------------------------------------------------------------------- selftest (oracle calibration)
def selftest():
    tt.load_all()
    from torchtree.core.utils import get_class

    for name, cls in idlang.TYPE_NAMES.items():
        k = get_class(name)
        if k.__name__ != cls:
            raise AssertionError("type name %s resolves to %s" % (name, k))
    P = lambda i, t: {"id": i, "type": "Parameter", "tensor": t}  # noqa
    ok = [P("a", [1.0]), {"id": "v", "type": "ViewParameter", "parameter": "a", "indices": ":"}]
    probes = [
        (ok, []),
        ([P("a", [1.0]), P("a", [2.0])], [("duplicate", "toplevel")]),
        ([{"id": "v", "type": "ViewParameter", "parameter": P("v", [1.0]), "indices": ":"}], [("duplicate", "ancestor")]),
        ([{"id": "c", "type": "CatParameter", "parameters": [P("a", [1.0]), P("a", [1.0])]}], [("duplicate", "sibling")]),
        ([{"id": "c", "type": "CatParameter", "parameters": [P("a", [1.0]), {"id": "v", "type": "ViewParameter", "parameter": P("a", [1.0]), "indices": ":"}]}], [("duplicate", "distant")]),
        ([{"id": "v", "type": "ViewParameter", "parameter": "a", "indices": ":"}, P("a", [1.0])], [("dangling", "forward")]),
        ([{"id": "v", "type": "ViewParameter", "parameter": "v", "indices": ":"}], [("dangling", "enclosing")]),
        ([{"id": "v", "type": "ViewParameter", "parameter": "zz", "indices": ":"}], [("dangling", "nothing")]),
        ([{"type": "Parameter", "tensor": [1.0]}], [("missing_id", "-")]),
        ([{"id": "a", "tensor": [1.0]}], [("missing_type", "-")]),
        ([{"id": "a", "type": "Nope"}], [("unknown_type", "-")]),
        ([3], [("not_object", "-")]),
        ([dict(P("a", [1.0]), _c=1), {"ignore": True, "id": "a"}], []),
        ([{"type": "torchtree.Plate", "range": "1:3", "var": "i", "object": P("p.${i}", [1.0])}, "p.2"], []),
    ]
    for spec, faults in probes:
        it = idlang.Interp(spec)
        if sorted(it.faults) != sorted(faults) or it.malformed:
            raise AssertionError("reference interpreter: %s -> %s (%s), expected %s" % (jdump(spec), it.faults, it.malformed, faults))
    it = idlang.Interp(probes[-1][0])
    if sorted(it.reg) != ["p.1", "p.2"]:
        raise AssertionError("plate ids %s" % sorted(it.reg))


# --------------------------------------------------------------------------- sub-checks
def subchecks(tier):
    from vt.props import c13factory

    subs = [
        Sub("spec", body, strategy=idspec.cases, quick=2400, thorough=45000, pretags=pretags, raising_is_failure=False, shrink_s=40),
        Sub("main", body_main, strategy=idspec.cases_main, quick=1000, thorough=16000, pretags=pretags, raising_is_failure=False, shrink_s=40),
        Sub("factory", c13factory.body, strategy=c13factory.cases, quick=600, thorough=6000, pretags=c13factory.pretags),
    ]
    if tier == "thorough":
        from vt.props import c13fuzz

        subs.append(c13fuzz.sub())
    return subs
