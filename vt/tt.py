"""Helpers for driving torchtree through its public routes (JSON specification, call)."""
import copy
import importlib

import torch

_loaded = False


def load_all():
    """import every torchtree module exactly as torchtree.torchtree.main does, so that all
    classes are registered; float64 is set before the first import (see DESIGN 2.1)"""
    global _loaded
    if _loaded:
        return
    torch.set_default_dtype(torch.float64)
    from torchtree.core.utils import package_contents

    for m in sorted(package_contents("torchtree")):
        try:
            importlib.import_module(m)
        except Exception:  # optional plug-ins
            pass
    _loaded = True


def P(id_, values, **kw):
    d = {"id": id_, "type": "Parameter", "tensor": values}
    d.update(kw)
    return d


def build(spec, dic=None):
    """what torchtree.main does with one top-level element: remove comments, expand
    plates, process_objects"""
    load_all()
    from torchtree.core.utils import expand_plates, process_objects, remove_comments

    spec = copy.deepcopy(spec)
    if dic is None:
        dic = {}
    remove_comments(spec)
    expand_plates(spec)
    obj = process_objects(spec, dic)
    return obj, dic


def T(x, dtype=None):
    return torch.tensor(x, dtype=dtype or torch.get_default_dtype())
