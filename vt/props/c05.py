"""C05 - among-site rate models keep the mean substitution rate at one."""
import itertools

import numpy as np
import torch
from hypothesis import strategies as st

from vt import tt
from vt.cmp import arr
from vt.gen.basic import fl, logu, sample_shapes
from vt.oracle import sitecat
from vt.runner import Res, Sub

PROPERTY = "C05"
LEVEL = "exploration"
RULE = (
    "Hypothesis draws (class in constant/invariant/Weibull, shape log-uniform 1e-2..1e2, invariant "
    "proportion in [0,0.95] incl. exactly 0, K in 1..16, relative rate absent/present, sample shape "
    "[], [S], [S,K] with all parameters batched alike); the model is built from its JSON "
    "specification; non-trivial = more than one category (K>1 or invariant class) and shape != 1; "
    "distinct = (class, K, has invariant, has mu, sample shape, rounded parameters). The sub-check "
    "'grid' enumerates K=1..16 x {invariant on/off} x {mu on/off} x 9 shapes completely."
)
ASSUMPTIONS = [
    "parameters with different sample shapes inside one site model are C10's subject, not generated here",
    "tolerance 1e-12 relative (1e-9 when shape < 0.05, where category rates span > 200 orders of magnitude)",
    "the order of categories is not asserted (compared as a multiset of (rate, probability) pairs)",
]


def _vals(draw, strat, shape):
    n = int(np.prod(shape)) if shape else 1
    v = [draw(strat) for _ in range(n)]
    return v


# proportions of invariant sites: none, ordinary, and admissible but extreme (1 - 1e-12 .. 1 - 5e-2)
PINV = st.one_of(st.just(0.0), fl(0.0, 0.95), fl(0.0, 0.95), logu(1e-12, 5e-2).map(lambda e: 1.0 - e))


@st.composite
def cases(draw):
    kind = draw(st.sampled_from(["constant", "invariant", "weibull", "weibull", "weibull"]))
    ss = draw(sample_shapes())
    n = int(np.prod(ss)) if ss else 1
    c = {"kind": kind, "ss": ss}
    if kind == "weibull":
        c["K"] = draw(st.integers(1, 16))
        c["shape"] = [draw(logu(1e-2, 1e2)) for _ in range(n)]
        if draw(st.booleans()):
            c["pinv"] = [draw(PINV) for _ in range(n)]
    elif kind == "invariant":
        c["pinv"] = [draw(PINV) for _ in range(n)]
    if draw(st.booleans()):
        c["mu"] = [draw(logu(1e-3, 1e3)) for _ in range(n)]
    return c


def _shape(v, ss):
    return np.asarray(v, dtype=float).reshape(tuple(ss) + (1,)).tolist()


def spec_of(c):
    ss = c["ss"]
    if c["kind"] == "constant":
        s = {"id": "sm", "type": "ConstantSiteModel"}
    elif c["kind"] == "invariant":
        s = {"id": "sm", "type": "InvariantSiteModel", "invariant": tt.P("pinv", _shape(c["pinv"], ss))}
    else:
        s = {"id": "sm", "type": "WeibullSiteModel", "categories": c["K"], "shape": tt.P("shape", _shape(c["shape"], ss))}
        if "pinv" in c:
            s["invariant"] = tt.P("pinv", _shape(c["pinv"], ss))
    if "mu" in c:
        s["mu"] = tt.P("mu", _shape(c["mu"], ss))
    return s


def body(c):
    sm, _ = tt.build(spec_of(c))
    rates = arr(sm.rates())
    probs = arr(sm.probabilities())
    ss = tuple(c["ss"])
    n = int(np.prod(ss)) if ss else 1
    K = c.get("K", 1)
    ncat = {"constant": 1, "invariant": 2}.get(c["kind"], K + (1 if "pinv" in c else 0))
    multi = ncat > 1
    res = Res(
        nontrivial=multi and all(abs(s - 1.0) > 1e-6 for s in c.get("shape", [2.0])),
        key=(c["kind"], K, "pinv" in c, "mu" in c, c["ss"], [round(x, 6) for x in c.get("shape", []) + c.get("pinv", []) + c.get("mu", [])]),
        labels=(c["kind"], "K>1" if K > 1 else "K=1", "pinv" if "pinv" in c else "nopinv", "mu" if "mu" in c else "nomu", "batch%d" % len(ss)),
        tags={"cls": c["kind"]},
    )
    try:
        rates = np.broadcast_to(rates, ss + (ncat,)).reshape(n, ncat)
        probs = np.broadcast_to(probs, ss + (ncat,)).reshape(n, ncat)
    except ValueError:
        return res.fail("shape", {"rates": list(arr(sm.rates()).shape), "probs": list(arr(sm.probabilities()).shape), "expected": list(ss + (ncat,))})
    for i in range(n):
        shape = c["shape"][i] if "shape" in c else None
        pinv = c["pinv"][i] if "pinv" in c else None
        mu = c["mu"][i] if "mu" in c else None
        tol = 1e-9 if (shape is not None and shape < 0.05) else 1e-12
        r, p = rates[i], probs[i]
        d = {"slice": i, "rates": r.tolist(), "probs": p.tolist()}
        if not (np.all(np.isfinite(r)) and np.all(np.isfinite(p))):
            return res.fail("nonfinite", d)
        if np.any(p < 0) or abs(p.sum() - 1.0) > 1e-13 * ncat:
            return res.fail("probabilities", d)
        if np.any(r < 0):
            return res.fail("negative_rate", d)
        target = 1.0 if mu is None else mu
        mean = float((r * p).sum())
        if abs(mean - target) > tol * target:
            d.update(mean=mean, expected=target)
            return res.fail("mean_rate", d)
        if pinv is not None:
            # index-free: some category has rate exactly 0 and probability = pinv
            ok = any(r[k] == 0.0 and abs(p[k] - pinv) <= 1e-15 for k in range(ncat))
            if not ok:
                d.update(pinv=pinv)
                return res.fail("invariant_class", d)
        er, ep = sitecat.categories(c["kind"], K, shape, pinv, mu)
        o1 = np.lexsort((p, r))
        o2 = np.lexsort((ep, er))
        if np.max(np.abs(r[o1] - er[o2]) / np.maximum(np.abs(er[o2]), 1e-300)) > tol * 10 or np.max(np.abs(p[o1] - ep[o2])) > 1e-14:
            d.update(expected_rates=er.tolist(), expected_probs=ep.tolist())
            return res.fail("oracle", d)
    return res


def check_slice(res, c, sm, i_vals, tag):
    """all clauses of the property on the current outputs of one (unbatched) model"""
    rates = arr(sm.rates()).reshape(-1) if tag != "pr" else None
    probs = arr(sm.probabilities()).reshape(-1)
    if rates is None:
        rates = arr(sm.rates()).reshape(-1)
    shape, pinv, mu = i_vals
    K = c.get("K", 1)
    ncat = {"constant": 1, "invariant": 2}.get(c["kind"], K + (1 if pinv is not None else 0))
    tol = 1e-9 if (shape is not None and shape < 0.05) else 1e-12
    d = {"order": tag, "rates": rates.tolist(), "probs": probs.tolist(), "shape": shape, "pinv": pinv, "mu": mu}
    if rates.shape != (ncat,) or probs.shape != (ncat,):
        return res.fail("shape", d)
    er, ep = sitecat.categories(c["kind"], K, shape, pinv, mu)
    o1 = np.lexsort((probs, rates))
    o2 = np.lexsort((ep, er))
    if np.max(np.abs(rates[o1] - er[o2]) / np.maximum(np.abs(er[o2]), 1e-300)) > tol * 10 or np.max(np.abs(probs[o1] - ep[o2])) > 1e-14:
        d.update(expected_rates=er.tolist(), expected_probs=ep.tolist())
        return res.fail("stale_or_wrong_after_update", d)
    target = 1.0 if mu is None else mu
    if abs(float((rates * probs).sum()) - target) > tol * target:
        return res.fail("mean_rate_after_update", d)
    return None


@st.composite
def update_cases(draw):
    c = draw(cases())
    c["ss"] = []
    for k in ("shape", "pinv", "mu"):
        if k in c:
            c[k] = c[k][:1]
    steps = []
    for _ in range(draw(st.integers(1, 4))):
        st_ = {"order": draw(st.sampled_from(["rp", "pr", "r", "p"])), "route": draw(st.sampled_from(["assign", "inplace"]))}
        which = [k for k in ("shape", "pinv", "mu") if k in c]
        if which:
            k = draw(st.sampled_from(which))
            st_["param"] = k
            st_["value"] = draw({"shape": logu(1e-2, 1e2), "pinv": PINV, "mu": logu(1e-3, 1e3)}[k])
        steps.append(st_)
    c["steps"] = steps
    c["first"] = draw(st.sampled_from(["rp", "pr", "r", "p", "none"]))
    return c


def update_body(c):
    """one model object: evaluate, update a parameter through the public interface, evaluate again (in either
    accessor order) - every clause must hold at the CURRENT parameter values"""
    sm, dic = tt.build(spec_of(c))
    cur = {k: (c[k][0] if k in c else None) for k in ("shape", "pinv", "mu")}
    res = Res(nontrivial=bool(c["steps"]) and any("param" in s_ for s_ in c["steps"]) and c["kind"] != "constant",
              key=(c["kind"], c.get("K"), c["first"], [(s_["order"], s_.get("param"), s_["route"]) for s_ in c["steps"]], [round(x, 6) for x in c.get("shape", []) + c.get("pinv", []) + c.get("mu", [])]),
              labels=(c["kind"], "update", "first_" + c["first"]) + tuple("order_" + s_["order"] for s_ in c["steps"]), tags={"cls": c["kind"], "history": True})

    def touch(order):
        if order in ("rp", "r"):
            sm.rates()
        if order in ("rp", "pr", "p"):
            sm.probabilities()
        if order == "pr":
            sm.rates()

    if c["first"] != "none":
        touch(c["first"])
    for s_ in c["steps"]:
        if "param" in s_:
            p = dic.get(s_["param"])
            if p is None:
                # the specification supplied this parameter, the built model dropped it (seed C05-11): the
                # "supplied relative rate" clause cannot hold, and this is a verdict, not a harness error
                return res.fail("supplied_parameter_not_built", {"param": s_["param"], "registered": sorted(k for k in dic if isinstance(k, str))[:12]})
            if s_["route"] == "assign":
                p.tensor = torch.tensor([s_["value"]])
            else:
                with torch.no_grad():
                    p.tensor.fill_(s_["value"])
                p.fire_parameter_changed()
            cur[s_["param"]] = s_["value"]
        # partial observation in the given order, then the full check in the same order
        order = s_["order"]
        if order in ("r", "p"):
            touch(order)
            order = "rp" if order == "r" else "pr"
        f = check_slice(res, c, sm, (cur["shape"], cur["pinv"], cur["mu"]), order)
        if f is not None:
            return res
    return res


def grid(tier):
    out = []
    shapes = [0.01, 0.05, 0.2, 0.5, 1.0, 2.0, 7.0, 30.0, 100.0]
    for K, inv, mu, sh in itertools.product(range(1, 17), [False, True], [False, True], shapes):
        c = {"kind": "weibull", "ss": [], "K": K, "shape": [sh]}
        if inv:
            c["pinv"] = [0.3]
        if mu:
            c["mu"] = [2.5]
        out.append(c)
    return out


def subchecks(tier):
    return [
        Sub("random", body, strategy=cases, quick=3000, thorough=60000, pretags=lambda c: {"cls": c["kind"]}),
        Sub("update", update_body, strategy=update_cases, quick=1500, thorough=20000, pretags=lambda c: {"cls": c["kind"]}),
        Sub("grid", body, enumerate=grid, exhaustive=True, pretags=lambda c: {"cls": c["kind"]}),
    ]
