"""Reference leapfrog and closed-form toy targets (numpy only, no torchtree import).

The integrator is the textbook one ("half step - full steps - half step"):

    p <- p + eps/2 * grad(q)
    repeat L times:  q <- q + eps * M^-1 p ;  p <- p + eps * grad(q)   (eps/2 on the last one)

`grad` is the gradient of the log density.  `minv` is a vector (diagonal) or a matrix.
"""
import math

import numpy as np


def apply_minv(minv, p):
    minv = np.asarray(minv, dtype=float)
    if minv.ndim == 1:
        return minv * p
    return minv @ p


def kinetic(p, minv):
    p = np.asarray(p, dtype=float)
    return 0.5 * float(p @ apply_minv(minv, p))


def invert_mass(mass):
    mass = np.asarray(mass, dtype=float)
    if mass.ndim == 1:
        return 1.0 / mass
    return np.linalg.inv(mass)


def _signs(d, k):
    s = np.ones(d)
    s[(np.arange(d) + k) % 2 == 1] = -1.0
    return s


def leapfrog(q, p, eps, L, minv, grad, eta=0.0):
    """returns dict(q, p, traj=[(q_k, p_k) k=0..L], scale, finite).

    eta > 0 injects a deterministic relative perturbation of that size into every gradient
    evaluation and every position update (the round-off probe: the deviation from the
    eta = 0 run, divided by eta, predicts how strongly this trajectory amplifies rounding
    errors made along the way)."""
    q = np.array(q, dtype=float)
    p = np.array(p, dtype=float)
    d = q.size
    traj = [(q.copy(), p.copy())]
    scale = max(1.0, float(np.max(np.abs(q))), float(np.max(np.abs(p))))
    finite = True

    def G(x, k):
        g = np.asarray(grad(x), dtype=float)
        if eta:
            g = g * (1.0 + eta * _signs(d, k))
        return g

    with np.errstate(all="ignore"):
        g = G(q, 0)
        ph = p + 0.5 * eps * g
        pk = p
        for k in range(L):
            q = q + eps * apply_minv(minv, ph)
            if eta:
                q = q + eta * _signs(d, k + 1) * np.maximum(1.0, np.abs(q))
            g = G(q, k + 1)
            pk = ph + 0.5 * eps * g
            traj.append((q.copy(), pk.copy()))
            if k < L - 1:
                ph = ph + eps * g
            if not (np.all(np.isfinite(q)) and np.all(np.isfinite(pk))):
                finite = False
                break
            scale = max(scale, float(np.max(np.abs(q))), float(np.max(np.abs(pk))), float(eps * np.max(np.abs(g))))
    return {"q": q, "p": pk, "traj": traj, "scale": scale, "finite": finite}


def probe(q, p, eps, L, minv, grad, base=None, eta=1e-9):
    """round-off probe: (amplification, perturbed run). amplification = max over the trajectory of
    |perturbed - unperturbed| / (eta * scale); inf when either run is not finite."""
    if base is None:
        base = leapfrog(q, p, eps, L, minv, grad)
    if not base["finite"]:
        return float("inf"), None
    pert = leapfrog(q, p, eps, L, minv, grad, eta=eta)
    if not pert["finite"] or len(pert["traj"]) != len(base["traj"]):
        return float("inf"), pert
    dev = 0.0
    for (qa, pa), (qb, pb) in zip(base["traj"], pert["traj"]):
        dev = max(dev, float(np.max(np.abs(qa - qb))), float(np.max(np.abs(pa - pb))))
    return dev / (eta * base["scale"]), pert


def amplification(q, p, eps, L, minv, grad, base=None, eta=1e-9):
    return probe(q, p, eps, L, minv, grad, base=base, eta=eta)[0]


# ----------------------------------------------------------------------------- toy targets
_LOG2PI = math.log(2.0 * math.pi)


class Block:
    """log density of one parameter block (a vector) and its gradient"""

    def __init__(self, spec):
        self.kind = spec["kind"]
        self.n = int(spec["n"])
        if self.kind == "normal":
            self.loc = np.asarray(spec["loc"], dtype=float)
            self.scale = np.asarray(spec["scale"], dtype=float)
        elif self.kind == "gamma_raw":
            # x ~ Gamma(conc, rate) on the positive half line, no transform: outside the support
            # the density is not defined (nan), which ends a reference trajectory as not finite
            self.conc = np.asarray(spec["conc"], dtype=float)
            self.rate = np.asarray(spec["rate"], dtype=float)
        elif self.kind == "gamma":
            # z = exp(x) ~ Gamma(conc, rate); density of x includes the Jacobian dz/dx = exp(x)
            self.conc = np.asarray(spec["conc"], dtype=float)
            self.rate = np.asarray(spec["rate"], dtype=float)
        elif self.kind == "mvn":
            self.loc = np.asarray(spec["loc"], dtype=float)
            self.prec = np.asarray(spec["prec"], dtype=float)
            sign, self.logdet = np.linalg.slogdet(self.prec)
            if sign <= 0:
                raise ValueError("precision not positive definite")
        else:
            raise ValueError(self.kind)

    def logp(self, x):
        if self.kind == "normal":
            r = (x - self.loc) / self.scale
            return float(np.sum(-0.5 * r * r - np.log(self.scale) - 0.5 * _LOG2PI))
        if self.kind == "gamma_raw":
            if not np.all(x > 0):
                return float("nan")
            lg = np.array([math.lgamma(a) for a in self.conc])
            return float(np.sum(self.conc * np.log(self.rate) - lg + (self.conc - 1.0) * np.log(x) - self.rate * x))
        if self.kind == "gamma":
            lg = np.array([math.lgamma(a) for a in self.conc])
            return float(np.sum(self.conc * np.log(self.rate) - lg + self.conc * x - self.rate * np.exp(x)))
        r = x - self.loc
        return float(-0.5 * r @ self.prec @ r + 0.5 * self.logdet - 0.5 * self.n * _LOG2PI)

    def grad(self, x):
        if self.kind == "normal":
            return -(x - self.loc) / (self.scale * self.scale)
        if self.kind == "gamma_raw":
            if not np.all(x > 0):
                return np.full(self.n, np.nan)
            return (self.conc - 1.0) / x - self.rate
        if self.kind == "gamma":
            return self.conc - self.rate * np.exp(x)
        return -self.prec @ (x - self.loc)


class BlockTarget:
    """independent blocks, one per parameter, concatenated in order"""

    def __init__(self, blocks):
        self.blocks = [Block(b) for b in blocks]
        self.sizes = [b.n for b in self.blocks]
        self.dim = sum(self.sizes)

    def _split(self, q):
        out, s = [], 0
        for n in self.sizes:
            out.append(q[s : s + n])
            s += n
        return out

    def logp(self, q):
        q = np.asarray(q, dtype=float)
        with np.errstate(all="ignore"):
            return float(sum(b.logp(x) for b, x in zip(self.blocks, self._split(q))))

    def grad(self, q):
        q = np.asarray(q, dtype=float)
        with np.errstate(all="ignore"):
            return np.concatenate([b.grad(x) for b, x in zip(self.blocks, self._split(q))])
