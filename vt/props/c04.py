"""C04 - transition probabilities are exp(Qt) of a properly normalised rate matrix."""
import math

import numpy as np
import torch
from hypothesis import strategies as st

from vt import tt
from vt.cmp import arr, maxabs
from vt.gen.basic import fl, logu
from vt.oracle import ratemat as rm
from vt.runner import Res, Sub, h64

PROPERTY = "C04"
LEVEL = "exploration"
RULE = (
    "Hypothesis draws (model in JC69/HKY/GTR/GeneralJC69/general symmetric/general non-symmetric/LG/WAG/"
    "MG94; rates, kappa, alpha, beta log-uniform 1e-4..1e4; frequencies = normalised exponentials with a "
    "drawn spread up to a ratio of 1e4 and, in a quarter of the vectors, one or several entries of 1e-5..1e-10 "
    "(every model class that takes frequencies; labelled 'skewed-frequencies'); general models with 3-6 states and a random mapping onto 1..n rate "
    "classes; MG94 with one of the 15 genetic codes; parameters unbatched, batched alike with sample shape "
    "[S] or [S,K], or rates batched with shared frequencies; branch lengths 0 or log-uniform 1e-8..100 in "
    "the shape the tree likelihood passes, sample shape + [B,K], and for unbatched models also scalar and "
    "[B]); every model is built from its JSON specification. Non-trivial = some t > 0 and, for models with "
    "parameters, non-uniform frequencies and (multi-rate models) non-equal rates. Distinct = (model, sizes, "
    "mapping / genetic code, shapes, parameters and branch lengths rounded to 6 significant digits). "
    "'history' keeps ONE model object per case: evaluate, then 2-4 rounds of updating rates and/or frequencies "
    "(MG94: any subset of kappa/alpha/beta) through Parameter.tensor = ... or in-place + fire_parameter_changed, "
    "sometimes several updates before the next evaluation, re-checking clauses (a)-(e) against the oracle at the "
    "current values after the updates (non-trivial there = an evaluation after a real change of value at a non-trivial state). "
    "'jc_dtypes' draws GeneralJC69 with 2..64 states (and JC69) with the library's default dtype float32 or float64 while the model is "
    "built and evaluated, branch lengths in float64 or float32, shapes scalar, [B], [B,K], [S,B,K], [S1,S2,B,K] (labels: default dtype, "
    "t dtype, n power of two or not). "
    "'codes' enumerates all 15 genetic codes at two parameter points; 'unit' repeats the repository's own "
    "MG94 assertion for every code; 'single_matrix' is the one-matrix shape of the non-symmetric model."
)
ASSUMPTIONS = [
    "scipy.linalg.expm of the normalised documented matrix is the reference; it is audited against mpmath "
    "(40 digits) in the self-test and on a hashed sample of the generated cases (harness error if they differ by > 1e-12)",
    "tolerance on entries of P: 1e-10 absolute (DESIGN C04-B); 1e-9 for the non-symmetric model when p_t receives a "
    "single matrix (upstream torch.matrix_exp is only ~2e-10 accurate for one matrix; the likelihood always passes >= 2)",
    "skewed frequencies (max/min > 2e4): reversible models keep 1e-10 (a Pade reference attains it); the non-symmetric model gets "
    "max(1e-10, 20 eps t|Q|_inf), the first-order conditioning of expm for a non-normal generator (measured <= 3.2 eps t|Q| for "
    "torch.matrix_exp and scipy alike); P(0)=I for the eigen route: max(1e-12, 10 eps cond(diag(sqrt(pi)))); differences between tolerance "
    "and max(1e-7, 100 eps t|Q|) are re-judged against mpmath, so scipy's own rounding never decides",
    "failures of the eigen route where frequencies are skewed and cond(diag(sqrt(pi)))*max(1,t|Q|_inf) >= 3e5 are tagged amp_band '>=3e5' "
    "(known finding C04-eigen-skewed-frequencies-amplification), recorded once per state, and the search continues behind them; outside "
    "that corner the measured error of the unchanged tree is <= 0.41 eps cond t|Q| <= 2.7e-11",
    "LG / WAG numbers cannot be re-derived offline: their q() is checked structurally (symmetric exchangeabilities, "
    "zero row sums, positive off-diagonals) and P against expm of the oracle-normalised q(); the frequencies are used as "
    "given (LG's sum to 1.000001 as in the published file)",
    "MG94 has no documented matrix: q() is checked structurally and by parameter-effect relations (kappa / alpha / beta "
    "multiply exactly the single-nucleotide transition / synonymous / non-synonymous pairs, classified with the oracle's own "
    "NCBI genetic-code tables); the rate of multi-nucleotide pairs is asserted only where the repository's test does (kappa=alpha=beta=1, "
    "uniform frequencies: every off-diagonal equals 1/n)",
    "general non-symmetric model: second half of the mapping = transposed positions in the order of the upper triangle "
    "(the reading under which the repository's test_general_GTR holds); stationarity / detailed balance are not asserted for it",
    "result *shape* is asserted only for the shapes the tree likelihood passes (sample shape + [B,K]); for scalar and [B] "
    "branch lengths only the values are compared (the non-symmetric model returns [1,1,k,k] / [1,B,k,k] there)",
    "parameters with different sample shapes inside one model are generated only as 'rates batched, frequencies shared', which "
    "the q() builders handle explicitly; other mixtures are C10's subject",
    "histories update parameters only through the public interface and always notify (assignment to Parameter.tensor, or "
    "in-place copy followed by fire_parameter_changed); updates keep the shape of the parameter; an in-place change without "
    "notification is not generated (staleness would be legitimate)",
    "jc_dtypes: tolerances are relative to the precision of the branch lengths' dtype (float64: 1e-10 on P, 1e-12 on P(0)=I; float32: "
    "64 eps32 = 7.6e-6 and 8 eps32); q() and frequencies are compared at the precision of their own dtype (they follow the default dtype); the "
    "dtype of the result is not asserted; every other sub-check runs with the default dtype float64 set before torchtree is imported",
    "normalize=false of the non-symmetric model is not generated (the property demands the normalised matrix)",
]

TOL_P = 1e-10
TOL_P_SINGLE = 1e-9
TOL_Q = 1e-11
SUSPECT = 1e-7  # scipy's expm is audited to 1e-12; larger differences need no second opinion
EPS = 2.220446049250313e-16
EIGEN_MODELS = ("HKY", "GTR", "GeneralSymmetric", "MG94")  # p_t through the symmetrised eigen-decomposition
C_TQ = 20.0  # first-order effect of rounding the entries of Q on expm(tQ): <= eps t |Q|_inf (measured <= 3.2)
SKEW_RATIO = 2.0e4  # frequencies with max/min above this are "skewed" (the ordinary generator stays <= 1e4)
AMP_LARGE = 3.0e5  # cond(D) * t|Q|: measured error of the eigen route <= 0.41 eps cond(D) t|Q| (9000 skewed cases)


def tol_p(model, pi, tq, single):
    """tolerance on entries of P(t) for one slice and one t: the 1e-10 (1e-9 single matrix) of
    DESIGN C04-B.  Reversible models keep it for every frequency vector (a Pade reference attains it
    on the same matrices).  Only for the non-symmetric model with skewed frequencies (max/min > 2e4)
    the conditioning of the problem itself is added: rounding the entries of a non-normal Q moves
    expm(tQ) by up to eps t |Q|_inf (first order; exp(sQ) are contractions in the inf-norm) and
    normalisation by a dominant frequency makes t |Q| huge there -> C_TQ eps t |Q|_inf (measured on
    torch.matrix_exp and scipy alike: <= 3.2 eps t |Q|)."""
    base = TOL_P_SINGLE if single else TOL_P
    pi = np.asarray(pi, dtype=float)
    if model == "GeneralNonSymmetric" and float(np.max(pi) / np.min(pi)) > SKEW_RATIO:
        return max(base, C_TQ * EPS * tq)
    return base


def is_ill(model, pi, tq):
    """the corner where the symmetrised eigen-decomposition (HKY, GTR, general symmetric, MG94) is
    known to lose accuracy: skewed frequencies and cond(diag(sqrt(pi))) * t|Q|_inf >= 3e5"""
    pi = np.asarray(pi, dtype=float)
    ratio = float(np.max(pi) / np.min(pi))
    return model in EIGEN_MODELS and ratio > SKEW_RATIO and math.sqrt(ratio) * max(1.0, tq) >= AMP_LARGE


def bands(c):
    """pi_band: 'regular' / 'ratio>2e4' by the largest max/min frequency over slices (and rounds)"""
    states = [c] if "rounds" not in c else _history_states(c)
    ratio = 1.0
    for s in states:
        if s["model"] in PARAM_FREE:
            continue
        fr = np.asarray(s["freqs"], dtype=float)
        ratio = max(ratio, float(np.max(fr.max(axis=1) / fr.min(axis=1))))
    return {"pi_band": "ratio>2e4" if ratio > SKEW_RATIO else "regular"}


def _history_states(c):
    """the successive (parameter values, branch lengths) of a history case, evaluated or not"""
    cur = {k: v for k, v in c.items() if k != "rounds"}
    out = [cur]
    for u in c["rounds"]:
        cur = dict(cur, t=list(u["t"]))
        if "rates" in u:
            cols = u.get("cols")
            cur["rates"] = [[(u["rates"][i][j] if (cols is None or j in cols) else v) for j, v in enumerate(row)] for i, row in enumerate(cur["rates"])]
        if "freqs" in u:
            cur["freqs"] = [list(x) for x in u["freqs"]]
        out.append(cur)
    return out
AA = "torchtree.evolution.substitution_model.amino_acid."
PARAM_FREE = ("JC69", "GeneralJC69", "LG", "WAG")
REVERSIBLE = ("JC69", "HKY", "GTR", "GeneralJC69", "GeneralSymmetric", "LG", "WAG", "MG94")


# --------------------------------------------------------------------------- generation
def _n(ss):
    return int(np.prod(ss)) if ss else 1


def _tval():
    return st.one_of(st.just(0.0), logu(1e-8, 100.0), logu(1e-8, 100.0), logu(1e-8, 100.0), logu(1e-3, 10.0), logu(1e-3, 10.0), logu(1.0, 100.0))


@st.composite
def _times(draw, c, max_b=4, max_k=3, only_bk=False):
    """branch lengths: base[B,K] times a per-slice factor, as the likelihood forms them
    (branch length x category rate); 0 stays 0"""
    n = _n(c["ss"])
    if c["ss"] or only_bk:
        c["tshape"] = "BK"
    else:
        c["tshape"] = draw(st.sampled_from(["BK", "BK", "BK", "B", "scalar"]))
    B = draw(st.integers(1, max_b)) if c["tshape"] != "scalar" else 1
    K = draw(st.integers(1, max_k)) if c["tshape"] == "BK" else 1
    c["B"], c["K"] = B, K
    c["t"] = [draw(_tval()) for _ in range(B * K)]
    c["tfac"] = [1.0] + [draw(logu(1e-2, 1.0)) for _ in range(n - 1)]
    c["s"] = [draw(logu(1e-6, 50.0)), draw(logu(1e-6, 50.0))]
    return c


def _sample_shape(draw, max_s, max_n):
    kind = draw(st.sampled_from(["none", "none", "S", "SK"]))
    if kind == "none":
        return []
    if kind == "S":
        return [draw(st.integers(1, min(max_s, max_n)))]
    a = draw(st.integers(1, max_s))
    b = draw(st.integers(1, max(1, min(max_s, max_n // a))))
    return [a, b]


def _rates(draw, m, equal=False):
    if equal:
        v = draw(logu(1e-4, 1e4))
        return [v] * m
    return [draw(logu(1e-4, 1e4)) for _ in range(m)]


def _freqs(draw, k, uniform=False):
    """normalised exponentials of a vector whose spread is itself drawn (flat ... ratio 1e4)"""
    if uniform:
        return [1.0 / k] * k
    spread = draw(logu(0.3, math.log(1e4)))
    u = draw(st.lists(fl(0.0, 1.0), min_size=k, max_size=k))
    if max(u) - min(u) < 0.05:  # Hypothesis is fond of constant lists: tilt them
        u = [(x + 0.9 * i / (k - 1)) % 1.0 for i, x in enumerate(u)]
    e = [math.exp(spread * (x - max(u))) for x in u]
    # extreme but admissible corner of the open simplex: one or several entries of
    # 1e-5 ... 1e-10 next to ordinary ones (quite ordinary for 61 codon frequencies)
    if draw(st.integers(0, 3)) == 0:
        nsmall = draw(st.integers(1, max(1, min(k - 1, 3 if k <= 6 else 12))))
        idx = draw(st.lists(st.integers(0, k - 1), min_size=nsmall, max_size=nsmall, unique=True))
        big = sum(x for i, x in enumerate(e) if i not in idx)
        for i in idx:
            e[i] = big * draw(logu(1e-10, 1e-5))
    tot = sum(e)
    return [x / tot for x in e]


@st.composite
def nucleotide_cases(draw):
    model = draw(st.sampled_from(["JC69", "HKY", "GTR", "GTR"]))
    c = {"model": model, "ss": [], "fbatch": False}
    if model != "JC69":
        c["ss"] = _sample_shape(draw, 4, 8)
        c["fbatch"] = bool(c["ss"]) and draw(st.sampled_from([True, True, False]))
        n = _n(c["ss"])
        degenerate = draw(st.integers(0, 19)) == 0  # equal rates + uniform frequencies (repeated eigenvalues)
        nr = 1 if model == "HKY" else 6
        c["rates"] = [_rates(draw, nr, degenerate) for _ in range(n)]
        c["freqs"] = [_freqs(draw, 4, degenerate) for _ in range(n if c["fbatch"] else 1)]
    return draw(_times(c))


@st.composite
def general_cases(draw):
    model = draw(st.sampled_from(["GeneralJC69", "GeneralSymmetric", "GeneralSymmetric", "GeneralNonSymmetric", "GeneralNonSymmetric"]))
    k = draw(st.integers(3, 6))
    c = {"model": model, "k": k, "ss": [], "fbatch": False}
    if model != "GeneralJC69":
        c["ss"] = _sample_shape(draw, 4, 6)
        c["fbatch"] = bool(c["ss"]) and draw(st.sampled_from([True, True, False]))
        n = _n(c["ss"])
        nmap = k * (k - 1) // 2 * (2 if model == "GeneralNonSymmetric" else 1)
        if draw(st.integers(0, 5)) == 0:
            c["mapping"] = None  # default mapping: arange
            nr = nmap
        else:
            nr = draw(st.integers(1, nmap))
            c["mapping"] = [draw(st.integers(0, nr - 1)) for _ in range(nmap)]
        c["nrates"] = nr
        degenerate = draw(st.integers(0, 19)) == 0
        c["rates"] = [_rates(draw, nr, degenerate) for _ in range(n)]
        c["freqs"] = [_freqs(draw, k, degenerate) for _ in range(n if c["fbatch"] else 1)]
    return draw(_times(c))


@st.composite
def single_matrix_cases(draw):
    k = draw(st.integers(3, 6))
    c = {"model": "GeneralNonSymmetric", "k": k, "ss": draw(st.sampled_from([[], [], [1], [1, 1]])), "fbatch": True}
    nmap = k * (k - 1)
    nr = draw(st.integers(1, nmap))
    c["mapping"] = [draw(st.integers(0, nr - 1)) for _ in range(nmap)]
    c["nrates"] = nr
    c["rates"] = [_rates(draw, nr)]
    c["freqs"] = [_freqs(draw, k)]
    c["fbatch"] = bool(c["ss"])
    c["tshape"] = "BK" if c["ss"] else draw(st.sampled_from(["BK", "B", "scalar"]))
    c["B"], c["K"] = 1, 1
    c["t"] = [draw(st.one_of(logu(1e-8, 100.0), logu(1e-3, 1.0)))]
    c["tfac"] = [1.0]
    c["s"] = [draw(logu(1e-6, 50.0)), draw(logu(1e-6, 50.0))]
    return c


@st.composite
def jc_dtype_cases(draw):
    """the equal-rates models (GeneralJC69 with 2..64 states, JC69) under both library default
    dtypes and both branch-length dtypes, unbatched and batched branch lengths"""
    model = draw(st.sampled_from(["GeneralJC69"] * 7 + ["JC69"]))
    c = {"model": model, "jc": True}
    if model == "GeneralJC69":
        c["k"] = draw(st.one_of(st.integers(2, 64), st.integers(2, 64), st.sampled_from([2, 3, 5, 6, 7, 20, 21, 61, 63, 64])))
    c["default"] = draw(st.sampled_from(["float32", "float32", "float64"]))
    c["tdtype"] = draw(st.sampled_from(["float64", "float64", "float32"]))
    nd = draw(st.sampled_from([0, 1, 2, 2, 2, 3, 4]))  # scalar, [B], [B,K], [S,B,K], [S1,S2,B,K]
    big = c.get("k", 4) > 24
    c["tdims"] = [draw(st.integers(1, 2 if big else 3)) for _ in range(nd)]
    c["t"] = [draw(_tval()) for _ in range(_n(c["tdims"]))]
    c["s"] = [draw(logu(1e-6, 50.0)), draw(logu(1e-6, 50.0))]
    return c


@st.composite
def empirical_cases(draw):
    c = {"model": draw(st.sampled_from(["LG", "WAG"])), "ss": [], "fbatch": False}
    return draw(_times(c, max_b=3, max_k=2))


@st.composite
def codon_cases(draw):
    code = draw(st.sampled_from(rm.CODE_NAMES))
    k = len(rm.codon_states(code))
    c = {"model": "MG94", "code": code, "k": k}
    c["ss"] = _sample_shape(draw, 2, 2)
    c["fbatch"] = bool(c["ss"]) and draw(st.booleans())
    n = _n(c["ss"])
    degenerate = draw(st.integers(0, 19)) == 0
    c["rates"] = [_rates(draw, 3, degenerate) for _ in range(n)]  # kappa, alpha, beta
    c["freqs"] = [_freqs(draw, k, degenerate) for _ in range(n if c["fbatch"] else 1)]
    return draw(_times(c, max_b=2, max_k=2, only_bk=draw(st.booleans())))


@st.composite
def history_cases(draw):
    """one model object, evaluated, then 2-4 rounds of parameter updates through the public
    interface (Parameter.tensor = ..., or in-place + fire_parameter_changed) and re-evaluation"""
    base = draw(st.one_of(nucleotide_cases(), general_cases(), general_cases(), codon_cases(), empirical_cases()))
    c = dict(base)
    model = c["model"]
    n = _n(c["ss"])
    rounds = []
    nrounds = draw(st.integers(2, 4))
    for r in range(nrounds):
        u = {"t": [draw(_tval()) for _ in range(c["B"] * c["K"])]}
        if model not in PARAM_FREE:
            what = draw(st.sampled_from(["rates", "rates", "freqs", "both"]))
            u["mode"] = draw(st.sampled_from(["assign", "assign", "inplace"]))
            if what in ("rates", "both"):
                nr = len(c["rates"][0])
                u["rates"] = [_rates(draw, nr) for _ in range(n)]
                if model == "MG94":  # kappa, alpha, beta are three parameter objects
                    u["cols"] = draw(st.sampled_from([[0], [1], [2], [0, 1], [0, 2], [1, 2], [0, 1, 2]]))
            if what in ("freqs", "both"):
                k = len(c["freqs"][0])
                u["freqs"] = [_freqs(draw, k) for _ in range(len(c["freqs"]))]
            # several updates may pile up before the next evaluation; the last round always evaluates
            u["evaluate"] = True if r == nrounds - 1 else draw(st.sampled_from([True, True, True, False]))
        rounds.append(u)
    c["rounds"] = rounds
    return c


def codes_enum(tier):
    out = []
    for code in rm.CODE_NAMES:
        k = len(rm.codon_states(code))
        w = np.exp(3.0 * np.sin(1.0 + 0.7 * np.arange(k)))
        for rates in ([2.5, 0.3, 1.7], [0.2, 3.0, 0.05]):
            out.append({"model": "MG94", "code": code, "k": k, "ss": [], "fbatch": False, "rates": [rates],
                        "freqs": [(w / w.sum()).tolist()], "tshape": "BK", "B": 2, "K": 2,
                        "t": [0.0, 0.01, 0.3, 5.0], "tfac": [1.0], "s": [0.02, 0.7]})
    return out


def unit_enum(tier):
    return [{"model": "MG94", "code": code, "k": len(rm.codon_states(code)), "unit": True} for code in rm.CODE_NAMES]


# --------------------------------------------------------------------------- specifications
def _shaped(rows, ss, batched):
    a = np.asarray(rows, dtype=float)
    if batched:
        return a.reshape(tuple(ss) + (a.shape[-1],)).tolist()
    return a[0].tolist()


def spec_of(c, slice_=None):
    """JSON specification of the model of case c (of one slice, unbatched, if slice_ is given)"""
    model = c["model"]
    ss = c["ss"] if slice_ is None else []
    if model in ("LG", "WAG"):
        return {"id": "m", "type": AA + model}
    if model == "JC69":
        return {"id": "m", "type": "JC69"}
    if model == "GeneralJC69":
        return {"id": "m", "type": "GeneralJC69", "state_count": c["k"]}
    if slice_ is None:
        rates = _shaped(c["rates"], ss, bool(ss))
        freqs = _shaped(c["freqs"], ss, bool(ss) and c["fbatch"])
    else:
        rates = list(c["rates"][slice_])
        freqs = list(c["freqs"][slice_ if c["fbatch"] else 0])
    f = tt.P("f", freqs)
    if model == "HKY":
        return {"id": "m", "type": "HKY", "kappa": tt.P("kappa", rates), "frequencies": f}
    if model == "GTR":
        return {"id": "m", "type": "GTR", "rates": tt.P("rates", rates), "frequencies": f}
    if model in ("GeneralSymmetric", "GeneralNonSymmetric"):
        s = {
            "id": "m",
            "type": "General%sSubstitutionModel" % model[len("General"):],
            "data_type": {"id": "dt", "type": "GeneralDataType", "codes": [chr(65 + i) for i in range(c["k"])]},
            "rates": tt.P("rates", rates),
            "frequencies": f,
        }
        if c.get("mapping") is not None:
            s["mapping"] = list(c["mapping"])
        return s
    if model == "MG94":
        r = np.asarray(rates, dtype=float)
        return {
            "id": "m",
            "type": "MG94",
            "data_type": {"id": "dt", "type": "CodonDataType", "genetic_code": c["code"]},
            "kappa": tt.P("kappa", r[..., 0:1].tolist()),
            "alpha": tt.P("alpha", r[..., 1:2].tolist()),
            "beta": tt.P("beta", r[..., 2:3].tolist()),
            "frequencies": f,
        }
    raise ValueError(model)


def oracle_params(c, i):
    """plain parameter values of slice i for vt.oracle.ratemat"""
    model = c["model"]
    if model == "JC69":
        return {}
    if model == "GeneralJC69":
        return {"state_count": c["k"]}
    pi = c["freqs"][i if c["fbatch"] else 0]
    r = c["rates"][i]
    if model == "HKY":
        return {"kappa": r[0], "frequencies": pi}
    if model == "GTR":
        return {"rates": r, "frequencies": pi}
    if model in ("GeneralSymmetric", "GeneralNonSymmetric"):
        return {"mapping": c.get("mapping"), "rates": r, "frequencies": pi}
    if model == "MG94":
        return {"kappa": r[0], "alpha": r[1], "beta": r[2], "frequencies": pi, "genetic_code": c["code"]}
    raise ValueError(model)


def times_of(c):
    """numpy array of branch lengths in the shape handed to p_t, and as [n, B*K]"""
    n = _n(c["ss"])
    base = np.asarray(c["t"], dtype=float)
    per = np.asarray(c["tfac"], dtype=float)[:, None] * base[None, :]  # [n, B*K]
    if c["tshape"] == "scalar":
        full = per.reshape(())
    elif c["tshape"] == "B":
        full = per.reshape((c["B"],))
    else:
        full = per.reshape(tuple(c["ss"]) + (c["B"], c["K"]))
    return full, per


# --------------------------------------------------------------------------- helpers
def _sig(x, d=6):
    if isinstance(x, (list, tuple)):
        return [_sig(v, d) for v in x]
    if x is None or isinstance(x, (str, bool, int)):
        return x
    return float("%.*g" % (d, x))


def _relerr(a, b):
    """max over entries of |a-b| / |b| (0 where both are 0); inf on shape mismatch / non-finite"""
    a, b = np.asarray(a, dtype=float), np.asarray(b, dtype=float)
    if a.shape != b.shape or not (np.all(np.isfinite(a)) and np.all(np.isfinite(b))):
        return float("inf")
    if a.size == 0:
        return 0.0
    d = np.abs(a - b)
    den = np.abs(b)
    with np.errstate(divide="ignore", invalid="ignore"):
        r = np.where(d == 0.0, 0.0, d / den)
    return float(np.max(r))


def _slices(x, n, tail):
    """view x (numpy) as [n] + tail when the number of elements allows it, else None"""
    x = np.asarray(x)
    if x.size == n * int(np.prod(tail)):
        return x.reshape((n,) + tuple(tail))
    if x.size == int(np.prod(tail)):
        return np.broadcast_to(x.reshape(tuple(tail)), (n,) + tuple(tail))
    return None


def _audit(Qn, pi, t, reversible):
    """harness self-audit: scipy expm against mpmath; raises (harness error) if they differ"""
    ref = rm.expm_mp(np.asarray(Qn) * t)
    err = float(np.max(np.abs(ref - rm.p_t(Qn, t))))
    if not err <= max(1e-12, C_TQ * EPS * t * float(np.max(np.sum(np.abs(Qn), axis=1)))):
        raise AssertionError("oracle audit: scipy expm differs from mpmath by %g (t=%r, Q=%r)" % (err, t, np.asarray(Qn).tolist()))


def _reference(Qn, pi, t, reversible, fast):
    """reference P(t) for the verdict on a suspected mismatch: multiple precision, so that
    neither scipy's nor torchtree's rounding decides; `fast` is scipy's value (returned for
    t = 0 and for large non-reversible matrices, which do not occur here)"""
    k = np.asarray(Qn).shape[0]
    if t == 0.0:
        return fast
    if k <= 8:
        return rm.expm_mp(np.asarray(Qn) * t)
    if reversible:
        # 20 x 20 / 61 x 61: multiple precision costs seconds; if numpy's symmetric
        # eigen-decomposition and scipy's Pade approximant agree to 1e-12 they are the reference
        if maxabs(rm.p_t_reversible_eigh(Qn, pi, t), fast) <= 1e-12:
            return fast
        return rm.p_t_reversible_mp(Qn, pi, t, dps=30)
    return fast


def _mat(x):
    """matrices go into failure details in full only when small"""
    x = np.asarray(x)
    if x.size <= 64:
        return x.tolist()
    return {"shape": list(x.shape), "first_row_head": x.reshape(-1, x.shape[-1])[0, :6].tolist()}


def _band(x, edges, names):
    for e, nm in zip(edges, names):
        if x < e:
            return nm
    return names[-1]


def _check_state(c, m, res, key, out):
    """clauses (a)-(e) for model object m against the oracle at the parameter values and
    branch lengths recorded in c; returns res (with a failure) or None; leaves the model's
    matrices in `out`"""
    model = c["model"]
    ss = tuple(c["ss"])
    n = _n(ss)
    tfull, tper = times_of(c)
    nt = tper.shape[1]
    single = model == "GeneralNonSymmetric" and tfull.size == 1

    # ---- the model's own rate matrix and frequencies
    Qm = arr(m.q())
    pim = arr(m.frequencies)
    k = Qm.shape[-1] if Qm.ndim >= 2 else -1
    kexp = {"JC69": 4, "HKY": 4, "GTR": 4, "LG": 20, "WAG": 20}.get(model, c.get("k"))
    if Qm.ndim < 2 or Qm.shape[-2:] != (kexp, kexp):
        return res.fail("q_shape", {"q": list(Qm.shape), "states": kexp})
    k = kexp
    Qs = _slices(Qm, n, (k, k))
    pis = _slices(pim, n, (k,))
    if Qs is None or pis is None:
        return res.fail("q_shape", {"q": list(Qm.shape), "frequencies": list(pim.shape), "sample_shape": list(ss)})
    if model not in PARAM_FREE and tuple(Qm.shape) != ss + (k, k):
        return res.fail("q_shape", {"q": list(Qm.shape), "expected": list(ss + (k, k))})
    if not (np.all(np.isfinite(Qs)) and np.all(np.isfinite(pis))):
        return res.fail("nonfinite_q", {"q": _mat(Qs)})

    # ---- p_t in the shape the likelihood passes (or scalar / [B])
    P = arr(m.p_t(torch.tensor(tfull.tolist())))
    if c["tshape"] == "BK" and tuple(P.shape) != ss + (c["B"], c["K"], k, k):
        return res.fail("p_shape", {"p": list(P.shape), "expected": list(ss + (c["B"], c["K"], k, k))})
    Ps = _slices(P, n * nt, (k, k)) if P.size == n * nt * k * k else None
    if Ps is None:
        return res.fail("p_shape", {"p": list(P.shape), "t": list(tfull.shape), "states": k})
    Ps = Ps.reshape(n, nt, k, k)
    if not np.all(np.isfinite(Ps)):
        return res.fail("nonfinite_p", {"t": tper.tolist()})

    # semigroup triple (s, u, s+u) as three branches, one category
    s1, s2 = c["s"]
    tri = np.broadcast_to(np.array([[s1], [s2], [s1 + s2]]), ss + (3, 1))
    Ptri = arr(m.p_t(torch.tensor(tri.tolist())))
    Ptri = Ptri.reshape(n, 3, k, k) if Ptri.size == n * 3 * k * k else None
    if Ptri is None:
        return res.fail("p_shape", {"t": list(tri.shape), "what": "semigroup triple"})

    # the model's own normalisation constant, where it exposes one
    norm_m = None
    if hasattr(m, "norm"):
        nm = arr(m.norm(m.q()))
        norm_m = nm.reshape(-1) if nm.size == n else None
        if norm_m is None:
            return res.fail("norm_shape", {"norm": list(nm.shape), "sample_shape": list(ss)})

    ill_seen = [False]
    for i in range(n):
        Q, pi = Qs[i], pis[i]
        d = {"slice": i}
        off = ~np.eye(k, dtype=bool)
        # ---------------- (a) the rate matrix
        if np.any(Q[off] < 0):
            return res.fail("q_negative_offdiagonal", dict(d, q=_mat(Q)))
        rowerr = np.abs(Q.sum(axis=1)) / np.abs(np.diagonal(Q)).clip(1e-300)
        if np.max(rowerr) > 1e-12:
            return res.fail("q_rowsum", dict(d, worst_relative_rowsum=float(np.max(rowerr)), q=_mat(Q)))
        if model in ("LG", "WAG", "MG94"):
            stt = rm.structure(Q, pi)
            if stt["asymmetry"] > TOL_Q:
                return res.fail("q_not_reversible", dict(d, asymmetry=stt["asymmetry"]))
            if model != "MG94" and not stt["min_offdiag"] > 0:
                return res.fail("q_zero_offdiagonal", dict(d, min_offdiag=stt["min_offdiag"]))
            if model == "MG94" and _relerr(pi, np.asarray(c["freqs"][i if c["fbatch"] else 0])) > 1e-14:
                return res.fail("frequencies", dict(d, what="model frequencies differ from the specified ones"))
            Qn = rm.from_q(Q, pi)
        else:
            par = oracle_params(c, i)
            Qdoc, pidoc = rm.q_unnormalised(model, **par)
            if _relerr(pi, pidoc) > 1e-14:
                return res.fail("frequencies", dict(d, frequencies=pi.tolist(), expected=pidoc.tolist()))
            Qn = rm.normalise(Qdoc, pidoc)
            Qmn = rm.normalise(Q, pidoc)  # proportionality: compare after a common normalisation
            if model == "GeneralNonSymmetric":
                # what both readings of the docstring share: first half of the mapping = upper
                # triangle row by row; the lower triangle holds the second half's rates.  The
                # proportionality constant is taken from the upper triangle alone.
                iu = np.triu_indices(k, 1)
                il = (iu[1], iu[0])
                cst = float(np.sum(Q[iu]) / np.sum(Qdoc[iu]))
                if not (cst > 0 and _relerr(Q[iu], cst * Qdoc[iu]) <= TOL_Q):
                    return res.fail("q_documented", dict(d, part="upper triangle", q=Q.tolist(), expected_proportional_to=Qdoc.tolist()))
                lo_m = np.sort((Q / pidoc[None, :])[il])
                lo_o = np.sort((cst * Qdoc / pidoc[None, :])[il])
                if _relerr(lo_m, lo_o) > TOL_Q:
                    return res.fail("q_documented", dict(d, part="lower triangle multiset", q=Q.tolist(), expected_proportional_to=Qdoc.tolist()))
                # the order within the lower triangle (transposed positions), fixed by test_general_GTR
                if _relerr(Q[il], cst * Qdoc[il]) > TOL_Q:
                    return res.fail("q_lower_order", dict(d, q=Q.tolist(), expected_proportional_to=Qdoc.tolist()))
                if _relerr(Qmn, Qn) > 10 * TOL_Q:
                    return res.fail("q_documented", dict(d, part="diagonal", q=Q.tolist(), expected_normalised=Qn.tolist()))
            elif _relerr(Qmn, Qn) > TOL_Q:
                return res.fail("q_documented", dict(d, q=Q.tolist(), expected_normalised=Qn.tolist(), relerr=_relerr(Qmn, Qn)))
        # ---------------- (b) normalisation constant
        if norm_m is not None:
            ne = rm.norm(Q, pi)
            if not abs(norm_m[i] - ne) <= TOL_Q * abs(ne):
                return res.fail("norm", dict(d, norm=float(norm_m[i]), expected=ne))
        if abs(rm.norm(Qn, pi) - 1.0) > 1e-12:  # oracle sanity (harness)
            raise AssertionError("oracle normalisation failed")
        # ---------------- (c) P(t) = expm(t Qn), (d) stochastic, P(0) = I, (e) reversibility
        if k <= 6 and h64(key) % 8 == 0 and i == 0:
            _audit(Qn, pi, float(tper[i, 0]), model in REVERSIBLE)
        qnorm = float(np.max(np.sum(np.abs(Qn), axis=1)))
        cond = math.sqrt(float(np.max(pi) / np.min(pi)))
        rev = model in REVERSIBLE

        def verdict(Pmat, t, sgl, what=None):
            """clauses (c)-(e) for one matrix; None or (kind, detail)"""
            tol = tol_p(model, pi, t * qnorm, sgl)
            dd = dict(d, t=t, tolerance=tol)
            if what:
                dd["what"] = what
            ref = rm.p_t(Qn, t)
            err = maxabs(Pmat, ref)
            if tol < err <= max(SUSPECT, 100 * EPS * t * qnorm):  # too small to be a gross error: let multiple precision decide
                ref = _reference(Qn, pi, t, rev, ref)
                err = maxabs(Pmat, ref)
            if not err <= tol:
                return "mismatch", dict(dd, err=err, p=_mat(Pmat), expected=_mat(ref))
            if np.max(np.abs(Pmat.sum(axis=1) - 1.0)) > tol or np.min(Pmat) < -tol:
                return "not_stochastic", dict(dd, rowsums=Pmat.sum(axis=1).tolist(), min=float(np.min(Pmat)))
            # P(0): the eigen route forms (D^-1 V)(V^-1 D), exact up to ~ eps cond(D)
            if t == 0.0 and maxabs(Pmat, np.eye(k)) > max(1e-12, 10 * EPS * cond if model in EIGEN_MODELS else 0.0):
                return "p0_not_identity", dict(dd, p=_mat(Pmat))
            if rev:
                if np.max(np.abs(pi @ Pmat - pi)) > tol:
                    return "not_stationary", dict(dd, piP=(pi @ Pmat).tolist(), pi=pi.tolist())
                F = pi[:, None] * Pmat
                if np.max(np.abs(F - F.T)) > tol:
                    return "detailed_balance", dict(dd, err=float(np.max(np.abs(F - F.T))))
            return None

        def report(v, t):
            """record a failure; True = stop here, False = it lies in the ill-conditioned corner of the
            eigen route (tagged amp_band '>=3e5', at most one per state) and the search goes on"""
            ill = is_ill(model, pi, t * qnorm)
            if ill and ill_seen[0]:
                return False
            res.fail(v[0], v[1], tband=_band(t, [1e-4, 1e-1, 10], ["<1e-4", "<1e-1", "<10", ">=10"]), amp_band=">=3e5" if ill else "<3e5")
            if ill:
                ill_seen[0] = True
            return not ill

        for j in range(nt):
            t = float(tper[i, j])
            if ill_seen[0] and is_ill(model, pi, t * qnorm):
                continue  # one record of the known corner per state is enough (its verdicts need multiple precision)
            v = verdict(Ps[i, j], t, single)
            if v is not None and report(v, t):
                return res
        # ---------------- (d) semigroup, on torchtree's own matrices
        tol3 = tol_p(model, pi, (s1 + s2) * qnorm, False)
        e3 = maxabs(Ptri[i, 0] @ Ptri[i, 1], Ptri[i, 2])
        if not e3 <= 10 * tol3 and report(("semigroup", dict(d, s=s1, u=s2, err=e3, tolerance=10 * tol3)), s1 + s2):
            return res
        for j, tv in enumerate((s1, s2, s1 + s2)):
            if ill_seen[0] and is_ill(model, pi, tv * qnorm):
                continue
            v = verdict(Ptri[i, j], tv, False, what="semigroup triple")
            if v is not None and report(v, tv):
                return res

    out.update(Qs=Qs, pis=pis, Ps=Ps, k=k)
    return None


# --------------------------------------------------------------------------- the check
def _classify(c):
    """tags, non-triviality, identity and labels of a (single-state) case"""
    model = c["model"]
    ss = tuple(c["ss"])
    batch = "none" if not ss else ("full" if c["fbatch"] else "partial")
    tfull, tper = times_of(c)
    single = model == "GeneralNonSymmetric" and tfull.size == 1
    tags = {"model": model, "batch": batch, "tshape": c["tshape"], "single_matrix": bool(single)}
    if "k" in c:
        tags["states"] = c["k"]
    if model == "MG94":
        tags["code"] = c["code"]
    if "mapping" in c:
        tags["mapping"] = "default" if c["mapping"] is None else "given"
    tags.update(bands(c))
    anypos = bool(np.any(tper > 0))
    nonuni = uneq = True
    if model in PARAM_FREE:
        nontrivial = anypos
    else:
        fr = np.asarray(c["freqs"], dtype=float)
        ra = np.asarray(c["rates"], dtype=float)
        nonuni = bool(np.all(fr.max(axis=1) / fr.min(axis=1) > 1.0 + 1e-6))
        multi = ra.shape[1] > 1
        uneq = bool(np.all(ra.max(axis=1) / ra.min(axis=1) > 1.0 + 1e-6)) if multi else True
        nontrivial = anypos and nonuni and uneq
    key = (model, c.get("k"), c.get("code"), c.get("mapping"), c["ss"], c["fbatch"], c["tshape"], c["B"], c["K"],
           _sig(c.get("rates")), _sig(c.get("freqs")), _sig(c["t"]), _sig(c["tfac"]))
    why = "nontrivial" if nontrivial else ("trivial:all-t-zero" if not anypos else ("trivial:uniform-frequencies" if not nonuni else "trivial:equal-rates"))
    labels = (model, "batch:" + batch, "t:" + c["tshape"], why) + (("skewed-frequencies(ratio>2e4)", "skewed:" + model) if tags["pi_band"] != "regular" else ())
    return tags, nontrivial, key, labels


def body(c):
    if c.get("unit"):
        return body_unit(c)
    model = c["model"]
    ss = tuple(c["ss"])
    n = _n(ss)
    m, _ = tt.build(spec_of(c))
    tfull, tper = times_of(c)
    nt = tper.shape[1]
    tags, nontrivial, key, labels = _classify(c)
    single = tags["single_matrix"]
    res = Res(nontrivial=nontrivial, key=key, labels=labels, tags=tags)
    out = {}
    if _check_state(c, m, res, key, out) is not None:
        return res
    Qs, pis, Ps, k = out["Qs"], out["pis"], out["Ps"], out["k"]

    # ---------------- MG94: parameter-effect relations
    if model == "MG94":
        f = _mg94_effects(c, res, Qs, pis, n, k)
        if f is not None:
            return f

    # ---------------- (f) batched = per slice (fresh unbatched model per slice)
    if ss:
        for i in range(n):
            mi, _ = tt.build(spec_of(c, i))
            ti = tper[i].reshape(c["B"], c["K"])
            Pi = arr(mi.p_t(torch.tensor(ti.tolist())))
            tol = 1e-9 if (model == "GeneralNonSymmetric" and (ti.size == 1 or single)) else 1e-11
            if model in EIGEN_MODELS:  # same algorithm on the same numbers, up to the back-transformation
                tol = max(tol, 10 * EPS * math.sqrt(float(np.max(pis[i]) / np.min(pis[i]))))
            if Pi.size != nt * k * k:
                return res.fail("p_shape", {"slice": i, "p": list(Pi.shape), "what": "unbatched rebuild"})
            e = maxabs(Pi.reshape(nt, k, k), Ps[i])
            if not e <= tol:
                return res.fail("batch_vs_slice", {"slice": i, "err": e})
            if _relerr(arr(mi.q()), Qs[i]) > 1e-13:
                return res.fail("batch_vs_slice_q", {"slice": i})
    return res


def _param_objects(c, dic):
    """the Parameter objects of the built model, by role"""
    model = c["model"]
    if model == "HKY":
        return {"rates": [(dic["kappa"], None)], "freqs": dic["f"]}
    if model == "MG94":
        return {"rates": [(dic["kappa"], 0), (dic["alpha"], 1), (dic["beta"], 2)], "freqs": dic["f"]}
    return {"rates": [(dic["rates"], None)], "freqs": dic["f"]}


def _set(param, values, mode):
    new = torch.tensor(values)
    if mode == "inplace":
        if tuple(param.tensor.shape) != tuple(new.shape):
            raise AssertionError("harness: in-place update with another shape")
        param.tensor.copy_(new)
        param.fire_parameter_changed()
    else:
        param.tensor = new


def body_history(c):
    """clauses (a)-(e) on ONE model object along a history: evaluate, update parameters
    through the public interface, evaluate again ...; the oracle always uses the current values"""
    model = c["model"]
    ss = c["ss"]
    cur = {k: v for k, v in c.items() if k != "rounds"}
    m, dic = tt.build(spec_of(cur))
    tags, nt0, key0, labels0 = _classify(cur)
    tags = dict(tags, history=True, **bands(c))
    rounds = c["rounds"]
    key = (key0, [(u.get("mode"), u.get("cols"), _sig(u.get("rates")), _sig(u.get("freqs")), _sig(u["t"]), u.get("evaluate", True)) for u in rounds])
    res = Res(nontrivial=False, key=key, tags=tags)
    out = {}
    if _check_state(cur, m, res, key, out) is not None:
        res.fails[-1].tags.update(stage="initial")
        res.fails[-1].detail["round"] = 0
        return res
    objs = _param_objects(cur, dic) if model not in PARAM_FREE else None
    changed_and_checked = 0
    pending = set()
    modes, kinds = set(), set()
    for r, u in enumerate(rounds, start=1):
        cur = dict(cur, t=list(u["t"]))
        if objs is not None:
            mode = u["mode"]
            modes.add(mode)
            if "rates" in u:
                cols = u.get("cols")
                newr = [list(row) for row in cur["rates"]]
                for i in range(len(newr)):
                    for j in range(len(newr[i])):
                        if cols is None or j in cols:
                            newr[i][j] = u["rates"][i][j]
                if newr != cur["rates"]:
                    pending.add("rates")
                cur["rates"] = newr
                ra = np.asarray(newr, dtype=float)
                for pobj, col in objs["rates"]:
                    if col is None:
                        _set(pobj, _shaped(newr, ss, bool(ss)), mode)
                    elif col in cols:
                        v = ra[:, col:col + 1]
                        _set(pobj, v.reshape(tuple(ss) + (1,)).tolist() if ss else v[0].tolist(), mode)
            if "freqs" in u:
                if u["freqs"] != cur["freqs"]:
                    pending.add("freqs")
                cur["freqs"] = [list(x) for x in u["freqs"]]
                _set(objs["freqs"], _shaped(cur["freqs"], ss, bool(ss) and cur["fbatch"]), mode)
        if not u.get("evaluate", True):
            continue
        if _check_state(cur, m, res, key, out) is not None:
            upd = "+".join(sorted(pending)) or "none"
            res.fails[-1].tags.update(stage="after_update", updated=upd, mode=u.get("mode", "none"))
            res.fails[-1].detail["round"] = r
            return res
        _, nt_r, _, _ = _classify(cur)
        if model in PARAM_FREE:
            changed_and_checked += int(nt_r)
        elif pending and nt_r:
            changed_and_checked += 1
        kinds |= pending
        pending = set()
    # non-trivial: at least one evaluation after a real change of value, at a non-trivial state
    # (parameter-free models: a non-trivial evaluation before and after)
    res.nontrivial = changed_and_checked >= 1 and (model not in PARAM_FREE or nt0)
    res.labels = (model, labels0[1], "rounds:%d" % len(rounds)) + tuple("mode:" + x for x in sorted(modes)) + tuple("updated:" + x for x in sorted(kinds)) + (
        ("nontrivial",) if res.nontrivial else ("trivial",))
    return res


def _mg94_effects(c, res, Qs, pis, n, k):
    ndiff, ts, syn = _classes(c["code"])
    one = ndiff == 1
    off = ~np.eye(k, dtype=bool)
    which = {"kappa": (0, one & ts), "alpha": (1, one & syn), "beta": (2, one & ~syn)}
    agree = True
    for i in range(n):
        Qo, _ = rm.q_unnormalised("MG94", **oracle_params(c, i))
        if _relerr(Qs[i], Qo) > TOL_Q:
            agree = False
    res.labels = tuple(res.labels) + (("mg94_builder_agrees" if agree else "mg94_builder_differs"),)
    for name, (col, mask) in which.items():
        c1 = dict(c)
        c1["rates"] = [[(1.0 if jj == col else v) for jj, v in enumerate(r)] for r in c["rates"]]
        m1, _ = tt.build(spec_of(c1))
        Q1 = _slices(arr(m1.q()), n, (k, k))
        if Q1 is None:
            return res.fail("q_shape", {"what": "%s set to 1" % name})
        for i in range(n):
            val = c["rates"][i][col]
            E = Qs[i] / pis[i][None, :]
            E1 = Q1[i] / pis[i][None, :]
            expect = np.where(mask, val, 1.0) * E1
            bad = off & ~(np.abs(E - expect) <= TOL_Q * np.abs(expect))
            if np.any(bad):
                a, b = [int(x[0]) for x in np.nonzero(bad)]
                st_ = rm.codon_states(c["code"])
                return res.fail(
                    "mg94_parameter_effect",
                    {"slice": i, "parameter": name, "value": val, "pair": [st_[a], st_[b]], "ratio": float(E[a, b] / E1[a, b]) if E1[a, b] != 0 else None,
                     "expected_ratio": float(val if mask[a, b] else 1.0), "pairs_wrong": int(bad.sum())},
                    parameter=name,
                )
    return None


_CLS = {}


def _classes(code):
    if code not in _CLS:
        _CLS[code] = rm.codon_pair_classes(code)
    return _CLS[code]


EPS32 = 1.1920928955078125e-07
_TDT = {"float32": torch.float32, "float64": torch.float64}


def body_jc(c):
    """GeneralJC69 / JC69 with the library in either default dtype and branch lengths in either
    dtype: clauses (a)-(e); tolerances are stated relative to the precision of the branch lengths'
    dtype (float64: the property's 1e-10 / 1e-12; float32: 64 eps32 = 7.6e-6 / 8 eps32)"""
    model = c["model"]
    k = c.get("k", 4)
    tdt = _TDT[c["tdtype"]]
    f64t = c["tdtype"] == "float64"
    tol = TOL_P if f64t else 64 * EPS32
    tol0 = 1e-12 if f64t else 8 * EPS32
    shape = tuple(c["tdims"])
    pow2 = (k & (k - 1)) == 0
    tags = {"model": model, "states": k, "default_dtype": c["default"], "t_dtype": c["tdtype"], "power_of_two": pow2, "tdims": len(shape)}
    tvals32 = np.asarray(c["t"], dtype=np.float64 if f64t else np.float32)
    tvals = tvals32.astype(np.float64).reshape(shape)  # exactly the numbers handed to p_t
    nontrivial = bool(np.any(tvals > 0))
    key = (model, k, c["default"], c["tdtype"], c["tdims"], _sig(c["t"]))
    res = Res(nontrivial=nontrivial, key=key,
              labels=(model, "default:" + c["default"], "t:" + c["tdtype"], "tdims:%d" % len(shape), "n-power-of-two" if pow2 else "n-not-power-of-two",
                      "nontrivial" if nontrivial else "trivial:all-t-zero"), tags=tags)
    tt.load_all()
    old = torch.get_default_dtype()
    try:
        torch.set_default_dtype(_TDT[c["default"]])
        m, _ = tt.build({"id": "m", "type": "JC69"} if model == "JC69" else {"id": "m", "type": "GeneralJC69", "state_count": k})
        tin = torch.tensor(tvals32.reshape(shape), dtype=tdt)
        P = arr(m.p_t(tin))
        s1, s2 = (float(x) for x in np.asarray(c["s"], dtype=np.float64 if f64t else np.float32))
        tri = torch.tensor([[s1], [s2], [s1 + s2]], dtype=tdt)
        s3 = float(tri[2, 0])
        Ptri = arr(m.p_t(tri))
        Qm = arr(m.q())
        qf64 = m.q().dtype == torch.float64
        pim = arr(m.frequencies)
        pf64 = m.frequencies.dtype == torch.float64
    finally:
        torch.set_default_dtype(old)
    # ---- (a), (b): rate matrix and frequencies, to the precision of their own dtype
    Qdoc, pidoc = rm.q_unnormalised("GeneralJC69", state_count=k)
    Qn = rm.normalise(Qdoc, pidoc)
    if Qm.shape != (k, k) or pim.shape != (k,):
        return res.fail("q_shape", {"q": list(Qm.shape), "frequencies": list(pim.shape), "states": k})
    if _relerr(pim, pidoc) > (1e-14 if pf64 else 2 * EPS32):
        return res.fail("frequencies", {"frequencies": _mat(pim), "expected": 1.0 / k})
    tq = TOL_Q if qf64 else 8 * EPS32
    off = ~np.eye(k, dtype=bool)
    if np.any(Qm[off] < 0) or np.max(np.abs(Qm.sum(axis=1)) / np.abs(np.diagonal(Qm))) > (1e-12 if qf64 else k * EPS32):
        return res.fail("q_rowsum", {"q": _mat(Qm)})
    if _relerr(rm.normalise(Qm, pidoc), Qn) > tq:
        return res.fail("q_documented", {"q": _mat(Qm), "expected_normalised": _mat(Qn)})
    # ---- (c)-(e) on every matrix
    if tuple(P.shape) != shape + (k, k):
        return res.fail("p_shape", {"p": list(P.shape), "expected": list(shape + (k, k))})
    if Ptri.shape != (3, 1, k, k):
        return res.fail("p_shape", {"p": list(Ptri.shape), "what": "semigroup triple"})
    if not (np.all(np.isfinite(P)) and np.all(np.isfinite(Ptri))):
        return res.fail("nonfinite_p", {})
    mats = [(P[idx], float(tvals[idx]), None) for idx in np.ndindex(*shape)] + [(Ptri[j, 0], tv, "semigroup triple") for j, tv in enumerate((s1, s2, s3))]
    cache = {}
    for Pm, t, what in mats:
        d = {"t": t, "states": k, "tolerance": tol}
        if what:
            d["what"] = what
        if t not in cache:
            cache[t] = rm.p_t(Qn, t)
        ref = cache[t]
        err = maxabs(Pm, ref)
        if not err <= tol:
            return res.fail("mismatch", dict(d, err=err, p_diag=float(Pm[0, 0]), expected_diag=float(ref[0, 0]), p_off=float(Pm[0, 1]), expected_off=float(ref[0, 1])))
        rs = float(np.max(np.abs(Pm.sum(axis=1) - 1.0)))
        if rs > tol or np.min(Pm) < -tol:
            return res.fail("not_stochastic", dict(d, worst_rowsum_error=rs, min=float(np.min(Pm))))
        if t == 0.0 and maxabs(Pm, np.eye(k)) > tol0:
            return res.fail("p0_not_identity", dict(d, err=maxabs(Pm, np.eye(k)), tolerance=tol0))
        for pi_ in (pidoc, pim):
            if np.max(np.abs(pi_ @ Pm - pi_)) > tol:
                return res.fail("not_stationary", dict(d, err=float(np.max(np.abs(pi_ @ Pm - pi_)))))
        F = pidoc[:, None] * Pm
        if np.max(np.abs(F - F.T)) > tol:
            return res.fail("detailed_balance", dict(d, err=float(np.max(np.abs(F - F.T)))))
    e3 = maxabs(Ptri[0, 0] @ Ptri[1, 0], Ptri[2, 0])
    if not e3 <= 10 * tol:
        return res.fail("semigroup", {"s": s1, "u": s2, "err": e3, "tolerance": 10 * tol, "states": k})
    return res


def body_unit(c):
    """the repository's own assertion on MG94 (test_MG94), for every genetic code: with
    kappa = alpha = beta = 1 and uniform frequencies every off-diagonal rate equals 1/n"""
    k = c["k"]
    cc = {"model": "MG94", "code": c["code"], "k": k, "ss": [], "fbatch": False, "rates": [[1.0, 1.0, 1.0]], "freqs": [[1.0 / k] * k]}
    m, _ = tt.build(spec_of(cc))
    Q = arr(m.q())
    res = Res(nontrivial=False, key=("unit", c["code"]), labels=("MG94-unit", "trivial:unit-rates-uniform-frequencies"), tags={"model": "MG94", "code": c["code"], "unit": True})
    if Q.shape != (k, k):
        return res.fail("q_shape", {"q": list(Q.shape), "states": k})
    expect = np.full((k, k), 1.0 / k)
    np.fill_diagonal(expect, -(k - 1.0) / k)
    if _relerr(Q, expect) > 1e-12:
        return res.fail("mg94_unit_rates", {"states": k, "max_abs_err": maxabs(Q, expect)})
    if len(rm.codon_states(c["code"])) != k or arr(m.frequencies).shape != (k,):
        return res.fail("state_count", {"states": k})
    return res


def audit_enum(tier):
    return [{"audit": "LG"}, {"audit": "MG94", "code": "Universal"}, {"audit": "MG94", "code": "Vertebrate Mitochondrial"}]


def body_audit(c):
    """thorough tier only: scipy expm on 20 x 20 and 61 x 61 reversible generators against the
    multiple-precision symmetric eigen-decomposition; a difference is a harness error"""
    if c["audit"] == "LG":
        m, _ = tt.build({"id": "m", "type": AA + "LG"})
        pi = arr(m.frequencies)
        Qn = rm.from_q(arr(m.q()), pi)
    else:
        k = len(rm.codon_states(c["code"]))
        w = np.exp(3.0 * np.sin(1.0 + 0.7 * np.arange(k)))
        pi = w / w.sum()
        Qn, pi = rm.q_normalised("MG94", kappa=7.0, alpha=0.02, beta=30.0, frequencies=pi, genetic_code=c["code"])
    for t in (1e-3, 0.5, 40.0):
        e = maxabs(rm.p_t(Qn, t), rm.p_t_reversible_mp(Qn, pi, t, dps=30))
        if not e <= 1e-12:
            raise AssertionError("oracle audit (%s, t=%g): scipy expm differs from mpmath by %g" % (c["audit"], t, e))
    return Res(nontrivial=False, key=("audit", c["audit"], c.get("code")), labels=("oracle-audit",), tags={"model": c["audit"]})


# --------------------------------------------------------------------------- calibration
def selftest():
    # literals of the repository's tests (R / BEAST derived): GTR and HKY at t = 0.1 and 0.001
    r = [0.060602, 0.402732, 0.028230, 0.047910, 0.407249, 0.053277]
    f = [0.479367, 0.172572, 0.140933, 0.207128]
    gtr = np.array([[0.93717830, 0.009506685, 0.047505899, 0.005809115], [0.02640748, 0.894078744, 0.006448058, 0.073065722],
                    [0.16158572, 0.007895626, 0.820605951, 0.009912704], [0.01344433, 0.060875872, 0.006744752, 0.918935042]])
    hky1 = np.array([[0.93211187, 0.01511617, 0.03462891, 0.01814305], [0.04198939, 0.89405292, 0.01234480, 0.05161289],
                     [0.11778615, 0.01511617, 0.84895463, 0.01814305], [0.04198939, 0.04300210, 0.01234480, 0.90266370]])
    hky2 = np.array([[0.9992649548, 0.0001581235, 0.0003871353, 0.0001897863], [0.0004392323, 0.9988625812, 0.0001291335, 0.0005690531],
                     [0.0013167952, 0.0001581235, 0.9983352949, 0.0001897863], [0.0004392323, 0.0004741156, 0.0001291335, 0.9989575186]])
    assert np.max(np.abs(rm.transition("GTR", 0.1, rates=r, frequencies=f) - gtr)) < 5e-8, "GTR literal"
    assert np.max(np.abs(rm.transition("HKY", 0.1, kappa=3.0, frequencies=f) - hky1)) < 5e-8, "HKY literal (0.1)"
    assert np.max(np.abs(rm.transition("HKY", 0.001, kappa=3.0, frequencies=f) - hky2)) < 5e-10, "HKY literal (0.001)"
    assert np.max(np.abs(rm.transition("GeneralSymmetric", 0.1, mapping=None, rates=r, frequencies=f) - gtr)) < 5e-8
    assert np.max(np.abs(rm.transition("GeneralNonSymmetric", 0.1, mapping=list(range(6)) * 2, rates=r, frequencies=f) - gtr)) < 5e-8
    # JC closed form
    for t in (0.0, 1e-3, 0.7, 30.0):
        a = 0.25 + 0.75 * math.exp(-4.0 * t / 3.0)
        assert abs(rm.transition("JC69", t)[0, 0] - a) < 1e-14 and abs(rm.transition("GeneralJC69", t, state_count=4)[1, 1] - a) < 1e-14
    # the repository's MG94 assertion, and the sizes of the 15 codes
    Q, _ = rm.q_unnormalised("MG94", kappa=1.0, alpha=1.0, beta=1.0, frequencies=[1 / 61.0] * 61, genetic_code="Universal")
    assert np.allclose(Q[0, 1:], 1 / 61.0) and np.allclose(np.diagonal(Q), -60 / 61.0)
    sizes = [len(rm.codon_states(cn)) for cn in rm.CODE_NAMES]
    assert sizes == [61, 60, 62, 62, 62, 62, 63, 62, 62, 61, 61, 62, 63, 62, 64], sizes
    nd, ts, syn = rm.codon_pair_classes("Universal")
    s = rm.codon_states("Universal")
    i, j, l = s.index("AAA"), s.index("AAG"), s.index("AAC")  # K-K transition, K-N transversion
    assert nd[i, j] == 1 and ts[i, j] and syn[i, j] and nd[i, l] == 1 and not ts[i, l] and not syn[i, l]
    assert nd[s.index("AAA"), s.index("CCA")] == 2
    # scipy expm against mpmath on extreme small generators
    pi = [0.9, 0.0999, 1e-4, 1e-6 + 0.0]
    pi = (np.array(pi) / np.sum(pi)).tolist()
    Qn, _ = rm.q_normalised("GTR", rates=[1e-4, 1e4, 3.0, 1e4, 1e-4, 0.5], frequencies=pi)
    for t in (1e-8, 3e-2, 1.0, 100.0):
        assert np.max(np.abs(rm.p_t(Qn, t) - rm.expm_mp(Qn * t))) < 1e-12, "scipy expm audit (GTR, t=%g)" % t
        assert np.max(np.abs(rm.p_t(Qn, t) - rm.p_t_reversible_mp(Qn, pi, t))) < 1e-12
    Qn, _ = rm.q_normalised("GeneralNonSymmetric", mapping=None, rates=[1e-4, 1e4, 3.0, 20.0, 1e-3, 0.5], frequencies=[0.7, 0.29, 0.01])
    for t in (1e-8, 3e-2, 1.0, 100.0):
        assert np.max(np.abs(rm.p_t(Qn, t) - rm.expm_mp(Qn * t))) < 1e-12, "scipy expm audit (non-symmetric, t=%g)" % t


# --------------------------------------------------------------------------- registration
def _pretags(c):
    t = {"model": c.get("model", c.get("audit"))}
    if "code" in c:
        t["code"] = c["code"]
    if "ss" in c:
        t["batch"] = "none" if not c["ss"] else ("full" if c["fbatch"] else "partial")
    if "tshape" in c:
        t["tshape"] = c["tshape"]
    if "ss" in c and "t" in c:
        t.update(bands(c))
    return t


def subchecks(tier):
    subs = [
        Sub("nucleotide", body, strategy=nucleotide_cases, quick=1200, thorough=30000, pretags=_pretags),
        Sub("general", body, strategy=general_cases, quick=1200, thorough=30000, pretags=_pretags),
        Sub("single_matrix", body, strategy=single_matrix_cases, quick=160, thorough=3000, pretags=_pretags),
        Sub("empirical", body, strategy=empirical_cases, quick=80, thorough=1200, pretags=_pretags),
        Sub("codon", body, strategy=codon_cases, quick=240, thorough=3000, pretags=_pretags),
        Sub("jc_dtypes", body_jc, strategy=jc_dtype_cases, quick=500, thorough=10000, pretags=_pretags),
        Sub("history", body_history, strategy=history_cases, quick=400, thorough=8000, pretags=_pretags),
        Sub("codes", body, enumerate=codes_enum, exhaustive=True, pretags=_pretags),
        Sub("unit", body, enumerate=unit_enum, exhaustive=True, pretags=_pretags),
    ]
    if tier == "thorough":
        subs.append(Sub("oracle_audit", body_audit, enumerate=audit_enum, exhaustive=True, pretags=_pretags))
    return subs
