#!/venv/bin/python
"""copy a confirmed seeded change into /verif/seeded/<name>/ with meta.json
   tools/seed_import.py NAME PROPERTY SRC_DIR INDEX 'needs' 'caught_by' ['first_result']"""
import json, os, shutil, sys
name, prop, src, idx, needs, caught = sys.argv[1:7]
first = sys.argv[7] if len(sys.argv) > 7 else ""
d = os.path.join("/verif/seeded", name)
os.makedirs(d, exist_ok=True)
shutil.copy(os.path.join(src, "change_%s.diff" % idx), os.path.join(d, "patch.diff"))
shutil.copy(os.path.join(src, "demo_%s.py" % idx), os.path.join(d, "demo.py"))
if os.path.exists(os.path.join(src, "note_%s.md" % idx)):
    shutil.copy(os.path.join(src, "note_%s.md" % idx), os.path.join(d, "note.md"))
meta = {
    "property": prop,
    "written_by": "fresh sub-agent given only the property text and a scratch worktree",
    "needs_to_manifest": needs,
    "confirmed": "tools/seed_eval.py: patch applies to /repo HEAD in a scratch worktree; repository tests 144/144 pass with it; demo.py exits 0 without and non-zero with the patch",
    "ran": "tools/seed_eval.py %s seeded/%s/patch.diff seeded/%s/demo.py --checks %s" % (name, name, name, ",".join(sorted(set(caught.replace(' ', '').split(','))))),
    "caught_by": [x for x in caught.replace(" ", "").split(",") if x],
    "history": first,
}
json.dump(meta, open(os.path.join(d, "meta.json"), "w"), indent=1)
print("imported", d)
