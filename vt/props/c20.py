"""C20 - smoothing / integrated priors and sufficient statistics match their densities.

Sub-checks
  gmrf                  GMRF() = Gaussian quadratic form of the matrix precision_matrix() publishes;
                        the published matrix has the documented structure; GMRF() = documented density
  gmrf_integrated       GMRFGammaIntegrated() = log int Gamma(tau) GMRF(x|tau) dtau   (mpmath, 30 digits)
  coalescent_integrated ConstantCoalescentIntegratedModel() = log int InvGamma(theta) Kingman(T|theta) dtheta
  suffstats             skyride / skygrid: -sum ss_j/theta_j - sum c_j log theta_j = log_prob
  block_update          the quantities GMRFPiecewiseCoalescentBlockUpdatingOperator takes from the
                        two models give the derivative / curvature of the densities the models report
  gmrf_history          one GMRF + GMRFGammaIntegrated sharing field / weights / tree: 2-3 rounds of updates
                        (field, precision, weights, tree heights or ratios / root height; assignment or
                        in-place + fire_parameter_changed), the published quantities taken in a drawn order
                        and subset, every relation re-asserted at the current values
  coalescent_history    one operator + coalescent + GMRF + integrated constant coalescent on one tree:
                        rounds of updates of log population sizes, precision, weights, node heights; the
                        statistics / density / gradient / curvature / matrix relations after every round
"""
import math

import numpy as np
import torch
from hypothesis import strategies as st

from vt import tt
from vt.cmp import arr
from vt.gen import coal as gc
from vt.gen.basic import fl, logu
from vt.oracle import gmrf as og
from vt.runner import HarnessError, Res, Sub, guarded

PROPERTY = "C20"
LEVEL = "exploration"
RULE = (
    "Hypothesis draws every case; all models are built from their JSON specification. gmrf / "
    "gmrf_integrated: variant in plain / weighted (weights log-uniform 1e-2..1e2, sometimes all 1) / "
    "time-aware on a generated TimeTreeModel (rescale absent / true / false), field length 2..50, values "
    "with a drawn scale and a drawn common offset (0, 3, -100, 1000), precision log-uniform 1e-4..1e4, gamma "
    "shape and rate log-uniform 1e-3..1e2, batch [] or [B] (B 1..4 or = field length; precision and node "
    "heights batched or not). Trees: valid genealogies by construction (2..51 tips, isochronous or serial "
    "sampling on a coarse grid so that ties are common, k >= 2 before every coalescence, random joins, "
    "internal heights in torchtree's post-order node numbering; the time unit of every tree is drawn: all times "
    "multiplied by 2**k, k = 0 half of the time, else uniform in -30..20, i.e. 1e-9..1e6 log-uniformly, exact in "
    "floating point so order and ties are preserved; grids, root heights and height updates are drawn in the "
    "tree's unit), batched heights = the same topology with "
    "coalescent times scaled by factors >= 1. suffstats / block_update: skyride and skygrid from the "
    "times/events form or a TimeTreeModel, thetas log-uniform 1e-2..1e3, explicit grids with points before "
    "the first coalescence and beyond the root, or a cutoff (regular grid); a grid point never equals a "
    "coalescent time. Non-trivial: gmrf* = field length >= 3 with a non-constant field; coalescent_integrated "
    "= n >= 3; suffstats / block_update = n >= 3 and (heterochronous or a grid point strictly inside the "
    "tree). Distinct = variant/class, sizes, batch shape, options and the rounded numeric content. "
    "Histories (gmrf_history, coalescent_history): the same generators plus 2-3 rounds of 1-2 updates each "
    "(parameter drawn among field / precision / weights / internal heights (scaled by factors >= 1, so the tree "
    "stays valid) / ratios in [0.05,0.95] / root height above the oldest tip / log population sizes; route drawn "
    "among assignment of .tensor and in-place change + fire_parameter_changed); which published quantities are "
    "read after a round and in which order is drawn too (the last round reads all); distinct additionally by the "
    "sequence of (parameter, route)."
)
ASSUMPTIONS = [
    "tolerance 1e-9 relative (floor 1); for quantities formed with the published matrix (x'Qx, Q x) the "
    "tolerance is widened by 8 eps * sum|Q_ij x_i x_j| (conditioning of the form under a common offset of "
    "the field, computed in 40-digit arithmetic)",
    "the weighted / time-aware normalising constant is the one the property states ((n-1)/2 log tau, no "
    "-1/2 sum log w term)",
    "exact ties between a coalescent time and a grid point are never generated (N(t) at a jump is a "
    "convention, DESIGN section 6); ties among sampling times and between sampling times and grid points are",
    "partial batching other than (theta batched, heights fixed), (field batched, precision / heights "
    "fixed) is C10's subject and not generated; the times/events JSON form only accepts unbatched times",
    "quadrature: mpmath tanh-sinh at 30 digits with break points around the mode; its own error estimate "
    "must be < 1e-12 (else harness error); the closed forms are used only in selftest to audit the quadrature",
    "block_update: relations between the quantities the operator consumes and the densities "
    "(gradient, curvature, matrix after a precision update); the Metropolis-Hastings ratio itself is C15's; "
    "skygrid is exercised unbatched there (batched skygrid statistics are covered by suffstats)",
    "sampling dates are given as ages (min 0); calendar dates are C02/C06's subject",
    "gmrf: every case is evaluated three times on the same object (fresh; after a notification that forces the "
    "density to be recomputed at the same values; after a field assignment) with the relations asserted each time, "
    "and the weights Parameter of a weighted GMRF must stay bit-identical to what was given after every read "
    "(kind input_modified:weights; weights are given in the dtype of the field)",
    "an exception raised by torch.autograd on a graph that torchtree built (block_update / coalescent_history take "
    "the derivative of the reported densities) is a failure of the case (kind backward_raises:*), not a harness error",
    "time unit of the trees 2**-30..2**20: the oracle is evaluated at the same unit from the same doubles; interval "
    "lengths are the same floating-point subtractions on both sides and every compared quantity is a sum of terms of "
    "one sign (or is compared with its conditioning term), so the 1e-9 relative tolerance is unit-free; the "
    "curvature diagonal ss*exp(-gamma) is compared relative to its own largest entry rather than to 1",
    "histories: ratio-parameterised trees use the documented ratio -> height map (bound + ratio * (parent - bound)), "
    "re-implemented in vt/gen/coal.py and compared with torchtree on 200 trees while building the check; rounds in "
    "which three sorted heights come within 1e-6 of the root height of each other (a smoothing weight that is "
    "zero or dominated by rounding; reachable with equal ratios in sibling clades) read the quantities but "
    "assert nothing; counted under the label round-with-coincident-heights-not-asserted",
    "histories: in coalescent_history the log population sizes are built with requires_grad (autograd of the "
    "reported densities is the reference for the operator's gradient); toggling the flag would itself notify the "
    "listeners and hide stale caches",
]

EPS = 2.220446049250313e-16
TOL = 1e-9


def close(got, ref, extra=0.0):
    got = float(got)
    ref = float(ref)
    if not (math.isfinite(got) and math.isfinite(ref)):
        return False
    return abs(got - ref) <= TOL * max(1.0, abs(ref)) + extra


def rnd(v, nd=6):
    if isinstance(v, (list, tuple)):
        return [rnd(x, nd) for x in v]
    if isinstance(v, float):
        return float("%.*g" % (nd, v))
    return v


def band(n):
    return "n2" if n == 2 else ("n3-6" if n <= 6 else ("n7-20" if n <= 20 else "n21-50"))


# =========================================================================== generators
def sizes(lo, hi):
    return st.one_of(st.integers(lo, min(hi, 7)), st.integers(lo, hi))


def batches(n):
    return st.sampled_from([None, None, None, 1, 2, 3, n if n <= 6 else 4])


@st.composite
def fields(draw, n, rows):
    scale = draw(st.sampled_from([1e-2, 1.0, 1.0, 10.0]))
    offset = draw(st.sampled_from([0.0, 0.0, 0.0, 3.0, -100.0, 1000.0]))
    return [[offset + scale * draw(fl(-1.0, 1.0)) for _ in range(n)] for _ in range(rows)]


@st.composite
def height_rows(draw, g, rows):
    """batched internal heights: same topology, coalescent times scaled by factors >= 1 (valid:
    every node stays above its children and above the tips)"""
    out = [list(g["coal"])]
    for _ in range(rows - 1):
        s = draw(st.sampled_from([1.0, 1.25, 2.0, 3.5])) * draw(fl(1.0, 1.1))
        out.append([c * s for c in g["coal"]])
    return out


@st.composite
def gmrf_cases(draw, integrated=False):
    variant = draw(st.sampled_from(["plain", "weighted", "time_aware", "time_aware"]))
    c = {"variant": variant}
    if variant == "time_aware":
        g = draw(st.one_of(gc.genealogies_scaled(3, 8), gc.genealogies_scaled(3, 51)))
        n = g["n"] - 1
        c["g"] = g
        c["rescale"] = draw(st.sampled_from([None, True, False]))
    else:
        n = draw(sizes(2, 50))
    B = draw(batches(n))
    rows = B or 1
    c["n"] = n
    c["B"] = B
    c["x"] = draw(fields(n, rows))
    if variant == "weighted":
        if draw(st.integers(0, 7)) == 0:
            c["weights"] = [1.0] * (n - 1)
        else:
            c["weights"] = [draw(logu(1e-2, 1e2)) for _ in range(n - 1)]
    if variant == "time_aware" and B is not None and draw(st.booleans()):
        c["heights_rows"] = draw(height_rows(c["g"], rows))
    if integrated:
        c["shape"] = draw(logu(1e-3, 1e2))
        c["rate"] = draw(logu(1e-3, 1e2))
    else:
        c["tau_batched"] = bool(B is not None and draw(st.booleans()))
        c["tau"] = [draw(logu(1e-4, 1e4)) for _ in range(rows if c["tau_batched"] else 1)]
    return c


def gmrf_spec(c, type_="GMRF"):
    B = c["B"]
    spec = {"id": "gmrf", "type": type_, "x": tt.P("field", c["x"] if B is not None else c["x"][0])}
    if type_ == "GMRF":
        spec["precision"] = tt.P("gmrf.precision", [[t] for t in c["tau"]] if c["tau_batched"] else [c["tau"][0]])
    else:
        spec["shape"] = c["shape"]
        spec["rate"] = c["rate"]
    if c["variant"] == "weighted":
        spec["weights"] = tt.P("weights", c["weights"])
    elif c["variant"] == "time_aware":
        spec["tree_model"] = gc.time_tree_spec(c["g"], c.get("heights_rows"))
        if c["rescale"] is not None:
            spec["rescale"] = c["rescale"]
    return spec


def gmrf_row_weights(c, r):
    """documented w_i of row r"""
    n = c["n"]
    if c["variant"] == "time_aware":
        hr = c.get("heights_rows")
        heights = hr[r] if hr is not None else c["g"]["coal"]
        return og.gmrf_weights(n, "time_aware", internal_heights=heights, rescale=c["rescale"] is not False)
    return og.gmrf_weights(n, c["variant"], weights=c.get("weights"))


def check_tree(model, g):
    """harness sanity: the generated tree must be a valid time tree in torchtree's own numbering"""
    bl = arr(model.branch_lengths())
    if not np.all(bl >= 0):
        raise HarnessError("generator produced an invalid time tree: %s" % g)


def gmrf_res(c, cls, ws):
    n = c["n"]
    unit = bool(all(np.all(w == 1.0) for w in ws))
    nonconst = any(len(set(row)) > 1 for row in c["x"])
    res = Res(
        nontrivial=n >= 3 and nonconst,
        key=(cls, c["variant"], n, c["B"], c.get("rescale"), c.get("tau_batched"), "heights_rows" in c,
             rnd(c["x"][0][:6]), rnd(c.get("tau", [c.get("shape"), c.get("rate")])), rnd((c.get("weights") or [])[:4]),
             rnd(c["g"]["coal"][:4]) if "g" in c else None, c["g"].get("tscale") if "g" in c else None),
        labels=(c["variant"], band(n), "batch[]" if c["B"] is None else "batch[B]",
                "rescale=%s" % c.get("rescale") if c["variant"] == "time_aware" else "no-tree",
                "hetero" if ("g" in c and any(s > 0 for s in c["g"]["samp"])) else "iso/none",
                "offset" if abs(c["x"][0][0]) > 50 else "centered") + ((gc.tscale_band(c["g"]),) if "g" in c else ()),
        tags={"cls": cls, "gmrf": cls, "variant": c["variant"], "unit_weights": unit, "batched": c["B"] is not None,
              "bucket": "%s/%s" % (cls, c["variant"])},
    )
    return res


def check_inputs_untouched(res, dic, c, where):
    """the parameters handed to the models still hold, bit for bit, the values that were given
    (weights of a weighted GMRF: a model that normalises / inverts its inputs in place changes what
    every later evaluation and every other consumer of the same Parameter sees)"""
    if c.get("variant") == "weighted" and "weights" in dic:
        now = arr(dic["weights"].tensor)
        given = np.asarray(c["weights"], dtype=float)
        if now.shape != given.shape or not np.array_equal(now, given):
            res.fail("input_modified:weights", {"after": where, "given": given[:6].tolist(), "now": now.reshape(-1)[:6].tolist()})
            return False
    return True


def grad_or_fail(res, value, wrt, what):
    """autograd of a density torchtree reported, w.r.t. a parameter tensor. The graph was built by
    torchtree: if backward cannot run through it (e.g. an input was modified in place after the
    forward pass) that is a failure of the case, not of the harness."""
    try:
        (g,) = torch.autograd.grad(value.sum(), wrt, retain_graph=True)
        return g
    except RuntimeError as e:
        res.fail("backward_raises:%s" % what, {"message": str(e)[:300]})
        return None


# =========================================================================== gmrf
def body_gmrf(c):
    n, B = c["n"], c["B"]
    rows = B or 1
    model, dic = tt.build(gmrf_spec(c))
    if c["variant"] == "time_aware":
        check_tree(model.tree_model, c["g"])
    ws = [gmrf_row_weights(c, r) for r in range(rows)]
    res = gmrf_res(c, "GMRF", ws)
    rel_gmrf(res, model, c, ws)
    check_inputs_untouched(res, dic, c, "first evaluation and precision_matrix()")
    # second evaluation of the same object at the same values (the listeners are notified, so
    # the density is recomputed), then at a new field: the relations hold every time
    k0 = len(res.fails)
    dic["field"].fire_parameter_changed()
    rel_gmrf(res, model, c, ws, observe=("matrix", "density"))
    check_inputs_untouched(res, dic, c, "second evaluation")
    annotate(res, k0, 1, [{"what": "field", "how": "notify"}])
    k0 = len(res.fails)
    c2 = dict(c, x=[[0.5 * v + 0.25 * (i % 3) for i, v in enumerate(row)] for row in c["x"]])
    dic["field"].tensor = tt.T(c2["x"] if B is not None else c2["x"][0])
    rel_gmrf(res, model, c2, ws)
    check_inputs_untouched(res, dic, c, "evaluation after a field update")
    annotate(res, k0, 2, [{"what": "field", "how": "assign"}])
    return res


def rel_gmrf(res, model, c, ws, observe=("density", "matrix"), oracle_ok=True):
    """the GMRF relations at the current values described by c (x, tau, weights / heights);
    `observe` = which of the two published quantities are taken, in which order"""
    n, B = c["n"], c["B"]
    rows = B or 1
    val = Q = None
    for what in observe:
        if what == "density":
            val = arr(model())
        elif what == "matrix":
            Q = arr(model.precision_matrix())
    bshape = () if B is None else (B,)
    if val is not None and (val.size != rows or val.shape[-1:] != (1,)):
        return res.fail("shape", {"value_shape": list(val.shape), "expected": list(bshape + (1,))})
    if Q is not None and Q.shape != bshape + (n, n):
        return res.fail("pubQ_shape", {"shape": list(Q.shape), "expected": list(bshape + (n, n))})
    if val is not None:
        val = val.reshape(rows)
    if Q is not None:
        Q = Q.reshape(rows, n, n)
    for r in range(rows):
        x = c["x"][r]
        tau = c["tau"][r if c["tau_batched"] else 0]
        w = ws[r]
        d = {"row": r, "tau": tau}
        if val is not None:
            d["value"] = float(val[r])
        if (val is not None and not np.isfinite(val[r])) or (Q is not None and not np.all(np.isfinite(Q[r]))):
            res.fail("nonfinite", d)
            continue
        # (1) the density is the documented one
        if val is not None and oracle_ok:
            ref = og.gmrf_logpdf(x, tau, w)
            if not close(val[r], ref):
                res.fail("definition", dict(d, expected=ref))
        # (2) the density is the Gaussian form of the matrix the model publishes
        if val is not None and Q is not None:
            qref, mag = og.quadform_logpdf(x, Q[r], tau)
            if not close(val[r], qref, 8 * EPS * mag):
                res.fail("pubQ_values:density", dict(d, from_published_matrix=qref, weights=w[:6].tolist()))
        if Q is None:
            continue
        # (3) documented structure of the published matrix
        q = Q[r]
        scale = np.max(np.abs(q))
        band_mask = np.abs(np.subtract.outer(np.arange(n), np.arange(n))) <= 1
        bad = []
        if not np.array_equal(q, q.T):
            bad.append("not symmetric")
        if np.any(q[~band_mask] != 0.0):
            bad.append("not tridiagonal")
        if np.max(np.abs(q.sum(1))) > 1e-12 * scale:
            bad.append("rows do not sum to zero")
        if np.any(np.diag(q, 1) >= 0) or np.any(np.diag(q) <= 0):
            bad.append("sign pattern")
        if bad:
            res.fail("pubQ_structure", dict(d, problems=bad, Q=q[:4, :4].tolist()))
        if not oracle_ok:
            continue
        expect = tau * og.gmrf_structure(w)
        err = np.max(np.abs(q - expect) / np.maximum(np.abs(expect), 1e-300 + 1e-13 * np.max(np.abs(expect))))
        if not err <= TOL:
            res.fail("pubQ_values:entries", dict(d, relerr=float(err), published=q[:3, :3].tolist(), documented=expect[:3, :3].tolist(), weights=w[:6].tolist()))
    return res


# =========================================================================== integrated GMRF
def quad_checked(v_err, what):
    v, err = v_err
    if not err < 1e-12:
        raise HarnessError("quadrature not converged (%s): rel. error estimate %g" % (what, err))
    return v


def body_gmrf_integrated(c):
    n, B = c["n"], c["B"]
    rows = B or 1
    model, dic = tt.build(gmrf_spec(c, "GMRFGammaIntegrated"))
    if c["variant"] == "time_aware":
        check_tree(model.tree_model, c["g"])
    ws = [gmrf_row_weights(c, r) for r in range(rows)]
    res = gmrf_res(c, "GMRFGammaIntegrated", ws)
    rel_gmrf_integrated(res, model, c, ws)
    check_inputs_untouched(res, dic, c, "evaluation")
    return res


def rel_gmrf_integrated(res, model, c, ws):
    B = c["B"]
    rows = B or 1
    val = arr(model())
    bshape = () if B is None else (B,)
    if val.size != rows or val.shape[-1:] != (1,):
        return res.fail("shape", {"value_shape": list(val.shape), "expected": list(bshape + (1,))})
    val = val.reshape(rows)
    for r in range(rows):
        ref = quad_checked(og.gmrf_gamma_integrated_quad(c["x"][r], ws[r], c["shape"], c["rate"]), "gmrf")
        d = {"row": r, "value": float(val[r]), "quadrature": ref, "shape": c["shape"], "rate": c["rate"]}
        if not np.isfinite(val[r]):
            res.fail("nonfinite", d)
        elif not close(val[r], ref):
            res.fail("mismatch", d)
    return res


# =========================================================================== integrated coalescent
@st.composite
def coalint_cases(draw):
    g = draw(st.one_of(gc.genealogies_scaled(2, 8), gc.genealogies_scaled(2, 50)))
    B = draw(batches(g["n"]))
    c = {"g": g, "B": B, "alpha": draw(logu(1e-3, 1e2)), "beta": draw(logu(1e-3, 1e2))}
    c["heights_rows"] = draw(height_rows(g, B)) if B is not None else None
    return c


def body_coalint(c):
    g, B = c["g"], c["B"]
    rows = B or 1
    spec = {
        "id": "coalescent",
        "type": "ConstantCoalescentIntegratedModel",
        "alpha": c["alpha"],
        "beta": c["beta"],
        "tree_model": gc.time_tree_spec(g, c["heights_rows"]),
    }
    model, dic = tt.build(spec)
    check_tree(model.tree_model, g)
    hetero = any(s > 0 for s in g["samp"])
    res = Res(
        nontrivial=g["n"] >= 3,
        key=("coalint", g["n"], B, rnd(c["alpha"]), rnd(c["beta"]), rnd(g["samp"][:6]), rnd(g["coal"][:6])),
        labels=(band(g["n"] - 1 if g["n"] > 2 else 2), "hetero" if hetero else "iso", "batch[]" if B is None else "batch[B]",
                gc.tscale_band(g)),
        tags={"cls": "ConstantCoalescentIntegratedModel", "batched": B is not None, "hetero": hetero},
    )
    return rel_coalint(res, model, c)


def rel_coalint(res, model, c):
    """c: g (sampling times), B, heights_rows (current coalescent times per row, or None: g['coal']), alpha, beta"""
    g, B = c["g"], c["B"]
    rows = B or 1
    val = arr(model())
    bshape = () if B is None else (B,)
    if val.size != rows or val.shape[-1:] != (1,):
        return res.fail("shape", {"value_shape": list(val.shape), "expected": list(bshape + (1,))})
    val = val.reshape(rows)
    # the route through the distribution object (what log_prob reports) must be the same number
    lp = arr(model.distribution().log_prob(model.tree_model.node_heights)).reshape(-1)
    for r in range(rows):
        coal = c["heights_rows"][r] if B is not None else g["coal"]
        ref = quad_checked(og.constant_integrated_quad(g["samp"], coal, c["alpha"], c["beta"]), "coalescent")
        d = {"row": r, "value": float(val[r]), "quadrature": ref, "alpha": c["alpha"], "beta": c["beta"]}
        if not np.isfinite(val[r]):
            res.fail("nonfinite", d)
        elif not close(val[r], ref):
            res.fail("mismatch", d)
        if lp.size != rows or lp[r] != val[r]:
            res.fail("model_vs_log_prob", dict(d, log_prob=lp.tolist()))
    return res


# =========================================================================== sufficient statistics
def thetas(draw, m, rows):
    return [[draw(logu(1e-2, 1e3)) for _ in range(m)] for _ in range(rows)]


@st.composite
def piecewise_part(draw, allow_batched_heights=True, batched_grid_model=True, min_n=2):
    """the coalescent half of a case: kind, form, genealogy, batch, grid"""
    kind = draw(st.sampled_from(["skyride", "skygrid"]))
    g = draw(st.one_of(gc.genealogies_scaled(min_n, 8), gc.genealogies_scaled(min_n, 51)))
    n = g["n"]
    m = n - 1 if kind == "skyride" else draw(sizes(2, 50))
    B = draw(batches(m))
    if kind == "skygrid" and not batched_grid_model:
        B = None
    form = draw(st.sampled_from(["times", "tree"]))
    c = {"kind": kind, "g": g, "m": m, "B": B, "form": form}
    rows = B or 1
    c["heights_rows"] = None
    if B is not None and form == "tree" and allow_batched_heights and draw(st.booleans()):
        c["heights_rows"] = draw(height_rows(g, rows))
    if kind == "skygrid":
        c["grid"] = draw(gc.grids(c["heights_rows"] or [g["coal"]], m, samp=g["samp"], tscale=g.get("tscale", 1.0)))
    return c


@st.composite
def suff_cases(draw):
    c = draw(piecewise_part())
    c["theta"] = thetas(draw, c["m"], c["B"] or 1)
    return c


CLS = {"skyride": "PiecewiseConstantCoalescentModel", "skygrid": "PiecewiseConstantCoalescentGridModel"}


def coalescent_spec(c, theta_spec):
    spec = {"id": "coalescent", "type": CLS[c["kind"]], "theta": theta_spec}
    if c["form"] == "tree":
        spec["tree_model"] = gc.time_tree_spec(c["g"], c["heights_rows"])
    else:
        spec["times"], spec["events"] = gc.times_events(c["g"])
    if c["kind"] == "skygrid":
        spec.update(c["grid"])
    return spec


def grid_points(c):
    if c["kind"] != "skygrid":
        return None
    if "grid" in c["grid"]:
        return list(c["grid"]["grid"])
    cut = c["grid"]["cutoff"]
    m = c["m"]
    return np.linspace(0.0, cut, m)[1:].tolist()  # documented: linspace(0, cutoff, m)[1:]


def piecewise_res(c, sub):
    g = c["g"]
    hetero = any(s > 0 for s in g["samp"])
    grid = grid_points(c)
    root = max(g["coal"])
    inside = grid is not None and any(0 < p < root for p in grid)
    labels = [c["kind"], c["form"], band(max(2, c["m"])), "hetero" if hetero else "iso", gc.tscale_band(g),
              "batch[]" if c["B"] is None else ("batch[B]+heights" if c["heights_rows"] else "batch[B]")]
    if grid is not None:
        labels.append("cutoff" if "cutoff" in c["grid"] else "grid")
        if any(p > root for p in grid):
            labels.append("grid-beyond-root")
        if any(p < min(g["coal"]) for p in grid):
            labels.append("grid-before-first-coalescence")
        if any(p in g["samp"] for p in grid):
            labels.append("grid=sampling-time")
    return Res(
        nontrivial=g["n"] >= 3 and (hetero or inside),
        key=(sub, c["kind"], c["form"], g["n"], c["m"], c["B"], bool(c["heights_rows"]), rnd(g["samp"][:6]), rnd(g["coal"][:6]),
             rnd((grid or [])[:4]), rnd(c.get("theta", c.get("gamma"))[0][:4])),
        labels=tuple(labels),
        tags={"cls": CLS[c["kind"]], "form": c["form"], "batched": c["B"] is not None,
              "batched_heights": bool(c["heights_rows"]), "hetero": hetero},
    )


def stats_of_rows(c):
    """oracle statistics per row"""
    g = c["g"]
    rows = c["B"] or 1
    grid = grid_points(c)
    out = []
    for r in range(rows):
        coal = c["heights_rows"][r] if c["heights_rows"] else g["coal"]
        out.append((coal,) + og.piecewise_stats(c["kind"], g["samp"], coal, c["m"], grid))
    return out


def compare_stats(res, c, ss, cc, prefix=""):
    """published statistics against the documented grouping; returns (ss, cc) as [rows, m] or None"""
    rows, m, B = c["B"] or 1, c["m"], c["B"]
    bshape = () if B is None else (B,)
    if ss.shape != bshape + (m,) or cc.shape != bshape + (m,):
        res.fail(prefix + "ss_shape", {"ss_shape": list(ss.shape), "counts_shape": list(cc.shape), "expected": list(bshape + (m,)),
                                       "ss": ss.reshape(-1)[:12].tolist()})
        return None
    ss = ss.reshape(rows, m)
    cc = cc.reshape(rows, m)
    for r, (coal, sso, cco) in enumerate(stats_of_rows(c)):
        if not (np.all(np.isfinite(ss[r])) and np.all(np.isfinite(cc[r]))):
            res.fail(prefix + "nonfinite", {"row": r})
            continue
        tol = TOL * np.abs(sso) + 1e-13 * max(1e-300, np.max(np.abs(sso)))
        if np.any(np.abs(ss[r] - sso) > tol):
            res.fail(prefix + "ss_oracle", {"row": r, "published": ss[r][:8].tolist(), "documented": sso[:8].tolist()})
        if not np.array_equal(cc[r], cco):
            res.fail(prefix + "counts_oracle", {"row": r, "published": cc[r][:8].tolist(), "documented": cco[:8].tolist()})
    return ss, cc


def body_suff(c):
    g, B, m = c["g"], c["B"], c["m"]
    rows = B or 1
    theta = c["theta"]
    spec = coalescent_spec(c, tt.P("theta", theta if B is not None else theta[0]))
    model, dic = tt.build(spec)
    if c["form"] == "tree":
        check_tree(model.tree_model, g)
    res = piecewise_res(c, "suff")
    return rel_suff(res, model, c)


def rel_suff(res, model, c):
    """statistics / log_prob relations at the current values (theta, heights_rows or g['coal'])"""
    g, B, m = c["g"], c["B"], c["m"]
    rows = B or 1
    theta = c["theta"]
    lp = arr(model())
    bshape = () if B is None else (B,)
    if lp.size != rows or lp.shape[-1:] != (1,):
        return res.fail("shape", {"value_shape": list(lp.shape), "expected": list(bshape + (1,))})
    lp = lp.reshape(rows)
    # exactly what the block-update operator does
    (pub, exc) = guarded(lambda: model.distribution().sufficient_statistics(model.tree_model.node_heights))
    if exc is not None:
        return res.fail("ss_raises:%s" % type(exc).__name__, {"message": str(exc)[:300]})
    ss, cc = arr(pub[0]), arr(pub[1])
    grid = grid_points(c)
    for r in range(rows):
        coal = c["heights_rows"][r] if c["heights_rows"] else g["coal"]
        ref = og.piecewise_logp(c["kind"], g["samp"], coal, theta[r], grid)
        if not close(lp[r], ref):
            res.fail("density_oracle", {"row": r, "value": float(lp[r]), "kingman": ref})
    got = compare_stats(res, c, ss, cc)
    if got is None:
        return res
    ss, cc = got
    for r in range(rows):
        th = np.asarray(theta[r])
        terms = (-(ss[r] / th)).tolist() + (-(cc[r] * np.log(th))).tolist()
        rel = math.fsum(terms)
        if not close(rel, lp[r]):
            res.fail("relation", {"row": r, "from_statistics": rel, "log_prob": float(lp[r]), "ss": ss[r][:8].tolist(), "counts": cc[r][:8].tolist()})
    return res


# =========================================================================== block update
@st.composite
def block_cases(draw):
    c = draw(piecewise_part(batched_grid_model=False, min_n=3))
    m, rows = c["m"], c["B"] or 1
    c["gamma"] = [[draw(fl(-3.0, 6.0)) for _ in range(m)] for _ in range(rows)]
    if draw(st.booleans()):  # a common offset of the log population sizes
        off = draw(st.sampled_from([5.0, -2.0]))
        c["gamma"] = [[v * 0.1 + off for v in row] for row in c["gamma"]]
    variants = ["plain", "plain"]
    if m >= 2:
        variants.append("weighted")
        if c["kind"] == "skyride" and c["form"] == "tree":
            variants += ["time_aware", "time_aware"]
    c["variant"] = draw(st.sampled_from(variants)) if m >= 2 else "plain"
    if c["variant"] == "weighted":
        c["weights"] = [1.0] * (m - 1) if draw(st.integers(0, 7)) == 0 else [draw(logu(1e-2, 1e2)) for _ in range(m - 1)]
    if c["variant"] == "time_aware":
        c["rescale"] = draw(st.sampled_from([None, True, False]))
    c["tau"] = [draw(logu(1e-3, 1e3)) for _ in range(rows)]
    c["new_tau"] = [t * draw(st.sampled_from([0.5, 2.0])) * draw(fl(1.0, 1.0 + 1.0 / 3)) for t in c["tau"]]
    return c


def block_specs(c, requires_grad=False):
    B = c["B"]
    gam = c["gamma"] if B is not None else c["gamma"][0]
    tl = tt.P("theta.log", gam, requires_grad=True) if requires_grad else tt.P("theta.log", gam)
    theta = {"id": "theta", "type": "TransformedParameter", "transform": "torch.distributions.ExpTransform", "x": tl}
    coalescent = coalescent_spec(c, theta)
    gm = {"id": "gmrf", "type": "GMRF", "x": "theta.log",
          "precision": tt.P("gmrf.precision", [[t] for t in c["tau"]] if B is not None else [c["tau"][0]])}
    if c["variant"] == "weighted":
        gm["weights"] = tt.P("weights", c["weights"])
    elif c["variant"] == "time_aware":
        gm["tree_model"] = "tree"
        if c["rescale"] is not None:
            gm["rescale"] = c["rescale"]
    op = {"id": "op", "type": "GMRFPiecewiseCoalescentBlockUpdatingOperator", "coalescent": coalescent, "gmrf": gm, "weight": 1.0, "scaler": 2.0}
    return op


def block_row_weights(c, r):
    m = c["m"]
    if m < 2:
        return np.ones(0)
    if c["variant"] == "time_aware":
        heights = c["heights_rows"][r] if c["heights_rows"] else c["g"]["coal"]
        return og.gmrf_weights(m, "time_aware", internal_heights=heights, rescale=c["rescale"] is not False)
    return og.gmrf_weights(m, c["variant"], weights=c.get("weights"))


def vec_close(got, ref, cond, floor=1.0):
    got, ref, cond = np.asarray(got, float), np.asarray(ref, float), np.asarray(cond, float)
    if got.shape != ref.shape or not np.all(np.isfinite(got)):
        return False
    return bool(np.all(np.abs(got - ref) <= TOL * np.maximum(floor, np.abs(ref)) + 8 * EPS * cond))


def body_block(c):
    g, B, m = c["g"], c["B"], c["m"]
    rows = B or 1
    op, dic = tt.build(block_specs(c))
    if c["form"] == "tree":
        check_tree(op.coalescent.tree_model, g)
    res = piecewise_res(c, "block")
    ws = [block_row_weights(c, r) for r in range(rows)]
    unit = bool(all(np.all(w == 1.0) for w in ws))
    res.tags.update({"gmrf": "GMRF", "variant": c["variant"], "unit_weights": unit, "bucket": "%s+GMRF/%s" % (c["kind"], c["variant"])})
    res.labels = res.labels + ("gmrf:" + c["variant"],)
    rel_block(res, op, dic, c, ws)
    check_inputs_untouched(res, dic, c, "the operator's reads")
    return res


def rel_block(res, op, dic, c, ws, toggle_grad=True, precision_update=True):
    """relations between what the operator takes from the two models and the densities they
    report, at the current values described by c (gamma, tau, weights, heights)"""
    g, B, m = c["g"], c["B"], c["m"]
    rows = B or 1
    gmrf, coalescent = op.gmrf, op.coalescent
    field = dic["theta.log"]
    bshape = () if B is None else (B,)

    # ---- the quantities the operator takes from the two models (gmrf_block_updating.py, _step / __call__)
    gamma_t = gmrf.field.tensor
    pub = coalescent.distribution().sufficient_statistics(coalescent.tree_model.node_heights)
    ss_t, cc_t = pub
    Q_t = gmrf.precision_matrix()
    if arr(gamma_t).shape != bshape + (m,) or not np.array_equal(arr(gamma_t).reshape(rows, m), np.asarray(c["gamma"])):
        res.fail("field", {"field": arr(gamma_t).tolist()})
        return res
    got = compare_stats(res, c, arr(ss_t), arr(cc_t))
    if arr(Q_t).shape != bshape + (m, m):
        res.fail("pubQ_shape", {"shape": list(arr(Q_t).shape), "expected": list(bshape + (m, m))})
        return res
    if got is None:
        return res

    # ---- derivatives of the densities the models report (autograd of their own outputs)
    # (single-shot check: the flag is switched on and off here, which notifies the listeners;
    # histories build the parameter with requires_grad so that no notification is sent)
    if toggle_grad:
        field.requires_grad = True
    lp_g = gmrf()
    grad_g = grad_or_fail(res, lp_g, field.tensor, "gmrf")
    lp_c = coalescent()
    grad_c = grad_or_fail(res, lp_c, field.tensor, "coalescent")
    if toggle_grad:
        field.requires_grad = False
    grad_g = arr(grad_g).reshape(rows, m) if grad_g is not None else None
    grad_c = arr(grad_c).reshape(rows, m) if grad_c is not None else None

    gam = np.asarray(c["gamma"])
    ssn, ccn = got
    Qn = arr(Q_t).reshape(rows, m, m)
    zeros = torch.zeros(m)
    for r in range(rows):
        tau = c["tau"][r]
        Qo = tau * og.gmrf_structure(ws[r]) if m >= 2 else np.zeros((1, 1))
        _, sso, cco = stats_of_rows(c)[r]
        grow = gamma_t[r] if B is not None else gamma_t
        Qrow = Q_t[r] if B is not None else Q_t
        ssrow = ss_t[r] if B is not None else ss_t
        ccrow = cc_t[r] if B is not None else cc_t
        # field part of the operator's gradient: -(Q gamma)  ==  d GMRF / d gamma
        gq = arr(op.gradient(zeros, zeros, grow, Qrow))
        cond = np.abs(Qn[r]) @ np.abs(gam[r])
        ref = -(Qo @ gam[r])
        condo = np.abs(Qo) @ np.abs(gam[r])
        d = {"row": r, "tau": tau, "operator": gq[:6].tolist(), "weights": ws[r][:6].tolist()}
        if grad_g is not None and not vec_close(gq, grad_g[r], cond + condo):
            res.fail("pubQ_values:gradient_vs_density", dict(d, autograd_of_gmrf=grad_g[r][:6].tolist()))
        if not vec_close(gq, ref, cond + condo):
            res.fail("pubQ_values:gradient_oracle", dict(d, documented=ref[:6].tolist()))
        # coalescent part: -c + ss exp(-gamma)  ==  d coalescent / d gamma   (theta = exp(gamma))
        gs = arr(op.gradient(ccrow, ssrow, grow, torch.zeros(m, m)))
        refs = -cco + sso * np.exp(-gam[r])
        d = {"row": r, "operator": gs[:6].tolist()}
        if grad_c is not None and not vec_close(gs, grad_c[r], 0.0):
            res.fail("stats_gradient_vs_density", dict(d, autograd_of_coalescent=grad_c[r][:6].tolist()))
        if not vec_close(gs, refs, 0.0):
            res.fail("stats_gradient_oracle", dict(d, documented=refs[:6].tolist()))
        # full call = sum of the parts (linearity; the operator is used with all arguments at once)
        gf = arr(op.gradient(ccrow, ssrow, grow, Qrow))
        if not vec_close(gf, gq + gs, cond + np.abs(gs)):
            res.fail("gradient_sum", {"row": r, "full": gf[:6].tolist(), "parts": (gq + gs)[:6].tolist()})
        # curvature used for the Gaussian proposal: Q + diag(ss exp(-gamma)) = -Hessian
        J = arr(op.jacobian(torch.zeros(m), grow, Qrow))
        errj = np.max(np.abs(J - Qo) / np.maximum(np.abs(Qo), 1e-300 + 1e-13 * np.max(np.abs(Qo)))) if J.shape == Qo.shape else np.inf
        if not errj <= TOL:
            res.fail("pubQ_values:jacobian", {"row": r, "relerr": float(errj), "operator": J[:3, :3].tolist(), "documented": Qo[:3, :3].tolist()})
        Jd = arr(op.jacobian(ssrow, grow, torch.zeros(m, m)))
        dio = sso * np.exp(-gam[r])
        if Jd.shape != (m, m) or not vec_close(np.diag(Jd), dio, 0.0, floor=1e-6 * float(np.max(np.abs(dio))) + 1e-300) or np.any(Jd[~np.eye(m, dtype=bool)] != 0.0):
            res.fail("stats_jacobian", {"row": r, "operator_diagonal": np.diag(Jd)[:6].tolist() if Jd.ndim == 2 else None, "documented": dio[:6].tolist()})
        Jf = arr(op.jacobian(ssrow, grow, Qrow))
        if Jf.shape != (m, m) or not np.allclose(Jf, J + Jd, rtol=1e-12, atol=0.0):
            res.fail("jacobian_sum", {"row": r, "full": Jf[:3, :3].tolist() if Jf.ndim == 2 else None})

    if not precision_update:
        return res
    # ---- the operator assigns a proposed precision and takes the matrix again
    new = c["new_tau"]
    gmrf.precision.tensor = tt.T([[t] for t in new] if B is not None else [new[0]])
    Q2 = arr(gmrf.precision_matrix())
    lp2 = arr(gmrf()).reshape(-1)
    if Q2.shape != bshape + (m, m) or lp2.size != rows:
        res.fail("pubQ_shape", {"shape": list(Q2.shape), "after": "precision update"})
        return res
    Q2 = Q2.reshape(rows, m, m)
    for r in range(rows):
        ratio = new[r] / c["tau"][r]
        # scaled by the precision: the matrix follows the assignment linearly
        if not np.allclose(Q2[r], Qn[r] * ratio, rtol=1e-12, atol=0.0):
            res.fail("pubQ_structure:precision_update", {"row": r, "tau": c["tau"][r], "new_tau": new[r], "before": Qn[r][:2, :2].tolist(), "after": Q2[r][:2, :2].tolist()})
        qref, mag = og.quadform_logpdf(c["gamma"][r], Q2[r], new[r])
        if not close(lp2[r], qref, 8 * EPS * mag):
            res.fail("pubQ_values:density_after_update", {"row": r, "value": float(lp2[r]), "from_published_matrix": qref})
        refd = og.gmrf_logpdf(c["gamma"][r], new[r], ws[r]) if m >= 2 else 0.0
        if not close(lp2[r], refd):
            res.fail("definition_after_update", {"row": r, "value": float(lp2[r]), "expected": refd})
    return res


# =========================================================================== histories
# One set of objects per case; rounds of updates through the public interface (assignment of
# `.tensor`, or in-place modification followed by fire_parameter_changed), every relation
# re-asserted at the current values after each round.
HOWS = ["assign", "inplace"]


def apply_update(dic, pid, values, how):
    p = dic[pid]
    new = tt.T(values)
    if tuple(new.shape) != tuple(p.tensor.shape):
        raise HarnessError("history update of %s changes the shape %s -> %s" % (pid, tuple(p.tensor.shape), tuple(new.shape)))
    if how == "assign":
        if p.requires_grad:
            new.requires_grad_(True)
        p.tensor = new
    else:
        with torch.no_grad():
            p.tensor[...] = new
        p.fire_parameter_changed()


def annotate(res, k0, rnd_index, updates):
    for f in res.fails[k0:]:
        f.detail["round"] = rnd_index
        f.detail["updates_before"] = ["%s:%s" % (u["what"], u["how"]) for u in updates]


def shaped(rows_values, batched, scalar_rows=False):
    """tensor content of a parameter from per-row values"""
    if scalar_rows:
        return [[v] for v in rows_values] if batched else [rows_values[0]]
    return rows_values if batched else rows_values[0]


OBS_GMRF = [["density", "matrix", "integrated"], ["matrix", "density", "integrated"], ["matrix"], ["density"],
            ["matrix", "integrated"], ["integrated", "density"], ["matrix", "density"]]


@st.composite
def gmrf_history_cases(draw):
    c = draw(gmrf_cases(integrated=True))
    n, B, variant = c["n"], c["B"], c["variant"]
    rows = B or 1
    c["tau_batched"] = bool(B is not None and draw(st.booleans()))
    c["tau"] = [draw(logu(1e-4, 1e4)) for _ in range(rows if c["tau_batched"] else 1)]
    options = ["field", "field", "precision"]
    if variant == "weighted":
        options += ["weights", "weights"]
    if variant == "time_aware":
        g = c["g"]
        c["tree_batched"] = "heights_rows" in c
        trows = rows if c["tree_batched"] else 1
        c["tree_kind"] = draw(st.sampled_from(["heights", "ratios"]))
        if c["tree_kind"] == "ratios":
            c.pop("heights_rows", None)
            c["ratios"] = [[draw(fl(0.05, 0.95)) for _ in range(g["n"] - 2)] for _ in range(trows)]
            c["root_height"] = [max(g["samp"]) + g["tscale"] * draw(logu(1e-2, 10.0)) for _ in range(trows)]
            options += ["ratios", "ratios", "root_height", "ratios", "ratios", "root_height"]
        else:
            options += ["heights"] * 6
    rounds = []
    for _ in range(draw(st.integers(2, 3))):
        ups = []
        for _ in range(draw(st.sampled_from([1, 1, 2]))):
            what = draw(st.sampled_from(options))
            how = draw(st.sampled_from(HOWS))
            if what == "field":
                v = draw(fields(n, rows))
            elif what == "precision":
                v = [draw(logu(1e-4, 1e4)) for _ in range(len(c["tau"]))]
            elif what == "weights":
                v = [draw(logu(1e-2, 1e2)) for _ in range(n - 1)]
            elif what == "heights":
                v = [[t * s for t in c["g"]["coal"]] for s in
                     [draw(st.sampled_from([1.0, 1.25, 2.0, 3.5])) * draw(fl(1.0, 1.1)) for _ in range(trows)]]
            elif what == "ratios":
                v = [[draw(fl(0.05, 0.95)) for _ in range(c["g"]["n"] - 2)] for _ in range(trows)]
            else:
                v = [max(c["g"]["samp"]) + c["g"]["tscale"] * draw(logu(1e-2, 10.0)) for _ in range(trows)]
            ups.append({"what": what, "how": how, "values": v})
        rounds.append({"updates": ups, "observe": draw(st.sampled_from(OBS_GMRF))})
    c["observe0"] = draw(st.sampled_from(OBS_GMRF))
    c["rounds"] = rounds
    return c


def _tree_state(c, cur):
    """current coalescent times in the convention of gmrf_row_weights (heights_rows for a batched
    tree, g['coal'] otherwise); returns whether the oracle heights are well conditioned"""
    g = c["g"]
    if c["tree_kind"] == "ratios":
        hs = [gc.heights_from_ratios(g, r, h) for r, h in zip(cur["ratios"], cur["root_height"])]
    else:
        hs = cur["_heights"]
    ok = True
    for h in hs:
        srt = np.sort(np.concatenate(([0.0], h)))
        d = np.diff(srt)
        if np.min(d[:-1] + d[1:]) <= 1e-6 * srt[-1]:
            ok = False  # three nearly equal heights: the weights amplify the rounding of the heights
    if c["tree_batched"]:
        cur["heights_rows"] = hs
    else:
        cur.pop("heights_rows", None)
        cur["g"] = dict(g, coal=list(hs[0]))
    return ok


def body_gmrf_history(c):
    n, B, variant = c["n"], c["B"], c["variant"]
    rows = B or 1
    cur = dict(c)
    gm = {"id": "gmrf", "type": "GMRF", "x": tt.P("field", shaped(c["x"], B is not None)),
          "precision": tt.P("gmrf.precision", shaped(c["tau"], c["tau_batched"], True))}
    gi = {"id": "gmrf.integrated", "type": "GMRFGammaIntegrated", "x": "field", "shape": c["shape"], "rate": c["rate"]}
    if variant == "weighted":
        gm["weights"] = tt.P("weights", c["weights"])
        gi["weights"] = "weights"
    elif variant == "time_aware":
        if c["tree_kind"] == "ratios":
            gm["tree_model"] = gc.ratio_tree_spec(c["g"], c["ratios"], c["root_height"], c["tree_batched"])
        else:
            cur["_heights"] = c["heights_rows"] if c["tree_batched"] else [c["g"]["coal"]]
            gm["tree_model"] = gc.time_tree_spec(c["g"], c["heights_rows"] if c["tree_batched"] else None)
        gi["tree_model"] = "tree"
        if c["rescale"] is not None:
            gm["rescale"] = gi["rescale"] = c["rescale"]
    dic = {}
    gmrf, _ = tt.build(gm, dic)
    gint, _ = tt.build(gi, dic)
    ok = _tree_state(c, cur) if variant == "time_aware" else True
    if variant == "time_aware":
        check_tree(gmrf.tree_model, c["g"])
    ws0 = [gmrf_row_weights(cur, r) for r in range(rows)]
    res = gmrf_res(c, "GMRF", ws0)
    whats = sorted(set(u["what"] for rd in c["rounds"] for u in rd["updates"]))
    res.key = res.key + (tuple("%s:%s" % (u["what"], u["how"]) for rd in c["rounds"] for u in rd["updates"]),
                         rnd([u["values"] for rd in c["rounds"] for u in rd["updates"]][0]))
    res.labels = res.labels + tuple("update:" + w for w in whats) + ("rounds=%d" % len(c["rounds"]),) + \
        ((("tree:" + c["tree_kind"]),) if variant == "time_aware" else ())
    res.tags["aspect"] = "history"

    def observe(order, k, ups, ok):
        k0 = len(res.fails)
        if not ok:
            # (nearly) coincident heights: a smoothing weight is zero or dominated by rounding; the
            # quantities are still read (cache state evolves as drawn) but nothing is asserted
            for o in order:
                {"density": gmrf, "matrix": gmrf.precision_matrix, "integrated": gint}[o]()
            res.labels = res.labels + ("round-with-coincident-heights-not-asserted",)
            return
        ws = [gmrf_row_weights(cur, r) for r in range(rows)]
        sub = tuple(o for o in order if o != "integrated")  # density / matrix, in the drawn order
        if "integrated" in order and order[0] == "integrated" and ok:
            rel_gmrf_integrated(res, gint, cur, ws)
        if sub:
            rel_gmrf(res, gmrf, cur, ws, observe=sub, oracle_ok=ok)
        if "integrated" in order and order[0] != "integrated" and ok:
            rel_gmrf_integrated(res, gint, cur, ws)
        check_inputs_untouched(res, dic, cur, "round %d" % k)
        annotate(res, k0, k, ups)

    observe(c["observe0"], 0, [], ok)
    ids = {"field": "field", "precision": "gmrf.precision", "weights": "weights", "heights": "tree.heights",
           "ratios": "tree.ratios", "root_height": "tree.root_height"}
    for k, rd in enumerate(c["rounds"]):
        for u in rd["updates"]:
            w, v = u["what"], u["values"]
            if w == "field":
                cur["x"] = v
                t = shaped(v, B is not None)
            elif w == "precision":
                cur["tau"] = v
                t = shaped(v, c["tau_batched"], True)
            elif w == "weights":
                cur["weights"] = v
                t = v
            elif w == "heights":
                cur["_heights"] = v
                # node-index order of the tensor: through the same routine that built the tree
                t = shaped([gc.tree_of(c["g"], row)[1] for row in v], c["tree_batched"])
            elif w == "ratios":
                cur["ratios"] = v
                t = shaped(v, c["tree_batched"])
            else:
                cur["root_height"] = v
                t = shaped(v, c["tree_batched"], True)
            apply_update(dic, ids[w], t, u["how"])
        if variant == "time_aware":
            ok = _tree_state(c, cur)
        last = k == len(c["rounds"]) - 1
        observe(OBS_GMRF[k % 2] if last else rd["observe"], k + 1, rd["updates"], ok)
    return res


# ---------------------------------------------------------------- coalescent side
@st.composite
def coal_history_cases(draw):
    kind = draw(st.sampled_from(["skyride", "skygrid"]))
    g = draw(st.one_of(gc.genealogies_scaled(3, 8), gc.genealogies_scaled(3, 30)))
    n = g["n"]
    m = n - 1 if kind == "skyride" else draw(sizes(2, 30))
    B = draw(batches(m))
    rows = B or 1
    form = draw(st.sampled_from(["times", "tree", "tree"]))
    c = {"kind": kind, "g": g, "m": m, "B": B, "form": form}
    c["tree_batched"] = bool(form == "tree" and B is not None and draw(st.booleans()))
    trows = rows if c["tree_batched"] else 1
    c["heights_rows"] = draw(height_rows(g, rows)) if c["tree_batched"] else None
    c["gamma"] = [[draw(fl(-3.0, 6.0)) for _ in range(m)] for _ in range(rows)]
    variants = ["plain", "plain", "weighted"]
    if kind == "skyride" and form == "tree":
        variants += ["time_aware", "time_aware", "time_aware"]
    c["variant"] = draw(st.sampled_from(variants))
    if c["variant"] == "weighted":
        c["weights"] = [draw(logu(1e-2, 1e2)) for _ in range(m - 1)]
    if c["variant"] == "time_aware":
        c["rescale"] = draw(st.sampled_from([None, True, False]))
    c["tau"] = [draw(logu(1e-3, 1e3)) for _ in range(rows)]
    if form == "tree":
        c["alpha"] = draw(logu(1e-3, 1e2))
        c["beta"] = draw(logu(1e-3, 1e2))
    options = ["theta", "theta", "precision"]
    if c["variant"] == "weighted":
        options += ["weights"]
    if form == "tree":
        options += ["heights", "heights", "heights"]
    rounds = []
    allrows = [list(r) for r in (c["heights_rows"] or [g["coal"]])]
    for _ in range(draw(st.integers(2, 3))):
        ups = []
        for _ in range(draw(st.sampled_from([1, 1, 2]))):
            what = draw(st.sampled_from(options))
            how = draw(st.sampled_from(HOWS))
            if what == "theta":
                v = [[draw(fl(-3.0, 6.0)) for _ in range(m)] for _ in range(rows)]
            elif what == "precision":
                v = [draw(logu(1e-3, 1e3)) for _ in range(rows)]
            elif what == "weights":
                v = [draw(logu(1e-2, 1e2)) for _ in range(m - 1)]
            else:
                v = [[t * s for t in g["coal"]] for s in
                     [draw(st.sampled_from([1.0, 1.25, 2.0, 3.5])) * draw(fl(1.0, 1.1)) for _ in range(trows)]]
                allrows += v
            ups.append({"what": what, "how": how, "values": v})
        rounds.append({"updates": ups})
    c["rounds"] = rounds
    if kind == "skygrid":
        c["grid"] = draw(gc.grids(allrows, m, samp=g["samp"], tscale=g.get("tscale", 1.0)))  # no tie with any state of the history
    return c


def body_coal_history(c):
    g, B, m = c["g"], c["B"], c["m"]
    rows = B or 1
    cur = dict(c)
    dic = {}
    op, _ = tt.build(block_specs(c, requires_grad=True), dic)
    ci = None
    if c["form"] == "tree":
        check_tree(op.coalescent.tree_model, g)
        ci, _ = tt.build({"id": "coalint", "type": "ConstantCoalescentIntegratedModel", "alpha": c["alpha"], "beta": c["beta"], "tree_model": "tree"}, dic)
    res = piecewise_res(c, "history")
    whats = sorted(set(u["what"] for rd in c["rounds"] for u in rd["updates"]))
    res.key = res.key + (c["variant"], tuple("%s:%s" % (u["what"], u["how"]) for rd in c["rounds"] for u in rd["updates"]))
    res.labels = res.labels + ("gmrf:" + c["variant"], "rounds=%d" % len(c["rounds"])) + tuple("update:" + w for w in whats)
    res.tags.update({"gmrf": "GMRF", "variant": c["variant"], "aspect": "history", "bucket": "%s+GMRF/%s" % (c["kind"], c["variant"])})

    def observe(k, ups, quad):
        k0 = len(res.fails)
        cur["theta"] = [[math.exp(v) for v in row] for row in cur["gamma"]]
        ws = [block_row_weights(cur, r) for r in range(rows)]
        # statistics against the density the coalescent reports, then the operator's quantities
        rel_suff(res, op.coalescent, cur)
        rel_block(res, op, dic, cur, ws, toggle_grad=False, precision_update=False)
        # GMRF: density vs the published matrix at the current field / precision / heights
        gc_ = {"n": m, "B": B, "x": cur["gamma"], "tau": cur["tau"], "tau_batched": B is not None}
        rel_gmrf(res, op.gmrf, gc_, ws, observe=("matrix", "density") if k % 2 else ("density", "matrix"))
        if ci is not None and quad:
            rel_coalint(res, ci, {"g": cur["g"], "B": B if c["tree_batched"] else None, "heights_rows": cur["heights_rows"],
                                  "alpha": c["alpha"], "beta": c["beta"]})
        check_inputs_untouched(res, dic, cur, "round %d" % k)
        annotate(res, k0, k, ups)

    observe(0, [], True)
    for k, rd in enumerate(c["rounds"]):
        for u in rd["updates"]:
            w, v = u["what"], u["values"]
            if w == "theta":
                cur["gamma"] = v
                apply_update(dic, "theta.log", shaped(v, B is not None), u["how"])
            elif w == "precision":
                cur["tau"] = v
                apply_update(dic, "gmrf.precision", shaped(v, B is not None, True), u["how"])
            elif w == "weights":
                cur["weights"] = v
                apply_update(dic, "weights", v, u["how"])
            else:
                if c["tree_batched"]:
                    cur["heights_rows"] = v
                else:
                    cur["g"] = dict(g, coal=list(v[0]))
                apply_update(dic, "tree.heights", shaped([gc.tree_of(g, row)[1] for row in v], c["tree_batched"]), u["how"])
        observe(k + 1, rd["updates"], k == len(c["rounds"]) - 1 or any(u["what"] == "heights" for u in rd["updates"]))
    return res


# =========================================================================== selftest
def selftest():
    """calibration against the literals of the repository's tests and audit of the quadrature"""
    def chk(got, lit, rel, what):
        if not abs(got - lit) <= rel * max(1.0, abs(lit)):
            raise HarnessError("oracle calibration failed: %s = %r, literal %r" % (what, got, lit))

    # test_gmrf.py (literals there are float32 results, asserted to 1e-6)
    chk(og.gmrf_logpdf([2.0, 30.0, 4.0, 15.0, 6.0], 2.0, np.ones(4)), -1664.2894596388803, 1e-7, "gmrf")
    chk(og.gmrf_logpdf([1.0, 3.0, 6.0, 8.0, 9.0], 0.1, np.ones(4)), -9.180924185988092, 1e-7, "gmrf")
    x = np.log([3.0, 10.0, 4.0])
    chk(og.gmrf_logpdf(x, 0.1, np.ones(2)), -4.254919053937792, 1e-7, "gmrf log field")
    for resc, lit in [(True, -4.501653235865269), (False, -4.230759878711851)]:
        w = og.gmrf_weights(3, "time_aware", internal_heights=[3.0, 2.0, 4.0], rescale=resc)
        chk(og.gmrf_logpdf(x, 0.1, w), lit, 1e-7, "time-aware gmrf rescale=%s" % resc)
    # test_gmrf_time_aware: the documented matrix for weights from times 0,2,6,12,20,25 (rescaled)
    t = np.array([0.0, 2.0, 6.0, 12.0, 20.0, 25.0])
    w = og.gmrf_weights(5, "time_aware", internal_heights=t[1:], rescale=True)
    off = -2.0 / (np.diff(t)[:-1] + np.diff(t)[1:]) * t[-1]
    S = og.gmrf_structure(w)
    if not (np.allclose(np.diag(S, 1), off, rtol=1e-14) and np.allclose(S.sum(1), 0, atol=1e-12) and np.allclose(np.diag(S)[1:-1], -(off[:-1] + off[1:]), rtol=1e-14)):
        raise HarnessError("oracle calibration failed: time-aware precision structure")
    xx = [2.0, 30.0, 4.0, 15.0, 6.0]
    q, _ = og.quadform_logpdf(xx, 20.0 * S, 20.0)
    chk(q, og.gmrf_logpdf(xx, 20.0, w), 1e-13, "quadratic form = sum of squares")
    # test_coalescent.py (BEAST literals)
    chk(og.constant_logp([0, 0, 0, 0], [2.0, 6.0, 12.0], 3.0), -13.295836866, 1e-10, "constant")
    chk(og.piecewise_logp("skyride", [0, 1, 1, 0], [3.0, 2.0, 4.0], [3.0, 10.0, 4.0]), -7.67082507611538, 1e-13, "skyride")
    chk(og.piecewise_logp("skyride", [0, 0, 0, 0], [2.0, 6.0, 12.0], [3.0, 10.0, 4.0]), -11.487491742782, 1e-12, "skyride iso")
    th = np.exp([1.0, 3.0, 6.0, 8.0, 9.0])
    for cut, lit in [(10.0, -19.594893640219844), (18.0, -14.918634593243764)]:
        grid = np.linspace(0, cut, 5)[1:]
        chk(og.piecewise_logp("skygrid", [0, 1, 2, 3, 12], [1.5, 4, 6, 16], th, grid), lit, 1e-13, "skygrid")
        ss, cc = og.piecewise_stats("skygrid", [0, 1, 2, 3, 12], [1.5, 4, 6, 16], 5, grid)
        chk(float(-(ss / th).sum() - (cc * np.log(th)).sum()), lit, 1e-13, "skygrid statistics")
    chk(og.piecewise_logp("skygrid", [0, 0, 0, 0], [2.0, 6.0, 12.0], [3.0, 10.0, 4.0, 2.0, 3.0], np.linspace(0, 10, 5)[1:]), -11.8751856, 1e-8, "skygrid iso")
    # quadrature against the analytic value of the same integral, at the corners of the domain
    for n, a, b, s in [(2, 1e-3, 1e-3, 0.0), (2, 1e-3, 1e2, 1e-6), (50, 1e2, 1e-3, 1e4), (50, 1e-3, 1e2, 1e4), (7, 3.0, 0.5, 1.0), (50, 1e2, 1e2, 0.0)]:
        xs = np.zeros(n)
        xs[1:] = math.sqrt(s / (n - 1)) * np.arange(1, n)
        w1 = np.ones(n - 1)
        v, err = og.gmrf_gamma_integrated_quad(xs, w1, a, b)
        chk(v, og.gmrf_gamma_integrated_closed(xs, w1, a, b), 1e-13, "gamma quadrature n=%d a=%g b=%g" % (n, a, b))
        if not err < 1e-12:
            raise HarnessError("quadrature error estimate %g" % err)
        samp = [0.0] * n
        coal = (np.arange(1, n) * (1e-3 + s)).tolist()
        v, err = og.constant_integrated_quad(samp, coal, a, b)
        chk(v, og.constant_integrated_closed(samp, coal, a, b), 1e-13, "inverse-gamma quadrature n=%d a=%g b=%g" % (n, a, b))
        if not err < 1e-12:
            raise HarnessError("quadrature error estimate %g" % err)


# =========================================================================== registration
def _pre(cls_of):
    # cheap classification for failures raised inside torchtree; deliberately without the
    # keys known findings match on, so that matching cases are still evaluated
    return lambda c: {"cls": cls_of(c)}


def subchecks(tier):
    return [
        Sub("gmrf", body_gmrf, strategy=gmrf_cases, quick=700, thorough=16000, pretags=_pre(lambda c: "GMRF")),
        Sub("gmrf_integrated", body_gmrf_integrated, strategy=lambda: gmrf_cases(integrated=True), quick=260, thorough=6000,
            pretags=_pre(lambda c: "GMRFGammaIntegrated")),
        Sub("coalescent_integrated", body_coalint, strategy=coalint_cases, quick=260, thorough=6000,
            pretags=_pre(lambda c: "ConstantCoalescentIntegratedModel")),
        Sub("suffstats", body_suff, strategy=suff_cases, quick=700, thorough=16000, pretags=_pre(lambda c: CLS[c["kind"]])),
        Sub("block_update", body_block, strategy=block_cases, quick=400, thorough=10000, pretags=_pre(lambda c: CLS[c["kind"]])),
        Sub("gmrf_history", body_gmrf_history, strategy=gmrf_history_cases, quick=240, thorough=5000, pretags=_pre(lambda c: "GMRF")),
        Sub("coalescent_history", body_coal_history, strategy=coal_history_cases, quick=200, thorough=4000, pretags=_pre(lambda c: CLS[c["kind"]])),
    ]
