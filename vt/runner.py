"""Runner shared by all property checks.

    ./check <ID> [--tier quick|thorough] [--replay FILE] [--jobs N] [--only SUB]

exit 0  property held on everything explored (KNOWN-FINDING lines possible)
exit 1  at least one "VIOLATION property=<ID> replay=<path>" line was printed
exit 2  harness error (never a verdict about the property)
"""
import argparse
import contextlib
import hashlib
import importlib
import io
import json
import os
import sys
import time
import traceback
from collections import Counter
from dataclasses import dataclass, field
from typing import Any, Callable, Optional

HERE = os.path.dirname(os.path.dirname(os.path.abspath(__file__)))
REPO = os.path.realpath(os.environ.get("VT_REPO", "/repo"))


# --------------------------------------------------------------------------- data
@dataclass
class Fail:
    kind: str  # mismatch, raises:<Type>@<frame>, nonfinite, ...
    tags: dict = field(default_factory=dict)
    detail: dict = field(default_factory=dict)


@dataclass
class Res:
    nontrivial: bool = False
    key: Any = None  # hashable/JSON-able identity of the case for the distinct count
    labels: tuple = ()
    fails: list = field(default_factory=list)
    tags: dict = field(default_factory=dict)  # classification of the case (for known findings)
    evals: int = 1  # executions against the oracle performed by this body call
    keys: Optional[list] = None  # several distinct non-trivial identities produced by one body call

    def fail(self, kind, detail=None, **tags):
        t = dict(self.tags)
        t.update(tags)
        self.fails.append(Fail(kind, t, detail or {}))
        return self


@dataclass
class Sub:
    name: str
    body: Callable  # case -> Res
    strategy: Optional[Callable] = None  # () -> hypothesis strategy
    quick: int = 100
    thorough: int = 2000
    enumerate: Optional[Callable] = None  # tier -> list of cases (finite space)
    exhaustive: bool = False  # enumeration covers its space completely
    pretags: Optional[Callable] = None  # case -> tags, evaluated before the body
    size: Optional[Callable] = None  # case -> number (smaller = simpler); default len(json)
    expand: Optional[Callable] = None  # compact enumerated case -> full case (called only for the shard's own cases)
    raising_is_failure: bool = True  # an exception out of torchtree inside the body = violation
    shrink_s: float = 25.0


class HarnessError(Exception):
    pass


def jdump(x):
    return json.dumps(x, sort_keys=True, default=_jdefault)


def _jdefault(o):
    try:
        import numpy as np
        import torch

        if isinstance(o, torch.Tensor):
            return o.detach().cpu().tolist()
        if isinstance(o, np.ndarray):
            return o.tolist()
        if isinstance(o, (np.floating, np.integer)):
            return o.item()
    except Exception:
        pass
    if isinstance(o, (set, frozenset, tuple)):
        return list(o)
    return repr(o)


def h64(x):
    return int(hashlib.sha256(jdump(x).encode()).hexdigest()[:15], 16)


def derive(seed, *parts):
    return int(hashlib.sha256(("%d:" % seed + ":".join(map(str, parts))).encode()).hexdigest()[:8], 16)


# --------------------------------------------------------------------------- exceptions
def impl_frame(exc):
    """innermost traceback frame that lies in the repository under test, or None"""
    tb = exc.__traceback__
    found = None
    while tb is not None:
        fn = os.path.realpath(tb.tb_frame.f_code.co_filename)
        if fn.startswith(REPO + os.sep):
            found = "%s:%s" % (os.path.relpath(fn, REPO), tb.tb_frame.f_code.co_name)
        tb = tb.tb_next
    return found


def raises_kind(exc):
    fr = impl_frame(exc)
    return "raises:%s@%s" % (type(exc).__name__, fr or "?")


def guarded(fn, *a, **k):
    """call code under test; return (value, None) or (None, exc) when the exception went
    through a torchtree frame; exceptions raised purely by harness code propagate"""
    try:
        return fn(*a, **k), None
    except Exception as e:  # noqa
        if impl_frame(e) is None:
            raise
        return None, e


# --------------------------------------------------------------------------- known findings
def load_known(pid):
    p = os.path.join(HERE, "known_findings.json")
    with open(p) as f:
        data = json.load(f)
    out = [e for e in data.get("findings", []) if e.get("property") == pid]
    d = os.path.join(HERE, "known_findings.d")  # staging area while checks are being built
    if os.path.isdir(d):
        for fn in sorted(os.listdir(d)):
            if fn.endswith(".json"):
                with open(os.path.join(d, fn)) as f:
                    out += [e for e in json.load(f) if e.get("property") == pid]
    return out


def _match_tags(match, tags):
    for k, v in match.items():
        if k not in tags:
            return False
        t = tags[k]
        if isinstance(v, list):
            if isinstance(t, list):
                if not set(v) & set(t):
                    return False
            elif t not in v:
                return False
        elif isinstance(t, list):
            if v not in t:
                return False
        elif t != v:
            return False
    return True


def entry_matches(entry, sub, fail):
    if entry.get("sub") and entry["sub"] != sub:
        return False
    b = entry.get("bucket")
    if b and not fail.kind.startswith(b):
        return False
    return _match_tags(entry.get("match", {}), fail.tags)


def entry_pre_matches(entry, sub, tags):
    if entry.get("sub") and entry["sub"] != sub:
        return False
    m = entry.get("match", {})
    if not m:
        return False
    return _match_tags(m, tags)


# --------------------------------------------------------------------------- evaluation of one case
def eval_case(sub, case):
    """run the body with the output of the code under test captured; exceptions that went
    through torchtree become failures (when the property says the call must succeed)"""
    buf = io.StringIO()
    try:
        with contextlib.redirect_stdout(buf), contextlib.redirect_stderr(buf):
            res = sub.body(case)
    except Exception as e:  # noqa
        if impl_frame(e) is None or not sub.raising_is_failure:
            raise HarnessError(
                "sub-check %s: %s\ncase=%s\n%s" % (sub.name, e, jdump(case)[:2000], traceback.format_exc())
            )
        res = Res(nontrivial=False, key=("raised", jdump(case)))
        tags = {}
        if sub.pretags:
            try:
                tags = sub.pretags(case)
            except Exception:
                tags = {}
        res.tags = tags
        res.fail(raises_kind(e), {"message": str(e)[:500]})
    return res


class Stats:
    def __init__(self, sub, active_known):
        self.sub = sub
        self.active = active_known
        self.evaluations = 0
        self.nontrivial = set()
        self.labels = Counter()
        self.samples = []
        self.nt_samples = []
        self.failures = {}  # bucket -> dict
        self.known_hits = Counter()
        self.excluded_known = 0
        self.stopped_early = False

    def case_size(self, case):
        if self.sub.size:
            return self.sub.size(case)
        return len(jdump(case))

    def run(self, case):
        sub = self.sub
        if sub.pretags and self.active:
            tags = sub.pretags(case)
            for e in self.active:
                if entry_pre_matches(e, sub.name, tags):
                    self.excluded_known += 1
                    return None
        res = eval_case(sub, case)
        self.evaluations += max(1, int(res.evals))
        if res.keys is not None:
            self.nontrivial.update(h64(k) for k in res.keys)
            if res.keys and len(self.nt_samples) < 2:
                self.nt_samples.append(case)
        elif res.nontrivial:
            self.nontrivial.add(h64(res.key if res.key is not None else case))
            if len(self.nt_samples) < 2:
                self.nt_samples.append(case)
        if isinstance(res.labels, dict):
            for lab, cnt in res.labels.items():
                self.labels[lab] += int(cnt)
        else:
            for lab in res.labels:
                self.labels[lab] += 1
        if len(self.samples) < 2:
            self.samples.append(case)
        unknown = []
        for f in res.fails:
            known = None
            for e in self.active:
                if entry_matches(e, sub.name, f):
                    known = e
                    break
            if known is not None:
                self.known_hits[known["id"]] += 1
                continue
            unknown.append(f)
            bucket = bucket_of(sub.name, f)
            size = self.case_size(case)
            cur = self.failures.get(bucket)
            if cur is None or size < cur["size"]:
                self.failures[bucket] = {
                    "sub": sub.name,
                    "bucket": bucket,
                    "kind": f.kind,
                    "tags": f.tags,
                    "detail": f.detail,
                    "case": case,
                    "size": size,
                    "count": (cur["count"] if cur else 0),
                }
            self.failures[bucket]["count"] += 1
        return unknown

    def export(self):
        return {
            "sub": self.sub.name,
            "evaluations": self.evaluations,
            "nontrivial": sorted(self.nontrivial),
            "labels": dict(self.labels),
            "samples": self.samples,
            "nt_samples": self.nt_samples,
            "failures": self.failures,
            "known_hits": dict(self.known_hits),
            "excluded_known": self.excluded_known,
            "stopped_early": self.stopped_early,
        }


def bucket_of(subname, f):
    cls = f.tags.get("bucket") or f.tags.get("cls") or f.tags.get("model") or ""
    return "%s|%s|%s" % (subname, cls, f.kind)


def _hyp_settings(n, shrink):
    from hypothesis import HealthCheck, Phase, settings

    phases = [Phase.generate, Phase.shrink] if shrink else [Phase.generate]
    return settings(
        max_examples=max(1, n),
        database=None,
        deadline=None,
        derandomize=False,
        report_multiple_bugs=False,
        suppress_health_check=list(HealthCheck),
        phases=phases,
        print_blob=False,
    )


def _init_worker():
    import torch

    torch.set_default_dtype(torch.float64)
    torch.set_num_threads(1)


def get_subs(pid, tier):
    mod = importlib.import_module("vt.props.%s" % pid.lower())
    subs = mod.subchecks(tier)
    return mod, {s.name: s for s in subs}


def unit_budget(sub, tier, nshards):
    n = sub.quick if tier == "quick" else sub.thorough
    return max(1, -(-n // nshards))


def run_unit(args):
    """one (sub-check, shard) work unit; returns picklable statistics"""
    pid, subname, tier, seed, shard, nshards, active, budget_s = args
    _init_worker()
    mod, subs = get_subs(pid, tier)
    sub = subs[subname]
    st = Stats(sub, active)
    t0 = time.time()
    try:
        if sub.enumerate is not None:
            cases = sub.enumerate(tier)
            for i, case in enumerate(cases):
                if i % nshards != shard:
                    continue
                if time.time() - t0 > budget_s:
                    st.stopped_early = True
                    break
                if sub.expand is not None:
                    case = sub.expand(case)
                st.run(case)
        if sub.strategy is not None:
            from hypothesis import given, seed as hseed

            n = unit_budget(sub, tier, nshards)

            @hseed(derive(seed, pid, subname, shard))
            @_hyp_settings(n, False)
            @given(sub.strategy())
            def t(case):
                if time.time() - t0 > budget_s:
                    st.stopped_early = True
                    return
                st.run(case)

            t()
    except HarnessError as e:
        return {"sub": subname, "harness_error": str(e)}
    except Exception as e:  # noqa
        return {"sub": subname, "harness_error": "%s\n%s" % (e, traceback.format_exc())}
    out = st.export()
    out["shard"] = shard
    out["wall_s"] = time.time() - t0
    return out


class _Found(Exception):
    pass


def shrink_unit(args):
    """re-run the unit that found `bucket` with shrinking on; return the smallest failing case"""
    pid, subname, tier, seed, shard, nshards, active, bucket, fallback = args
    _init_worker()
    mod, subs = get_subs(pid, tier)
    sub = subs[subname]
    if sub.strategy is None:
        return fallback
    from hypothesis import given, seed as hseed

    st = Stats(sub, active)
    best = dict(fallback)
    t0 = time.time()
    n = unit_budget(sub, tier, nshards)

    @hseed(derive(seed, pid, subname, shard))
    @_hyp_settings(n, True)
    @given(sub.strategy())
    def t(case):
        if time.time() - t0 > sub.shrink_s:
            return
        st.failures = {}
        try:
            st.run(case)
        except HarnessError:
            return
        f = st.failures.get(bucket)
        if f is not None:
            if f["size"] <= best["size"]:
                best.update(f)
            raise _Found()

    try:
        t()
    except BaseException:  # noqa  (Flaky after the time box, _Found, ...)
        pass
    return best


# --------------------------------------------------------------------------- replay
def replay_file(pid, path, tier="quick"):
    with open(path) as f:
        rec = json.load(f)
    mod, subs = get_subs(pid, tier)
    sub = subs.get(rec["sub"])
    if sub is None:
        # sub-checks only present in the thorough tier
        mod, subs = get_subs(pid, "thorough")
        sub = subs[rec["sub"]]
    res = eval_case(sub, rec["case"])
    return sub, rec, res


def cmd_replay(pid, path):
    _init_worker()
    sub, rec, res = replay_file(pid, path)
    if res.fails:
        for f in res.fails:
            print("replay fails: %s %s %s" % (bucket_of(sub.name, f), jdump(f.tags), jdump(f.detail)[:600]))
        print("VIOLATION property=%s replay=%s" % (pid, path))
        return 1
    print("replay passes: property=%s %s" % (pid, path))
    return 0


# --------------------------------------------------------------------------- main
def main(argv=None):
    ap = argparse.ArgumentParser()
    ap.add_argument("pid")
    ap.add_argument("--tier", default=os.environ.get("VERIF_TIER", "quick"), choices=["quick", "thorough"])
    ap.add_argument("--replay")
    ap.add_argument("--jobs", type=int, default=None)
    ap.add_argument("--only", default=None, help="comma separated sub-check names")
    ap.add_argument("--no-evidence", action="store_true")
    a = ap.parse_args(argv)
    pid = a.pid.upper()
    seed = int(os.environ.get("VERIF_SEED", "1") or 1)
    sys.path.insert(0, HERE)
    from vt import deps

    try:
        deps.ensure()
        rc = _main(pid, a, seed)
    except HarnessError as e:
        print("HARNESS-ERROR property=%s %s" % (pid, e))
        rc = 2
    except Exception:  # noqa
        print("HARNESS-ERROR property=%s\n%s" % (pid, traceback.format_exc()))
        rc = 2
    sys.stdout.flush()
    sys.exit(rc)


def _main(pid, a, seed):
    import multiprocessing as mp

    t0 = time.time()
    if a.replay:
        return cmd_replay(pid, a.replay)
    _init_worker()
    tier = a.tier
    mod, subs = get_subs(pid, tier)
    if a.only:
        only = set(a.only.split(","))
        subs = {k: v for k, v in subs.items() if k in only}
    if hasattr(mod, "selftest"):
        buf = io.StringIO()
        with contextlib.redirect_stdout(buf), contextlib.redirect_stderr(buf):
            mod.selftest()

    # ---- known findings: replay each; the ones that still fail are active
    known = [e for e in load_known(pid)]
    active = []
    for e in known:
        if e.get("status") != "known":
            continue
        path = os.path.join(HERE, e["replay"])
        sub, rec, res = replay_file(pid, path, tier)
        if any(entry_matches(e, sub.name, f) for f in res.fails):
            print("KNOWN-FINDING: property=%s %s" % (pid, e["what"]))
            active.append(e)

    violations = {}  # bucket -> record

    # ---- regression corpus: every committed replay of this property
    corpus_dir = os.path.join(HERE, "replays", pid)
    corpus_n = 0
    if os.path.isdir(corpus_dir):
        for fn in sorted(os.listdir(corpus_dir)):
            if not fn.endswith(".json"):
                continue
            path = os.path.join(corpus_dir, fn)
            sub, rec, res = replay_file(pid, path, tier)
            corpus_n += 1
            for f in res.fails:
                if any(entry_matches(e, sub.name, f) for e in active):
                    continue
                b = bucket_of(sub.name, f)
                violations.setdefault(b, {"path": os.path.relpath(path, HERE), "kind": f.kind, "detail": f.detail, "tags": f.tags, "count": 1})

    # ---- generated search
    jobs = a.jobs or int(os.environ.get("VT_JOBS", "0") or 0) or (4 if tier == "quick" else 16)
    budget_s = float(os.environ.get("VT_UNIT_BUDGET_S", "0") or 0) or (150.0 if tier == "quick" else 1500.0)
    units = []
    for s in subs.values():
        n = s.quick if tier == "quick" else s.thorough
        nsh = getattr(s, "shards_" + tier, None) or (min(jobs, 4) if tier == "quick" else jobs)
        if s.strategy is not None and n < nsh * 5:
            nsh = max(1, n // 5)
        for sh in range(nsh):
            units.append((pid, s.name, tier, seed, sh, nsh, active, budget_s))
    ctx = mp.get_context("spawn")
    results = []
    if jobs <= 1 or len(units) == 1:
        results = [run_unit(u) for u in units]
    else:
        with ctx.Pool(min(jobs, len(units))) as pool:
            results = pool.map(run_unit, units, chunksize=1)

    for r in results:
        if "harness_error" in r:
            raise HarnessError("%s: %s" % (r["sub"], r["harness_error"]))

    by_sub = {}
    nontrivial = set()
    labels = Counter()
    evaluations = 0
    excluded = 0
    known_hits = Counter()
    stopped = False
    found = {}  # bucket -> (record, unit)
    for u, r in zip(units, results):
        d = by_sub.setdefault(r["sub"], {"evaluations": 0, "distinct_nontrivial": set(), "samples": [], "exhaustive": False})
        d["evaluations"] += r["evaluations"]
        d["distinct_nontrivial"].update(r["nontrivial"])
        for c in r["nt_samples"] + r["samples"]:
            if len(d["samples"]) < 2:
                d["samples"].append(c)
        evaluations += r["evaluations"]
        nontrivial.update((r["sub"], x) for x in r["nontrivial"])
        for k, v in r["labels"].items():
            labels[r["sub"] + ":" + k] += v
        excluded += r["excluded_known"]
        known_hits.update(r["known_hits"])
        stopped = stopped or r["stopped_early"]
        for b, f in r["failures"].items():
            if b not in found or f["size"] < found[b][0]["size"]:
                found[b] = (f, u)
    for s in subs.values():
        if s.name in by_sub and s.enumerate is not None and s.exhaustive and not stopped:
            by_sub[s.name]["exhaustive"] = True

    # ---- shrink what is new
    if found:
        sh_units = []
        for b, (f, u) in found.items():
            sh_units.append((u[0], u[1], u[2], u[3], u[4], u[5], active, b, f))
        if len(sh_units) == 1 or jobs <= 1:
            shrunk = [shrink_unit(x) for x in sh_units[:8]]
        else:
            with ctx.Pool(min(jobs, len(sh_units[:16]))) as pool:
                shrunk = pool.map(shrink_unit, sh_units[:16], chunksize=1)
        outdir = os.path.join(HERE, "replays", pid, "found")
        os.makedirs(outdir, exist_ok=True)
        for f in shrunk:
            b = f["bucket"]
            name = "%s-%s.json" % (f["sub"], hashlib.sha256(b.encode()).hexdigest()[:10])
            path = os.path.join(outdir, name)
            with open(path, "w") as fh:
                fh.write(jdump({"property": pid, "sub": f["sub"], "bucket": b, "kind": f["kind"], "tags": f["tags"],
                                "detail": f["detail"], "case": f["case"], "seed": seed, "tier": tier}))
            if b not in violations:
                violations[b] = {"path": os.path.relpath(path, HERE), "kind": f["kind"], "detail": f["detail"], "tags": f["tags"], "count": found[b][0]["count"]}

    wall = time.time() - t0
    # ---- evidence
    samples = []
    for name, d in by_sub.items():
        for c in d["samples"][:2]:
            samples.append({"sub": name, "case": json.loads(jdump(c))})
    cov = {
        "evaluations": evaluations,
        "distinct_nontrivial": len(nontrivial),
        "rule": getattr(mod, "RULE", ""),
        "samples": samples[:40],
        "exhaustive": bool(by_sub) and all(d["exhaustive"] for d in by_sub.values()),
        "by_subcheck": {k: {"evaluations": d["evaluations"], "distinct_nontrivial": len(d["distinct_nontrivial"]), "exhaustive": d["exhaustive"]} for k, d in by_sub.items()},
        "labels": dict(sorted(labels.items())),
        "excluded_known": excluded,
        "known_finding_hits": dict(known_hits),
        "known_findings_active": [e["id"] for e in active],
        "regression_replays": corpus_n,
        "stopped_early": stopped,
        "jobs": jobs,
        "violating_buckets": sorted(violations),
    }
    ev = {
        "property_id": pid,
        "tier": tier,
        "seed": seed,
        "level": getattr(mod, "LEVEL", "exploration"),
        "coverage": cov,
        "assumptions": list(getattr(mod, "ASSUMPTIONS", [])),
        "wall_s": round(wall, 2),
        "violations": len(violations),
    }
    if not a.no_evidence and not a.only:
        os.makedirs(os.path.join(HERE, "evidence"), exist_ok=True)
        with open(os.path.join(HERE, "evidence", "%s.json" % pid), "w") as fh:
            json.dump(ev, fh, indent=1, sort_keys=True)
            fh.write("\n")
    print(
        "%s tier=%s seed=%d evaluations=%d distinct_nontrivial=%d excluded_known=%d known_hits=%d wall=%.1fs%s"
        % (pid, tier, seed, evaluations, len(nontrivial), excluded, sum(known_hits.values()), wall, " STOPPED-EARLY(inconclusive part)" if stopped else "")
    )
    for name, d in by_sub.items():
        print("  %-28s evaluations=%-7d nontrivial=%-7d%s" % (name, d["evaluations"], len(d["distinct_nontrivial"]), " exhaustive" if d["exhaustive"] else ""))
    for b, v in sorted(violations.items()):
        print("  bucket %s x%d: %s" % (b, v["count"], jdump(v["detail"])[:400]))
        print("VIOLATION property=%s replay=%s" % (pid, v["path"]))
    return 1 if violations else 0


if __name__ == "__main__":
    main()
