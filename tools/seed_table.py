#!/venv/bin/python
"""regenerate section 12.6 of DESIGN.md from seeded/*/meta.json"""
import json, os, re
rows = []
for d in sorted(os.listdir("/verif/seeded")):
    m = json.load(open("/verif/seeded/%s/meta.json" % d))
    rows.append("| %s | %s | %s | %s | %s |" % (d, m["property"], m["needs_to_manifest"], ", ".join(m["caught_by"]) or "— (not yet)", m["history"]))
n = len(rows)
first = sum(1 for d in os.listdir("/verif/seeded") if "caught at first run" in json.load(open("/verif/seeded/%s/meta.json" % d))["history"])
now = sum(1 for d in os.listdir("/verif/seeded") if json.load(open("/verif/seeded/%s/meta.json" % d))["caught_by"])
txt = """### 12.6 Independently seeded changes (seeded/<name>/: patch.diff, demo.py, note.md, meta.json)

Each change was written by a fresh sub-agent that was given only the text of one property and a scratch worktree
(nothing from /verif), asked for a change that keeps the 144 repository tests passing, needs something specific to
manifest, and comes with a demonstration. Each was confirmed with `tools/seed_eval.py` (patch applies to HEAD, tests
pass with it, demo exits 0 without and non-zero with it) before being kept. %d changes are kept; %d were caught by
the check of their property at the first run, %d are caught now (by the listed checks, quick tier, VERIF_SEED=1); the
two that are not (C13-4, C04-7) are deliberately not claimed (see their history column).
At the end of the work every kept change was evaluated once more against the checks named in its `caught_by`
(`tools/seed_recheck.sh`, on the final /repo HEAD): 232 of the 234 claimed changes were still caught; two (C09-9,
C11-2) had been caught by chance draws that later generator changes removed, and the checks were made to reach their
triggers deterministically. 13 patches no longer applied after `fix:` commits rewrote the lines they touch and were
carried over by hand (`patch.orig.diff` keeps the originals).
The misses were the most useful output of the exercise. In the first rounds almost all of them were *state* bugs (a
cache or flag that survives an update, an object shared between two consumers, a second evaluation of the same
object) that a check building a fresh object per generated case cannot see; later rounds were dominated by *regions
and routes* nobody had generated: batch shapes of every input, numerically extreme but valid parameters, default-dtype
dependent buffers, rarely used options and file formats, error paths. The corresponding checks were extended with
histories on one object, shared-object specifications and the routes named in the last column.

| name | property | needs, in order to manifest | caught by | history |
|---|---|---|---|---|
%s
""" % (n, first, now, "\n".join(rows))
p = "/verif/DESIGN.md"
s = open(p).read()
if "### 12.6 Independently seeded changes" in s:
    a = s.index("### 12.6 Independently seeded changes")
    b = s.find("\n### 12.7", a)
    s = s[:a] + txt + (s[b:] if b > 0 else "")
else:
    s = s.rstrip("\n") + "\n\n" + txt
open(p, "w").write(s)
print("seeds:", n, "first-run caught:", first, "caught now:", now)
