"""Rate matrices and transition probabilities from the documented definitions.

numpy / scipy / mpmath only; nothing here imports torchtree.

Conventions (DESIGN Appendix A.3):

* reversible models: Q_ij = r_ij * pi_j (i != j), r symmetric, Q_ii = -sum_{j != i} Q_ij;
* normalisation: Q / (-sum_i pi_i Q_ii), i.e. one expected substitution per unit time under
  the model's frequencies;
* P(t) = expm(t * Q_normalised) (scipy), audited by mpmath at 40 digits (`expm_mp`);
* nucleotide order A, C, G, T; GTR rates a..f = AC, AG, AT, CG, CT, GT; HKY: kappa on A<->G, C<->T;
* general symmetric model: mapping[x] is the rate index of the x-th element of the upper
  triangle enumerated row by row; general non-symmetric model: first half of the mapping =
  upper triangle row by row, second half = the transposed positions in the same order (the
  reading under which `mapping + mapping` reproduces the symmetric model, which the
  repository's test_general_GTR asserts);
* codon models: states = sense codons of the genetic code in the order AAA, AAC, AAG, AAT,
  ACA, ... (A < C < G < T); MG94 as torchtree's own test fixes it: the exchangeability of a
  pair of sense codons is kappa^[one position differs, by a transition] * alpha^[one position
  differs, same amino acid] * beta^[one position differs, other amino acid], and 1 for pairs
  differing at two or three positions (NOT the textbook MG94, which forbids those);
* LG / WAG: numbers cannot be re-derived offline; `from_q` takes a matrix (e.g. the model's q())
  and only normalises / exponentiates it, `structure` reports the structural facts.

Public entry points

    q_unnormalised(model, **params) -> (Q, pi)
    q_normalised(model, **params)   -> (Qn, pi)
    p_t(Qn, t)                      -> expm(t Qn)            (t scalar)
    p_ts(Qn, ts)                    -> array of shape ts.shape + (k, k)
    transition(model, t, **params)  -> P(t) with the shape of t + (k, k)
    from_q(Q, pi)                   -> normalised version of a matrix taken from a model (LG / WAG)
    normalise(Q, pi), norm(Q, pi), structure(Q, pi), from_exchangeabilities(R, pi)
    expm_mp(M, dps), p_t_reversible_mp(Qn, pi, t, dps), p_t_reversible_eigh(Qn, pi, t)   (audits)
    codon_states(code), codon_amino_acids(code), codon_pair_classes(code), GENETIC_CODES, CODE_NAMES

torchtree's class names (GeneralSymmetricSubstitutionModel, ...) are accepted as aliases.

`model` is one of MODELS; parameters are plain numbers / sequences:
    JC69()                                   HKY(kappa, frequencies)
    GTR(rates[6], frequencies)               GeneralJC69(state_count)
    GeneralSymmetric(mapping, rates, frequencies)   (mapping None = arange)
    GeneralNonSymmetric(mapping, rates, frequencies)
    MG94(kappa, alpha, beta, frequencies, genetic_code)
"""
import functools
import itertools

import numpy as np

MODELS = ("JC69", "HKY", "GTR", "GeneralJC69", "GeneralSymmetric", "GeneralNonSymmetric", "MG94")
ALIASES = {
    "GeneralSymmetricSubstitutionModel": "GeneralSymmetric",
    "GeneralNonSymmetricSubstitutionModel": "GeneralNonSymmetric",
}

# --------------------------------------------------------------------------- genetic codes
# NCBI translation tables, written in NCBI's own order (T, C, A, G; TTT TTC TTA TTG TCT ...).
_NCBI = {
    1: "FFLLSSSSYY**CC*WLLLLPPPPHHQQRRRRIIIMTTTTNNKKSSRRVVVVAAAADDEEGGGG",
    2: "FFLLSSSSYY**CCWWLLLLPPPPHHQQRRRRIIMMTTTTNNKKSS**VVVVAAAADDEEGGGG",
    3: "FFLLSSSSYY**CCWWTTTTPPPPHHQQRRRRIIMMTTTTNNKKSSRRVVVVAAAADDEEGGGG",
    4: "FFLLSSSSYY**CCWWLLLLPPPPHHQQRRRRIIIMTTTTNNKKSSRRVVVVAAAADDEEGGGG",
    5: "FFLLSSSSYY**CCWWLLLLPPPPHHQQRRRRIIMMTTTTNNKKSSSSVVVVAAAADDEEGGGG",
    6: "FFLLSSSSYYQQCC*WLLLLPPPPHHQQRRRRIIIMTTTTNNKKSSRRVVVVAAAADDEEGGGG",
    9: "FFLLSSSSYY**CCWWLLLLPPPPHHQQRRRRIIIMTTTTNNNKSSSSVVVVAAAADDEEGGGG",
    10: "FFLLSSSSYY**CCCWLLLLPPPPHHQQRRRRIIIMTTTTNNKKSSRRVVVVAAAADDEEGGGG",
    11: "FFLLSSSSYY**CC*WLLLLPPPPHHQQRRRRIIIMTTTTNNKKSSRRVVVVAAAADDEEGGGG",
    12: "FFLLSSSSYY**CC*WLLLSPPPPHHQQRRRRIIIMTTTTNNKKSSRRVVVVAAAADDEEGGGG",
    13: "FFLLSSSSYY**CCWWLLLLPPPPHHQQRRRRIIMMTTTTNNKKSSGGVVVVAAAADDEEGGGG",
    14: "FFLLSSSSYYY*CCWWLLLLPPPPHHQQRRRRIIIMTTTTNNNKSSSSVVVVAAAADDEEGGGG",
    15: "FFLLSSSSYY*QCC*WLLLLPPPPHHQQRRRRIIIMTTTTNNKKSSRRVVVVAAAADDEEGGGG",
    # BEAST's artificial "No stops" code (GeneticCode.java): universal with TAA->Y, TAG->Q, TGA->W
    "nostops": "FFLLSSSSYYYQCCWWLLLLPPPPHHQQRRRRIIIMTTTTNNKKSSRRVVVVAAAADDEEGGGG",
}
# the names under which torchtree (after BEAST) offers them
_CODE_TABLE = {
    "Universal": 1,
    "Vertebrate Mitochondrial": 2,
    "Yeast": 3,
    "Mold Protozoan Mitochondrial": 4,
    "Mycoplasma": 4,
    "Invertebrate Mitochondrial": 5,
    "Ciliate": 6,
    "Echinoderm Mitochondrial": 9,
    "Euplotid Nuclear": 10,
    "Bacterial": 11,
    "Alternative Yeast": 12,
    "Ascidian Mitochondrial": 13,
    "Flatworm Mitochondrial": 14,
    "Blepharisma Nuclear": 15,
    "No stops": "nostops",
}
CODE_NAMES = tuple(_CODE_TABLE)
_NUC = "ACGT"
TRIPLETS = tuple("".join(c) for c in itertools.product(_NUC, repeat=3))  # AAA, AAC, AAG, AAT, ACA ...


def _acgt_table(ncbi):
    tcag = "TCAG"
    aa = {}
    for i, c in enumerate(itertools.product(tcag, repeat=3)):
        aa["".join(c)] = ncbi[i]
    return "".join(aa[t] for t in TRIPLETS)


GENETIC_CODES = {name: _acgt_table(_NCBI[k]) for name, k in _CODE_TABLE.items()}
_TRANSITIONS = {("A", "G"), ("G", "A"), ("C", "T"), ("T", "C")}


def _code(name):
    for k in GENETIC_CODES:
        if k.lower() == str(name).lower():
            return k
    raise KeyError(name)


def codon_states(code):
    """sense codons of the code, in the state order A < C < G < T"""
    tab = GENETIC_CODES[_code(code)]
    return [t for t, a in zip(TRIPLETS, tab) if a != "*"]


def codon_amino_acids(code):
    tab = GENETIC_CODES[_code(code)]
    return [a for a in tab if a != "*"]


@functools.lru_cache(maxsize=None)
def _pair_classes(code):
    return _pair_classes_uncached(code)


def codon_pair_classes(code):
    """for the n sense codons of `code`: integer matrix ndiff (number of differing positions)
    and boolean matrices transition / synonymous (meaningful where ndiff == 1)"""
    nd, ts, syn = _pair_classes(_code(code))
    return nd.copy(), ts.copy(), syn.copy()


def _pair_classes_uncached(code):
    """for the n sense codons of `code`: integer matrix ndiff (number of differing positions)
    and boolean matrices transition / synonymous (meaningful where ndiff == 1)"""
    st = codon_states(code)
    aa = codon_amino_acids(code)
    n = len(st)
    ndiff = np.zeros((n, n), dtype=int)
    ts = np.zeros((n, n), dtype=bool)
    syn = np.zeros((n, n), dtype=bool)
    for i in range(n):
        for j in range(n):
            d = [p for p in range(3) if st[i][p] != st[j][p]]
            ndiff[i, j] = len(d)
            if len(d) == 1:
                ts[i, j] = (st[i][d[0]], st[j][d[0]]) in _TRANSITIONS
                syn[i, j] = aa[i] == aa[j]
    return ndiff, ts, syn


# --------------------------------------------------------------------------- builders
def _vec(x, k=None, name="parameter"):
    v = np.asarray(x, dtype=float).reshape(-1)
    if k is not None and v.size != k:
        raise ValueError("%s must have %d entries, got %d" % (name, k, v.size))
    return v


def from_exchangeabilities(R, pi):
    """Q_ij = R_ij * pi_j off the diagonal, rows sum to zero (R need not be symmetric)"""
    R = np.array(R, dtype=float)
    pi = _vec(pi, R.shape[0], "frequencies")
    Q = R * pi[None, :]
    np.fill_diagonal(Q, 0.0)
    np.fill_diagonal(Q, -Q.sum(axis=1))
    return Q


def _sym_from_upper(values, k):
    R = np.zeros((k, k))
    iu = np.triu_indices(k, 1)  # row by row
    R[iu] = values
    R[(iu[1], iu[0])] = values
    return R


def exchangeabilities(model, **p):
    """(R, pi) of the documented definition, R_ij = Q_ij / pi_j off the diagonal"""
    model = ALIASES.get(model, model)
    if model == "JC69":
        return np.ones((4, 4)) - np.eye(4), np.full(4, 0.25)
    if model == "GeneralJC69":
        k = int(p["state_count"])
        return np.ones((k, k)) - np.eye(k), np.full(k, 1.0 / k)
    if model == "HKY":
        kappa = float(np.asarray(p["kappa"], dtype=float).reshape(-1)[0])
        pi = _vec(p["frequencies"], 4, "frequencies")
        # AC AG AT CG CT GT
        return _sym_from_upper([1.0, kappa, 1.0, 1.0, kappa, 1.0], 4), pi
    if model == "GTR":
        pi = _vec(p["frequencies"], 4, "frequencies")
        return _sym_from_upper(_vec(p["rates"], 6, "rates"), 4), pi
    if model == "GeneralSymmetric":
        pi = _vec(p["frequencies"])
        k = pi.size
        rates = _vec(p["rates"])
        m = p.get("mapping")
        m = np.arange(k * (k - 1) // 2) if m is None else np.asarray(m, dtype=int).reshape(-1)
        if m.size != k * (k - 1) // 2:
            raise ValueError("mapping must have %d entries" % (k * (k - 1) // 2))
        return _sym_from_upper(rates[m], k), pi
    if model == "GeneralNonSymmetric":
        pi = _vec(p["frequencies"])
        k = pi.size
        rates = _vec(p["rates"])
        m = p.get("mapping")
        h = k * (k - 1) // 2
        m = np.arange(2 * h) if m is None else np.asarray(m, dtype=int).reshape(-1)
        if m.size != 2 * h:
            raise ValueError("mapping must have %d entries" % (2 * h))
        R = np.zeros((k, k))
        iu = np.triu_indices(k, 1)
        R[iu] = rates[m[:h]]
        R[(iu[1], iu[0])] = rates[m[h:]]
        return R, pi
    if model == "MG94":
        code = p.get("genetic_code", "Universal")
        ndiff, ts, syn = codon_pair_classes(code)
        n = ndiff.shape[0]
        pi = _vec(p["frequencies"], n, "frequencies")
        kappa, alpha, beta = (float(np.asarray(p[x], dtype=float).reshape(-1)[0]) for x in ("kappa", "alpha", "beta"))
        one = ndiff == 1
        R = np.ones((n, n))
        R = np.where(one & ts, R * kappa, R)
        R = np.where(one & syn, R * alpha, R)
        R = np.where(one & ~syn, R * beta, R)
        np.fill_diagonal(R, 0.0)
        return R, pi
    raise ValueError("unknown model %r" % (model,))


def q_unnormalised(model, **p):
    R, pi = exchangeabilities(model, **p)
    return from_exchangeabilities(R, pi), pi


def norm(Q, pi):
    """-sum_i pi_i Q_ii : expected number of substitutions per unit time under pi"""
    return float(-np.sum(np.diagonal(np.asarray(Q, dtype=float)) * np.asarray(pi, dtype=float)))


def normalise(Q, pi):
    return np.asarray(Q, dtype=float) / norm(Q, pi)


def q_normalised(model, **p):
    Q, pi = q_unnormalised(model, **p)
    return normalise(Q, pi), pi


def from_q(Q, pi):
    """normalised version of a matrix taken from elsewhere (LG / WAG: the model's q())"""
    return normalise(Q, pi)


def p_t(Qn, t):
    """expm(t * Qn) for one scalar t >= 0"""
    from scipy.linalg import expm

    t = float(t)
    Qn = np.asarray(Qn, dtype=float)
    if t == 0.0:
        return np.eye(Qn.shape[0])
    return expm(Qn * t)


def p_ts(Qn, ts):
    """expm(t * Qn) for an array of t; result has shape ts.shape + (k, k)"""
    ts = np.asarray(ts, dtype=float)
    k = np.asarray(Qn).shape[0]
    out = np.empty(ts.shape + (k, k))
    cache = {}
    for idx in np.ndindex(*ts.shape):
        t = float(ts[idx])
        if t not in cache:
            cache[t] = p_t(Qn, t)
        out[idx] = cache[t]
    return out


def transition(model, t, **p):
    Qn, _ = q_normalised(model, **p)
    return p_ts(Qn, t)


def expm_mp(M, dps=40):
    """matrix exponential in multiple precision (audit of scipy's expm)"""
    import mpmath

    with mpmath.workdps(dps):
        A = mpmath.matrix(np.asarray(M, dtype=float).tolist())
        E = mpmath.expm(A)
        return np.array([[float(E[i, j]) for j in range(E.cols)] for i in range(E.rows)])


def p_t_reversible_mp(Qn, pi, t, dps=40):
    """expm(t Qn) of a reversible generator through the symmetrised eigen-decomposition in
    multiple precision (independent of scaling-and-squaring; usable for 61 x 61)"""
    import mpmath

    with mpmath.workdps(dps):
        k = len(pi)
        Q = mpmath.matrix(np.asarray(Qn, dtype=float).tolist())
        s = [mpmath.sqrt(mpmath.mpf(float(x))) for x in pi]
        S = mpmath.matrix(k, k)
        for i in range(k):
            for j in range(k):
                S[i, j] = (s[i] * Q[i, j] / s[j] + s[j] * Q[j, i] / s[i]) / 2
        E, V = mpmath.eigsy(S)
        out = np.empty((k, k))
        ex = [mpmath.exp(E[m] * mpmath.mpf(float(t))) for m in range(k)]
        for i in range(k):
            for j in range(k):
                out[i, j] = float(sum(V[i, m] * ex[m] * V[j, m] for m in range(k)) * s[j] / s[i])
        return out


def p_t_reversible_eigh(Qn, pi, t):
    """expm(t Qn) of a reversible generator through numpy's symmetric eigen-decomposition
    (float64; a second, algorithmically different opinion next to scipy's Pade expm)"""
    Qn = np.asarray(Qn, dtype=float)
    s = np.sqrt(np.asarray(pi, dtype=float))
    S = s[:, None] * Qn / s[None, :]
    S = (S + S.T) / 2.0
    e, v = np.linalg.eigh(S)
    return (v * np.exp(e * float(t))[None, :]) @ v.T * s[None, :] / s[:, None]


def structure(Q, pi):
    """structural facts about a rate matrix: worst |row sum|, smallest off-diagonal, worst
    relative asymmetry of the exchangeabilities Q_ij/pi_j, norm, scale (largest |entry|)"""
    Q = np.asarray(Q, dtype=float)
    pi = np.asarray(pi, dtype=float)
    k = Q.shape[0]
    off = ~np.eye(k, dtype=bool)
    scale = float(np.max(np.abs(Q))) if Q.size else 0.0
    E = Q / pi[None, :]
    asym = np.abs(E - E.T)[off] / np.maximum(np.abs(E), np.abs(E.T))[off].clip(1e-300)
    return {
        "rowsum": float(np.max(np.abs(Q.sum(axis=1)))),
        "min_offdiag": float(np.min(Q[off])),
        "asymmetry": float(np.max(asym)) if asym.size else 0.0,
        "norm": norm(Q, pi),
        "scale": scale,
    }
