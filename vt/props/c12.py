"""C12 - gradients are the derivatives of the reported densities.

For a generated density (built from its JSON specification) every continuous leaf parameter it
depends on is differentiated twice:
  AD  `parameter.grad` after `model().sum().backward()` (requires_grad set through the JSON
      specification, or through the public attribute after a series of re-assignments);
  FD  Richardson-extrapolated central differences (vt.oracle.numdiff) of the value obtained by
      re-assigning `parameter.tensor` and calling the model again.
Failure kinds (first component = what, the `bucket` tag = owner class / parameter role):
  mismatch     |AD - FD| > 1e-6 max(1,|FD|) + numdiff's error estimate
  missing      FD clearly non-zero, `parameter.grad` is None
  zero         FD clearly non-zero, AD exactly 0
  nonfinite    AD contains NaN / inf while the value is finite
  stale_value  the value did not return to its initial value after the parameter was restored /
               differs between the AD evaluation and the FD base point (cache not invalidated)
  interval_mismatch        the back-propagated gradient does not integrate to the difference of the reported values over the stencil
  backward_raises:<Type>   backward() of the returned value raises (graph corrupted by an in-place operation, ...)
  raises:<Type>@<frame>    building or evaluating the density raises (added by the runner)
"""
import copy
import math

import numpy as np
import torch
from hypothesis import strategies as st

from vt import phylo, tt
from vt.cmp import arr
from vt.gen import coal as gc
from vt.gen.basic import fl, logu, simplex
from vt.gen.trees import Topo, names_for, topology
from vt.oracle import like as OL
from vt.oracle import numdiff
from vt.props import c08, c09
from vt.runner import HarnessError, Res, Sub

PROPERTY = "C12"
LEVEL = "exploration"
RULE = (
    "Hypothesis draws a density and an interior point; everything is built from the JSON specification. likelihood: vt.phylo.like_case "
    "(JC69 / HKY / GTR / general symmetric / non-symmetric / general data type / LG / WAG / MG94 x constant / invariant / Weibull(+inv)(+mu) x "
    "unrooted (newick / tensor) / time / ratio / shift trees x strict / per-branch clock x tip partials / ambiguities / tip states), rescaling "
    "forced on or off; coalescent: vt.props.c08 cases (constant / exponential / skyride / skygrid / piecewise-linear; times/events form or a "
    "tree model in time / ratio / shift parameterisation; grid as list or parameter); skyline: vt.props.c09 cases (1..5 epochs, rho-sampling, "
    "survival, root edge, relative / absolute times as list or parameter, removal probability with one epoch) and BirthDeathModel; gmrf: plain / "
    "weighted / time-aware GMRF, GMRFGammaIntegrated, ConstantCoalescentIntegratedModel, GMRFCovariate (field, effect sizes, precision and the "
    "design matrix as leaves); priors: CTMCScale, CompoundGammaDirichletPrior, PoissonTreeLikelihood; distributions: the Distribution wrapper "
    "over the package's own LogNormal (mean/scale, mean/stdev), Normal (precision), InverseGamma, OneOnX and ten torch densities with every "
    "distribution parameter a leaf (x as one Parameter or a list), BayesianBridge (exponent and regularised forms), ScaleMixtureNormal, "
    "MultivariateNormal (scale_tril / covariance / precision, symmetric perturbations), DeterministicNormal; the soft-sorted skygrid "
    "(temperature); exponential growth rates also drawn in 1e-6..1e-4 of either sign; mixed_shapes: the cases of coalescent / likelihood / gmrf / "
    "skyline / priors / distributions / joint with groups of parameters (tree, demography, substitution, site, clock, skyline rates, field, "
    "precision, x, distribution parameters) given a sample dimension [S, k], S in 1..3 (row 0 = the generated point, other rows jittered, "
    "event-related ones by < delta/8), the other groups left unbatched - plans 'fixed tree' (everything but the tree batched), 'tree only', "
    "random subsets - plus an enumeration of every coalescent class x tree parameterisation x {fixed tree, tree only}: the sum over the samples "
    "is differentiated with respect to the unbatched leaves and every sample's slice of the batched ones; "
    "jacobian: TransformedParameter() over exp / sigmoid / affine / stick-breaking chains and ReparameterizedTimeTreeModel(); joint: "
    "JointDistributionModel over likelihood + coalescent + CTMC scale + torch priors + tree and transform Jacobians sharing parameters. "
    "Internal node heights, grid points and epoch boundaries are moved apart by construction to a drawn separation delta (1e-3..3e-2 of the "
    "tree height) and the parameterisation is recomputed from the separated heights; every leaf parameter may sit under 0-2 generated "
    "TransformedParameter layers (the unconstrained leaf is differentiated). For each leaf: up to 3 generated coordinates (simplex: tangent "
    "directions e_i - e_j) and one generated dense direction; finite-difference step = 1e-2 of the parameter (1e-2 for unconstrained leaves), "
    "inside the domain by a factor 4 and moving no event time by more than 1/16 of the smallest gap between a movable event and any other event. Non-trivial = the (owner class, parameter role) pair reaches "
    "the value through an indexed / gathered / masked / in-place operation (table NT_FALSE lists the pairs that do not); distinct = (sub-check, "
    "owner class, role, options, rounded point). Labels count comparisons per 'owner/role'."
)
ASSUMPTIONS = [
    "ties between event times (internal node heights, sampling times, grid points, epoch boundaries, origin) are excluded by construction: the "
    "density is not differentiable there; ties among sampling times themselves (constants) are generated",
    "parameters are interior points: probabilities in [1e-3, 0.999], rho / s entries that are exactly 0 (structural zeros of the skyline) are "
    "not differentiated, growth rates |g| >= 1e-3",
    "rate matrices whose symmetrised form has a repeated or nearly repeated eigenvalue (relative gap < 1e-4: equal exchangeabilities, HKY/K80 with equal "
    "frequencies, kappa = 1, ...) are the subject of the deterministic sub-check degenerate_start (known finding) and are classified by the tag "
    "repeated_eig in the generated search; the spectrum is computed by numpy from the documented rate matrix (from q() for MG94)",
    "tolerance 1e-6 max(1,|g|) + error estimate of the Richardson tableau (2 x last correction + (3 x measured evaluation noise + 8 eps |f|) / h; the noise is measured by fourth differences of evaluations 1e-3 h apart; "
    "step ratio 1.7); a comparison whose error estimate exceeds 1e-4 max(1,|g|) is counted as inconclusive (label), never as a violation; a "
    "disagreement is reported only if two further tableaux with unrelated step sequences (0.77 h, 0.53 h) disagree with autograd as well "
    "(rounding errors of the value - rare one-ulp flips amplified by cancellation in P(t) for short branches - were seen to be coherent along "
    "one step sequence), and only if the three estimates do not scatter by more than the disagreement (a value dominated by cancellation - "
    "P(t) of branches of 1e-8 substitutions, the exponential coalescent at |growth| x time = 1e-8 - has a round-off staircase many ulps wide "
    "that closely spaced probes do not see); labels fd_not_confirmed / fd_estimates_scatter count the withdrawn ones",
    "influence is asserted when |g_fd| > 50 x error estimate + 1e3 x round-off floor",
    "interval form: when the first tableau over [x-H, x+H] is inconsistent although the value is evaluated accurately (a jump or kink of the "
    "reported value inside the stencil, or a value varying on a much shorter scale), the back-propagated directional derivative is integrated "
    "over the interval (composite 5-point Gauss-Legendre, 1..8 panels, until the change of the last refinement is < 5% of the disagreement) and "
    "compared with f(x+H) - f(x-H) at 1e-5 of the scale: a gradient that is the derivative of the reported value integrates to its "
    "differences; the same form is applied over [g/2, 2g] (|g| >= 1e-3) or [max(g/8, 1e-6), 8g] (slow growth) to the growth rate of the exponential coalescent (a parameter on a logarithmic scale "
    "whose local stencil only spans 45% of its size), at 1e-4 of the scale; kind interval_mismatch, labels interval_check(_wide) / interval_check_open",
    "the growth rate of the exponential coalescent keeps its sign and moves by at most 45% of its size (0 is a singular point of the shipped "
    "formula: documented TODO); growth rates below 2e-6 in size are not generated (the formula loses its digits to cancellation there)",
    "MultivariateNormal covariance / precision matrices are perturbed symmetrically only (torch reads one triangle and symmetrises the "
    "gradient); scale_tril: entries above the diagonal are not differentiated",
    "RootParameter cannot be instantiated (abstract requires_grad), PiecewiseExponentialCoalescentGridModel raises on every input (known C08): "
    "not generated",
    "the numerical derivative re-assigns .tensor with detached tensors and calls the model again: a cache that is not invalidated shows up as "
    "stale_value or as a mismatch and is reported (it makes the reported density differ from the one that is differentiated)",
    "BDSK removal probability with more than one epoch (known C09 crash) is not generated",
    "mixed_shapes: simplex-valued parameters, matrices, structural-zero vectors, grids and skyline rho / origin / times are never given a sample "
    "dimension; a shape combination that raises is counted (label unsupported_shape) and not a violation - which combinations are supported and "
    "that samples do not mix is C10's subject; C12 compares the gradient of the sum that is reported with its numerical derivative",
]

EPS = 2.220446049250313e-16
TOL = 1e-6
T_EXP = "torch.distributions.ExpTransform"
T_SIG = "torch.distributions.SigmoidTransform"
T_AFF = "torch.distributions.AffineTransform"
T_STICK = "torch.distributions.StickBreakingTransform"

# (owner class, role) pairs whose path to the value contains no index / gather / mask / in-place operation
NT_FALSE = {
    ("ConstantCoalescentModel", "theta"), ("GMRF", "precision"), ("GMRF", "weights"), ("CTMCScale", "x"),
    ("CompoundGammaDirichletPrior", "alpha"), ("CompoundGammaDirichletPrior", "c"), ("CompoundGammaDirichletPrior", "shape"),
    ("CompoundGammaDirichletPrior", "rate"), ("TransformedParameter", "x"), ("Distribution", "x"),
}


# =========================================================================== extras shared by all cases
@st.composite
def extras(draw):
    return {
        "order": draw(st.sampled_from(["ad_first", "fd_first"])),
        "sep": draw(logu(1e-3, 3e-2)),
        "layers": [draw(st.sampled_from([0, 0, 1, 2])) for _ in range(8)],
        "flip": [draw(st.booleans()) for _ in range(8)],
        "aff": [[draw(fl(-1.0, 1.0)), draw(logu(0.3, 3.0)) * draw(st.sampled_from([1.0, 1.0, -1.0]))] for _ in range(4)],
        "picks": [draw(st.integers(0, 10 ** 6)) for _ in range(4)],
        "dir": [draw(fl(-1.0, 1.0)) for _ in range(6)],
    }


def cyc(lst, i):
    return lst[i % len(lst)]


# =========================================================================== separation of event times
def separate(movable, fixed, delta):
    """movable: {key: time}; returns new {key: time} with the same order, every movable time at least delta
    away from every other movable time and from every fixed time; times only move up"""
    out = {}
    prev = None
    fx = sorted(set(fixed))
    for key, t in sorted(movable.items(), key=lambda kv: (kv[1], str(kv[0]))):
        if prev is not None and t < prev + delta:
            t = prev + delta
        moved = True
        guard = 0
        while moved:
            moved = False
            guard += 1
            if guard > 10000:
                raise HarnessError("separate() does not terminate")
            for f in fx:
                if abs(t - f) < delta * (1.0 - 1e-9):
                    t = f + delta
                    moved = True
        out[key] = t
        prev = t
    return out


def node_parameters(topo, tips, h, kind):
    """parameter values of a time tree with node heights h ({node: height}, tips included) in the given parameterisation"""
    n = topo.n
    if kind == "time":
        return {"heights": [h[i] for i in range(n, 2 * n - 1)]}
    if kind == "shift":
        return {"shifts": [h[node] - max(h[l], h[r]) for node, l, r in topo.post]}
    bound = {i: tips[i] for i in range(n)}
    for node, l, r in topo.post:
        bound[node] = max(bound[l], bound[r])
    ratios = [0.0] * (n - 2)
    for node, l, r in topo.post:
        for ch in (l, r):
            if ch >= n:
                ratios[ch - n] = (h[ch] - bound[ch]) / (h[node] - bound[ch])
    return {"ratios": ratios, "root_height": [h[topo.root]], "root_bound": bound[topo.root]}


def tree_specs(topo, tips, h, kind, calendar=False, names=None, tree_id="tree", pre=""):
    """-> ([taxa spec, tree spec], infos) for a time tree given by its node heights"""
    n = topo.n
    names = names or names_for(n)
    if calendar and max(tips) > 0:
        top = 2000.0 + max(tips)
        dates = [top - x for x in tips]
    else:
        dates = list(tips)
    taxa = {"id": pre + "taxa", "type": "Taxa", "taxa": [{"id": names[i], "type": "Taxon", "attributes": {"date": dates[i]}} for i in range(n)]}
    p = node_parameters(topo, tips, h, kind)
    infos = []
    if kind == "time":
        tree = {"id": tree_id, "type": "TimeTreeModel", "newick": topo.newick(names), "taxa": pre + "taxa",
                "internal_heights": tt.P(pre + "heights", p["heights"])}
        infos.append(info(pre + "heights", "TimeTreeModel", "heights", "heights"))
    elif kind == "ratio":
        tree = {"id": tree_id, "type": "ReparameterizedTimeTreeModel", "newick": topo.newick(names), "taxa": pre + "taxa",
                "ratios": tt.P(pre + "ratios", p["ratios"]), "root_height": tt.P(pre + "root_height", p["root_height"])}
        infos.append(info(pre + "ratios", "ReparameterizedTimeTreeModel[ratio]", "ratios", "unit"))
        infos.append(info(pre + "root_height", "ReparameterizedTimeTreeModel[ratio]", "root_height", "lower", lower=p["root_bound"]))
    else:
        tree = {"id": tree_id, "type": "ReparameterizedTimeTreeModel", "newick": topo.newick(names), "taxa": pre + "taxa",
                "shifts": tt.P(pre + "shifts", p["shifts"])}
        infos.append(info(pre + "shifts", "ReparameterizedTimeTreeModel[shift]", "shifts", "pos"))
    return [taxa, tree], infos


def info(id_, owner, role, domain, lower=None, skip=None):
    return {"id": id_, "owner": owner, "role": role, "domain": domain, "lower": lower, "skip": skip or []}


# =========================================================================== transform layers
def chain_for(domain, layers, flip, aff, values, lower=None):
    """list of (transform path, parameters) applied innermost first, mapping an unconstrained leaf onto `values`"""
    a, b = aff
    values = np.asarray(values, dtype=float).reshape(-1).tolist()
    if layers == 0 or domain in ("heights", "fixed") or len(values) == 0:
        return []
    if domain == "pos":
        if layers == 1:
            return [(T_EXP, None)]
        return [(T_AFF, {"loc": a, "scale": b}), (T_EXP, None)] if flip else [(T_EXP, None), (T_AFF, {"loc": 0.0, "scale": abs(b)})]
    if domain == "unit":
        if layers == 1:
            return [(T_SIG, None)]
        if flip:
            return [(T_AFF, {"loc": a, "scale": b}), (T_SIG, None)]
        lo = 0.5 * min(values)
        hi = 1.0 - 0.5 * (1.0 - max(values))
        return [(T_SIG, None), (T_AFF, {"loc": lo, "scale": hi - lo})]
    if domain == "simplex":
        if len(values) < 2:
            return []
        if layers == 1:
            return [(T_STICK, None)]
        return [(T_AFF, {"loc": a, "scale": b}), (T_STICK, None)]
    if domain == "real":
        if layers == 1:
            return [(T_AFF, {"loc": a, "scale": b})]
        return [(T_AFF, {"loc": a, "scale": b}), (T_AFF, {"loc": -a, "scale": 1.0 / b})] if flip else [(T_AFF, {"loc": a, "scale": b}), (T_AFF, {"loc": 0.3, "scale": -abs(b)})]
    if domain == "lower":
        if layers == 1:
            return [(T_AFF, {"loc": lower, "scale": abs(b)})]
        return [(T_EXP, None), (T_AFF, {"loc": lower, "scale": 1.0})]
    raise HarnessError("no transform chain for domain %r" % domain)


def _torch_transform(path, par):
    import torch.distributions as D

    cls = getattr(D, path.rsplit(".", 1)[1])
    return cls(**par) if par else cls()


def wrap_parameter(pspec, chain, requires_grad):
    """Parameter spec -> nested TransformedParameter specs; the outermost keeps the id"""
    pid = pspec["id"]
    v = torch.tensor(pspec["tensor"], dtype=torch.float64)
    u = v
    for path, par in reversed(chain):
        u = _torch_transform(path, par).inv(u)
    if not bool(torch.all(torch.isfinite(u))):
        raise HarnessError("cannot invert transform chain %r at %r" % (chain, pspec["tensor"]))
    node = tt.P(pid + ".u", u.tolist())
    if requires_grad:
        node["requires_grad"] = True
    for k, (path, par) in enumerate(chain):
        last = k == len(chain) - 1
        node = {"id": pid if last else pid + ".m%d" % k, "type": "TransformedParameter", "transform": path, "x": node}
        if par:
            node["parameters"] = dict(par)
    return node


def apply_plan(specs, infos, ex):
    """replace the Parameter specifications named in infos by 0-2 TransformedParameter layers (drawn per parameter),
    mark the leaves requires_grad in the ad_first order; fills info['leaf'], info['layers'], info['chain']"""
    by_id = {i["id"]: i for i in infos}
    order = {pid: k for k, pid in enumerate(sorted(by_id))}
    rg = ex["order"] == "ad_first"
    tp_ids = []

    def visit(x):
        if isinstance(x, list):
            return [visit(y) for y in x]
        if not isinstance(x, dict):
            return x
        if x.get("type") == "Parameter" and x.get("id") in by_id:
            inf = by_id[x["id"]]
            k = order[x["id"]]
            chain = []
            if "tensor" in x and isinstance(x["tensor"], list) and "full" not in x and ex.get("wrap", True) and not inf.get("nowrap"):
                chain = chain_for(inf["domain"], cyc(ex["layers"], k), cyc(ex["flip"], k), cyc(ex["aff"], k), x["tensor"], inf.get("lower"))
            inf["chain"] = [c[0].rsplit(".", 1)[1] for c in chain]
            inf["layers"] = len(chain)
            if not chain:
                inf["leaf"] = x["id"]
                y = dict(x)
                if rg:
                    y["requires_grad"] = True
                return y
            inf["leaf"] = x["id"] + ".u"
            tp_ids.append(x["id"])
            return wrap_parameter(x, chain, rg)
        return {k: visit(v) for k, v in x.items()}

    return visit(specs), tp_ids


# =========================================================================== the engine
def build_all(specs):
    dic = {}
    for el in specs:
        tt.build(el, dic)
    return dic


def leaf_parameters(dic):
    from torchtree.core.parameter import Parameter

    return {k: v for k, v in dic.items() if type(v) is Parameter and v.tensor.is_floating_point()}


def total(model):
    return model().sum()


def event_gap(ev, const):
    """smallest gap between an event time that can move (internal node, grid point given as a parameter, epoch boundary, origin) and any
    other event time; gaps between two constants (sampling times, fixed grid points) do not matter"""
    e = np.asarray(ev, dtype=float)
    c = np.asarray(const, dtype=bool)
    o = np.argsort(e, kind="stable")
    e, c = e[o], c[o]
    if e.size < 2:
        return math.inf
    d = np.diff(e)
    ok = ~(c[1:] & c[:-1])
    return float(np.min(d[ok])) if np.any(ok) else math.inf


class Engine:
    """one density, all its leaf parameters"""

    def __init__(self, res, dic, target, infos, ex, events=None, base_tags=None):
        self.res, self.dic, self.target, self.infos, self.ex = res, dic, target, infos, ex
        self.events = events
        self.labels = {}
        self.keys = []
        self.evals = 0
        self.backward_failed = False
        self.tags = dict(base_tags or {})

    def lab(self, name, n=1):
        self.labels[name] = self.labels.get(name, 0) + n

    def fail(self, inf, kind, detail):
        d = dict(detail)
        d.update(parameter=inf["id"], leaf=inf.get("leaf"), chain=inf.get("chain"))
        self.res.fail(kind, d, **dict(self.tags, owner=inf["owner"], role=inf["role"], layers=inf.get("layers", 0),
                                      bucket="%s/%s" % (inf["owner"], inf["role"])))

    def value(self):
        return float(total(self.target).detach())

    def run(self, ident):
        res, dic, ex = self.res, self.dic, self.ex
        if self.tags.get("batched") is not None:
            ident = (ident, "batched", self.tags["batched"], self.labels.get("S=1") and 1 or self.labels.get("S=2") and 2 or 3)
        leaves_all = leaf_parameters(dic)
        known = {i["leaf"] for i in self.infos}
        extra = sorted(k for k in leaves_all if k not in known)
        if extra:
            raise HarnessError("parameters without a role: %s" % extra)
        infos = [i for i in self.infos if i["leaf"] in leaves_all]
        leaves = {i["id"]: leaves_all[i["leaf"]] for i in infos}
        self.leaf_of = leaves
        grads = None
        v_ad = None
        if ex["order"] == "ad_first":
            for i in infos:
                p = leaves[i["id"]]
                if not p.requires_grad:
                    self.lab("requires_grad_reset_by_build:%s/%s" % (i["owner"], i["role"]))
                    p.requires_grad = True
            v_ad, grads = self.autodiff(infos, leaves)
        # ---- finite differences on detached tensors, re-assigned through the public setter
        x0 = {}
        for i in infos:
            p = leaves[i["id"]]
            x0[i["id"]] = p.tensor.detach().clone()
            p.tensor = x0[i["id"]].clone()
        f0 = self.value()
        if not math.isfinite(f0):
            self.lab("value_not_finite")
            res.labels = self.labels
            return
        if v_ad is not None and abs(v_ad - f0) > 1e-11 * max(1.0, abs(f0)):
            res.fail("stale_value", {"value_at_backward": v_ad, "value_after_reassignment": f0}, **dict(self.tags, bucket="value", role="value"))
        fd = {}
        for i in infos:
            fd[i["id"]] = self.differences(i, leaves[i["id"]], x0[i["id"]], f0)
        f1 = self.value()
        if abs(f1 - f0) > 1e-11 * max(1.0, abs(f0)):
            res.fail("stale_value", {"initial": f0, "after_restoring_every_parameter": f1}, **dict(self.tags, bucket="value", role="value"))
        if ex["order"] != "ad_first":
            for i in infos:
                p = leaves[i["id"]]
                p.requires_grad = True
            v_ad, grads = self.autodiff(infos, leaves)
            if abs(v_ad - f0) > 1e-11 * max(1.0, abs(f0)):
                res.fail("stale_value", {"value_at_backward": v_ad, "initial": f0}, **dict(self.tags, bucket="value", role="value"))
        # ---- comparison
        if not self.backward_failed:
            for i in infos:
                self.compare(i, grads[i["id"]], fd[i["id"]], x0[i["id"]], ident)
        res.labels = self.labels
        res.keys = self.keys
        res.evals = max(1, self.evals)
        res.nontrivial = bool(self.keys)

    def autodiff(self, infos, leaves):
        v = total(self.target)
        val = float(v.detach())
        if v.requires_grad:
            try:
                v.backward()
            except RuntimeError as e:
                # raised by the autograd engine (no torchtree frame on the stack): the recorded graph cannot be differentiated,
                # e.g. a tensor needed for the backward pass was modified in place
                self.backward_failed = True
                self.res.fail("backward_raises:" + type(e).__name__, {"message": str(e)[:400], "value": val}, **dict(self.tags, bucket="backward"))
        out = {}
        for i in infos:
            g = leaves[i["id"]].grad
            out[i["id"]] = None if g is None else g.detach().clone()
        return val, out

    # ------------------------------------------------------------------ directions and steps
    def directions(self, inf, x):
        k = int(x.size)
        dom = "real" if inf["layers"] else inf["domain"]
        ex = self.ex
        skip = set(inf.get("skip") or []) if not inf["layers"] else set()
        cap = 3
        out = []
        if dom == "fixed" or k == 0:
            return out
        if dom == "sym":
            # symmetric positive definite matrix (covariance / precision): only symmetric perturbations stay in the domain
            m = int(round(math.sqrt(k)))
            pairs = sorted({tuple(sorted((cyc(ex["picks"], j) % m, (cyc(ex["picks"], j) // m) % m))) for j in range(cap)})
            for a, b in pairs:
                dd = np.zeros((m, m))
                dd[a, b] = dd[b, a] = 1.0
                out.append(("s%d,%d" % (a, b), dd.reshape(-1)))
            w = np.array([[cyc(ex["dir"], a * m + b) for b in range(m)] for a in range(m)])
            w = w + w.T
            if np.max(np.abs(w)) > 0:
                out.append(("dense", (w / np.max(np.abs(w))).reshape(-1)))
            return out
        if dom == "simplex":
            if k < 2:
                return out
            idx = list(range(k)) if k <= cap else sorted({cyc(ex["picks"], j) % k for j in range(cap)})
            for a in idx:
                b = (a + 1 + (cyc(ex["picks"], a) % (k - 1))) % k
                d = np.zeros(k)
                d[a], d[b] = 1.0, -1.0
                out.append(("e%d-e%d" % (a, b), d))
            if k > cap:
                w = np.array([cyc(ex["dir"], j) for j in range(k)]) * x
                w = w - x * (w.sum() / x.sum())  # tangent: sums to zero
                w = w - w.sum() / k
                if np.max(np.abs(w)) > 0:
                    out.append(("dense", w / np.max(np.abs(w)) * float(np.min(x))))
            return out
        last = int(inf.get("last_dim") or k)
        free = [j for j in range(k) if (j % last) not in skip]
        idx = free if len(free) <= cap else sorted({free[cyc(ex["picks"], j) % len(free)] for j in range(cap)})
        for a in idx:
            d = np.zeros(k)
            d[a] = 1.0
            out.append(("e%d" % a, d))
        if len(free) > cap:
            w = np.zeros(k)
            for j in free:
                w[j] = cyc(ex["dir"], j) * (abs(x[j]) if dom in ("pos", "unit") else 1.0)
            if np.max(np.abs(w)) > 0:
                out.append(("dense", w / np.max(np.abs(w)) * (float(np.min(np.abs(x[free]))) if dom in ("pos", "unit") else 1.0)))
        return out

    def step(self, inf, x, d):
        """largest step along d: relative to the parameter, a factor 4 inside the domain"""
        dom = "real" if inf["layers"] else inf["domain"]
        nz = np.nonzero(d)[0]
        if dom == "sym":
            m = int(round(math.sqrt(x.size)))
            return 5e-3 * float(np.min(np.linalg.eigvalsh(x.reshape(m, m)))) / float(np.max(np.abs(d)))
        if dom == "real":
            return 1e-2 * max(1.0, float(np.max(np.abs(x[nz])))) / float(np.max(np.abs(d)))
        h = math.inf
        for j in nz:
            xj, dj = float(x[j]), abs(float(d[j]))
            if dom in ("pos", "simplex"):
                lim = min(1e-2 * xj, xj / 4.0)
            elif dom == "unit":
                lim = min(1e-2 * max(xj, 1e-2), xj / 4.0, (1.0 - xj) / 4.0)
            elif dom == "lower":
                lim = min(1e-2 * max(abs(xj), 1e-2), (xj - inf["lower"]) / 4.0)
            else:  # heights, grid, times: limited by the events below
                lim = 1e-2 * max(abs(xj), 1e-3)
            h = min(h, lim / dj)
        return h

    def event_groups(self):
        """[(values, constant?, fraction)]: nothing in a group may move by more than `fraction` of the group's smallest relevant gap"""
        ev = self.events()
        if isinstance(ev, tuple):
            ev = [ev]
        out = [(np.asarray(g[0], dtype=float).reshape(-1), np.asarray(g[1], dtype=bool).reshape(-1), g[2] if len(g) > 2 else 1.0 / 16.0) for g in ev]
        for e, c, _ in out:
            if e.shape != c.shape:
                raise HarnessError("event group with %d values and %d flags" % (e.size, c.size))
        return out

    def differences(self, inf, p, x0, f0):
        x = arr(x0).reshape(-1)
        out = []
        shape = x0.shape

        def setx(t, d):
            p.tensor = (x0.reshape(-1) + t * torch.as_tensor(d, dtype=x0.dtype)).reshape(shape)

        for name, d in self.directions(inf, x):
            h = self.step(inf, x, d)
            if not (h > 0 and math.isfinite(h)):
                self.lab("skipped:no_room")
                continue
            if self.events is not None:
                # groups of (values, constant?) - event times, and quantities that must keep their distance from a singular value
                # (growth rate and 0); within each group nothing moves by more than 1/16 of the group's smallest relevant gap
                g0 = self.event_groups()
                gaps = [event_gap(e, c) for e, c, _ in g0]
                if not all(gp > 0 for gp in gaps):
                    self.lab("skipped:tie")
                    continue
                ok = False
                g1 = g2 = g0
                for _ in range(8):
                    setx(h, d)
                    g1 = self.event_groups()
                    setx(-h, d)
                    g2 = self.event_groups()
                    ratio = 0.0
                    for (e, _c, fr), (a, _, _), (b, _, _), gp in zip(g0, g1, g2, gaps):
                        if e.size and math.isfinite(gp):
                            ratio = max(ratio, float(np.max(np.abs(a - e))) / (gp * fr), float(np.max(np.abs(b - e))) / (gp * fr))
                    if ratio <= 1.0:
                        ok = True
                        break
                    h *= 0.9 / ratio
                setx(0.0, d)
                same = all(np.array_equal(np.argsort(a, kind="stable"), np.argsort(e, kind="stable"))
                           and np.array_equal(np.argsort(b, kind="stable"), np.argsort(e, kind="stable")) for (e, _c, _f), (a, _, _), (b, _, _) in zip(g0, g1, g2))
                if not ok or not same:
                    self.lab("skipped:event_order")
                    continue

            def f(t):
                setx(t, d)
                return self.value()

            g, err, meta = numdiff.derivative(f, h)
            rough = None
            if meta["finite"] and err > 1e-4 * max(1.0, abs(g)) and meta["noise"] <= 0.1 * err:
                rough = h  # examined by the interval check (see compare)
            for _ in range(2):
                # the step was chosen from the size of the parameter; if the value varies on a shorter scale the tableau says so
                # (large correction, little round-off): restart with a smaller step
                if not meta["finite"] or err <= 1e-7 * max(1.0, abs(g)) or meta["noise"] > 0.1 * err:
                    break
                g2, err2, meta2 = numdiff.derivative(f, h / 8.0)
                if not meta2["finite"] or err2 >= err:
                    break
                h /= 8.0
                g, err, meta = g2, err2, meta2
            setx(0.0, d)
            out.append({"dir": name, "d": d, "fd": g, "err": err, "noise": meta["noise"], "h": meta["h"], "h0": h, "finite": meta["finite"], "rough": rough})
        p.tensor = x0.clone()
        return out

    def autodiff_at(self, inf, x0, d, t):
        """directional derivative by back-propagation at the point x0 + t d (None if it cannot be obtained)"""
        p = self.leaf_of[inf["id"]]
        x = (x0.detach().reshape(-1) + t * torch.as_tensor(d, dtype=x0.dtype)).reshape(x0.shape).clone().requires_grad_(True)
        p.tensor = x
        v = total(self.target)
        if not v.requires_grad:
            return 0.0
        try:
            v.backward()
        except RuntimeError:
            return None
        if x.grad is None:
            return None
        return float(np.dot(arr(x.grad).reshape(-1), d))

    GL5 = ([-0.906179845938664, -0.5384693101056831, 0.0, 0.5384693101056831, 0.906179845938664],
           [0.23692688505618908, 0.47862867049936647, 0.5688888888888889, 0.47862867049936647, 0.23692688505618908])

    def interval_check(self, inf, d, x0, lo, hi, rtol=1e-5):
        """Interval form of the property: the gradient is the derivative of the reported value on [x + lo d, x + hi d] iff it integrates
        to the difference of the values.  Composite Gauss-Legendre quadrature (1, 2, 4, ... 32 panels of 5 nodes, until the change of the
        last refinement is small against the disagreement) of the back-propagated directional derivative against f(hi) - f(lo).
        Used (a) when the first tableau over [-H, H] was inconsistent although the value is evaluated accurately - either the value varies
        on a much shorter scale (smooth) or it has a jump / kink inside the stencil - and (b) over a factor 2 either side of a parameter
        that lives on a logarithmic scale.  Returns a detail dict on disagreement, "open" if the quadrature does not settle, else None."""
        p = self.leaf_of[inf["id"]]
        keep = p.tensor
        shape = x0.shape
        try:
            def f(t):
                p.tensor = (x0.detach().reshape(-1) + t * torch.as_tensor(d, dtype=x0.dtype)).reshape(shape)
                return self.value()

            fb, fa = f(hi), f(lo)
            if not (math.isfinite(fb) and math.isfinite(fa)):
                return None
            diff = fb - fa
            # evaluation noise of the value at both ends: fourth differences of evaluations 1e-3 of the width apart (see numdiff)
            sigma = 0.0
            for end in (lo, hi):
                ts = [end + (k - 3.6) * 1e-3 * (hi - lo) for k in numdiff.PROBE_OFFSETS]
                pv = [f(t) for t in ts]
                if all(math.isfinite(v) for v in pv):
                    sigma = max(sigma, numdiff.noise_amplitude_irregular(ts, pv))
            prev = None
            settled = 0
            gmax = 0.0
            for m in (1, 2, 4, 8, 16, 32):
                q = 0.0
                w = 0.5 * (hi - lo) / m
                for k in range(m):
                    mid = lo + (2 * k + 1) * w
                    for u, wt in zip(*self.GL5):
                        v = self.autodiff_at(inf, x0, d, mid + u * w)
                        if v is None or not math.isfinite(v):
                            return None
                        gmax = max(gmax, abs(v))
                        q += w * wt * v
                scale = max(abs(diff), (hi - lo) * gmax, 1e-300)
                if prev is not None:
                    unc = abs(q - prev)
                    gap = abs(q - diff)
                    settled = settled + 1 if unc <= max(1e-7 * scale, 0.2 * gap) else 0
                    # a smooth but sharply peaked integrand can look settled once by accident: two successive refinements must agree
                    if settled >= 2 or (settled == 1 and unc <= 1e-7 * scale):
                        tol = rtol * scale + 3.0 * unc + 8.0 * sigma + 64.0 * EPS * max(abs(fa), abs(fb))
                        if gap > tol:
                            return {"interval": [lo, hi], "value_difference": diff, "integral_of_gradient": q, "panels": m,
                                    "quadrature_change_last_refinement": unc, "largest_gradient": gmax, "value_noise": sigma}
                        return None
                prev = q
            return "open"
        finally:
            p.tensor = keep

    def confirm(self, inf, r, x0, bad):
        """a tentative disagreement is re-examined with two other, unrelated step sequences (rounding errors of the value can be
        coherent along one sequence); `bad(fd, err, noise)` -> disagreement?  Returns the list of confirming estimates, or None"""
        p = self.leaf_of[inf["id"]]
        shape = x0.shape
        d = r["d"]
        was = p.requires_grad
        keep = p.tensor

        def setx(t):
            p.tensor = (x0.detach().reshape(-1) + t * torch.as_tensor(d, dtype=x0.dtype)).reshape(shape)

        def f(t):
            setx(t)
            return self.value()

        out = []
        ok = True
        for scale in (0.77, 0.53):
            g, err, meta = numdiff.derivative(f, r["h0"] * scale, probes=8)
            out.append([g, err])
            if not meta["finite"] or err > 1e-4 * max(1.0, abs(g)) or not bad(g, err, meta["noise"]):
                ok = False
                break
        if ok:
            # three estimates from unrelated step sequences: if they scatter more than their own error estimates admit, those
            # estimates are not to be trusted (round-off of a value dominated by cancellation) and the scatter is the error
            ests = [r["fd"]] + [o[0] for o in out]
            spread = max(ests) - min(ests)
            mid = 0.5 * (max(ests) + min(ests))
            if spread > 2.0 * max([r["err"]] + [o[1] for o in out]) and not bad(mid, spread, 0.0):
                ok = False
                self.lab("fd_estimates_scatter")
        p.tensor = keep  # the tensor that carries the gradient
        if was and not p.requires_grad:
            p.requires_grad = True
        return out if ok else None

    def compare(self, inf, grad, fds, x0, ident):
        owner, role = inf["owner"], inf["role"]
        name = "%s/%s" % (owner, role)
        nt = (owner.split("[")[0], role) not in NT_FALSE and (owner, role) not in NT_FALSE
        if inf.get("nt") is not None:
            nt = inf["nt"]
        g = None if grad is None else arr(grad).reshape(-1)
        if g is not None and not np.all(np.isfinite(g)):
            self.fail(inf, "nonfinite", {"grad": g.tolist(), "fd": [[r["dir"], r["fd"]] for r in fds]})
            self.lab(name)
            self.evals += 1
            return
        done = 0
        if inf.get("wide") and not inf["layers"] and g is not None and g.size == 1 and float(arr(x0).reshape(-1)[0]) != 0.0:
            x = float(arr(x0).reshape(-1)[0])
            near = math.copysign(max(abs(x) / inf["wide"], min(inf.get("wide_floor", 0.0), abs(x))), x)  # not below the accuracy limit of the formula
            far = math.copysign(min(abs(x) * inf["wide"], max(inf.get("wide_cap", math.inf), abs(x))), x)  # exp(growth x time) stays in range
            a, b = sorted((near - x, far - x))
            bad = self.interval_check(inf, np.ones(1), x0, a, b, rtol=1e-4)
            self.lab("interval_check_wide")
            self.evals += 1
            if bad == "open":
                self.lab("interval_check_open")
            elif bad is not None:
                self.fail(inf, "interval_mismatch", dict(bad, direction="e0", x=[x]))
        for r in fds:
            self.evals += 1
            if not r["finite"]:
                self.lab("fd_value_not_finite")
                continue
            if r.get("rough") and g is not None:
                bad = self.interval_check(inf, r["d"], x0, -r["rough"], r["rough"])
                self.lab("interval_check")
                if bad == "open":
                    self.lab("interval_check_open")
                elif bad is not None:
                    self.fail(inf, "interval_mismatch", dict(bad, direction=r["dir"], x=arr(x0).reshape(-1)[:12].tolist()))
            fd, err = r["fd"], r["err"]
            if err > 1e-4 * max(1.0, abs(fd)):
                self.lab("fd_inconclusive")
                continue
            done += 1
            detail = {"direction": r["dir"], "fd": fd, "fd_error_estimate": err, "step": r["h"], "x": arr(x0).reshape(-1)[:12].tolist()}
            clear = abs(fd) > 50.0 * err + 1e3 * r["noise"]
            kind = None
            if g is None:
                if clear:
                    kind, bad = "missing", lambda a, e, nz: abs(a) > 50.0 * e + 1e3 * nz
                elif abs(fd) > TOL + err:
                    kind, bad = "mismatch", lambda a, e, nz: abs(a) > TOL + e
                    detail["ad"] = None
                else:
                    self.lab("no_influence:" + name)
                    continue
            else:
                ad = float(np.dot(g, r["d"]))
                detail["ad"] = ad
                if clear and ad == 0.0:
                    kind, bad = "zero", lambda a, e, nz: abs(a) > 50.0 * e + 1e3 * nz
                elif abs(ad - fd) > TOL * max(1.0, abs(fd)) + err:
                    kind, bad = "mismatch", lambda a, e, nz, ad=ad: abs(ad - a) > TOL * max(1.0, abs(a)) + e
                if abs(fd) <= TOL and ad == 0.0:
                    self.lab("no_influence:" + name)
            if kind is not None:
                again = self.confirm(inf, r, x0, bad)
                if again is None:
                    self.lab("fd_not_confirmed")
                else:
                    detail["fd_other_steps"] = again
                    self.fail(inf, kind, detail)
        if done:
            self.lab(name, done)
            self.lab("layers=%d" % inf["layers"], done)
            if nt:
                self.keys.append((name, inf["layers"], ident))


def rnd(v, nd=6):
    if isinstance(v, (list, tuple)):
        return [rnd(x, nd) for x in v]
    if isinstance(v, float):
        return float("%.*g" % (nd, v))
    if isinstance(v, dict):
        return {k: rnd(x, nd) for k, x in sorted(v.items())}
    return v


def interior(p, lo=1e-3, hi=0.999):
    return min(hi, max(lo, p))


def height_rows(t):
    """node heights [..., 2n-1] -> list of rows (one per sample)"""
    a = arr(t)
    return a.reshape(-1, a.shape[-1]).tolist()


def heights_events(dic, tree_id="tree"):
    def ev():
        out = []
        for nh in height_rows(dic[tree_id].node_heights):
            n = (len(nh) + 1) // 2
            out.append((nh, [True] * n + [False] * (n - 1)))
        return out
    return ev


# =========================================================================== likelihood
@st.composite
def like_cases(draw, tree_kinds=None, families=("nucleotide", "nucleotide", "nucleotide", "general", "aa", "codon")):
    c = draw(phylo.like_case(families=families, tree_kinds=tree_kinds))
    c["rescale"] = draw(st.booleans())
    c["ex"] = draw(extras())
    return c


def prepare_like(c):
    """interior point: probabilities inside (0,1), internal node heights separated by construction"""
    c = copy.deepcopy(c)
    s = c["site"]
    if "pinv" in s:
        s["pinv"] = interior(s["pinv"], 1e-3, 0.9)
    t = c["tree"]
    if not t["kind"].startswith("unrooted"):
        topo, names, dates, bl, h = phylo.tree_geometry(c)
        n = topo.n
        span = max(h[topo.root], 1e-3)
        hs = separate({i: h[i] for i in range(n, 2 * n - 1)}, t["tip_heights"], c["ex"]["sep"] * span)
        hh = dict(h)
        hh.update(hs)
        p = node_parameters(topo, t["tip_heights"], hh, t["kind"])
        if t["kind"] == "time":
            t["incs"] = [hh[node] - max(hh[l], hh[r]) for node, l, r in topo.post]
        elif t["kind"] == "shift":
            t["shifts"] = p["shifts"]
        else:
            t["ratios"] = p["ratios"]
            t["root_inc"] = hh[topo.root] - p["root_bound"]
            c["_root_bound"] = p["root_bound"]
    return c


SUBST_CLS = {"JC69": "JC69", "HKY": "HKY", "GTR": "GTR", "GeneralJC69": "GeneralJC69", "GeneralSym": "GeneralSymmetricSubstitutionModel",
             "GeneralNonSym": "GeneralNonSymmetricSubstitutionModel", "LG": "LG", "WAG": "WAG", "MG94": "MG94"}
EIGH = {"HKY", "GTR", "GeneralSym", "MG94"}
# relative eigenvalue gap below which a case is classified repeated_eig: the backward pass of eigh divides by the gap, at 1e-6 the
# gradient of the frequencies was seen to be off by 4e-6 relative (three finite-difference sequences agreeing to 1e-9)
EIG_GAP = 1e-4


def min_rel_gap(Q, pi):
    """smallest relative gap between eigenvalues of the symmetrised rate matrix (numpy)"""
    Q = np.asarray(Q, dtype=float)
    pi = np.asarray(pi, dtype=float)
    S = np.sqrt(pi)[:, None] * Q / np.sqrt(pi)[None, :]
    e = np.sort(np.linalg.eigvalsh(0.5 * (S + S.T)))
    scale = max(float(np.max(np.abs(e))), 1e-300)
    # the symmetrisation scales by sqrt(pi): its conditioning multiplies the error of the backward pass (gap 1.7e-3 with
    # min/max frequency 1/1155: d/d rate off by 1.4e-6 relative against the 40-digit derivative)
    return float(np.min(np.diff(e))) / scale * math.sqrt(float(np.min(pi)) / float(np.max(pi)))


def like_infos(c):
    m, s, t = c["model"], c["site"], c["tree"]
    sub = SUBST_CLS[m["name"]]
    out = []
    for k, dom in (("kappa", "pos"), ("alpha", "pos"), ("beta", "pos"), ("rates", "pos"), ("freqs", "simplex")):
        if k in m:
            out.append(info(k, sub, {"freqs": "frequencies"}.get(k, k), dom))
    site = {"constant": "ConstantSiteModel", "invariant": "InvariantSiteModel"}.get(s["kind"], "WeibullSiteModel")
    if "shape" in s:
        out.append(info("shape", site, "shape", "pos"))
    if "pinv" in s:
        out.append(info("pinv", site, "invariant", "unit"))
    if "mu" in s:
        out.append(info("mu", site, "mu", "pos"))
    kind = t["kind"]
    if kind.startswith("unrooted"):
        out.append(info("bl", "UnRootedTreeModel", "branch_lengths", "pos"))
    else:
        if kind == "time":
            out.append(info("heights", "TimeTreeModel", "heights", "heights"))
        elif kind == "ratio":
            out.append(info("ratios", "ReparameterizedTimeTreeModel[ratio]", "ratios", "unit"))
            out.append(info("root_height", "ReparameterizedTimeTreeModel[ratio]", "root_height", "lower", lower=c.get("_root_bound", 0.0)))
        else:
            out.append(info("shifts", "ReparameterizedTimeTreeModel[shift]", "shifts", "pos"))
        if t["clock"]["kind"] == "strict":
            out.append(info("rate", "StrictClockModel", "rate", "pos"))
        else:
            out.append(info("clock.rates", "SimpleClockModel", "rates", "pos"))
    return out


def like_tags(c, gap=None):
    m = c["model"]
    name = m["name"]
    if gap is None and name in ("HKY", "GTR", "GeneralSym"):
        Q, pi = OL.q_model(m)
        gap = min_rel_gap(Q, pi)
    rep = bool(name in EIGH and gap is not None and gap < EIG_GAP)
    return {"cls": "TreeLikelihoodModel", "subst": name, "site": c["site"]["kind"], "tree": c["tree"]["kind"], "rescale": bool(c.get("rescale")),
            "tip": c["tip"], "decomposition": "eigh" if name in EIGH else "other", "repeated_eig": rep}


def like_pretags(c):
    return like_tags(c)


def like_ident(c):
    return (c["model"]["name"], c["site"]["kind"], c["tree"]["kind"], c["tip"], bool(c.get("rescale")), c["ex"]["order"],
            rnd({k: v for k, v in c["model"].items() if k != "name"}), rnd({k: v for k, v in c["site"].items() if k != "kind"}),
            rnd({k: v for k, v in c["tree"].items() if k not in ("kind",)}), c["topo"], c["cols"][:4])


def like_labels(eng, c):
    t = c["tree"]
    eng.lab("subst=" + c["model"]["name"])
    eng.lab("site=" + c["site"]["kind"] + ("+mu" if "mu" in c["site"] else ""))
    eng.lab("tree=" + t["kind"] + ("" if t["kind"].startswith("unrooted") else "/" + t["clock"]["kind"]))
    eng.lab("rescale=" + ("on" if c.get("rescale") else "off"))
    eng.lab("tip=" + c["tip"])
    eng.lab("order=" + c["ex"]["order"])


def body_like(c0):
    c = prepare_like(c0)
    tags = like_tags(c)
    res = Res(nontrivial=False, key=None, tags=tags)
    infos = like_infos(c)
    specs, _ = apply_plan(batchify(phylo.like_spec(c), infos, c.get("batch"), c["ex"]["sep"]), infos, c["ex"])
    dic = build_all(specs)
    if c["model"]["name"] == "MG94":
        sm = dic["subst"]
        tags.update(like_tags(c, min_rel_gap(arr(sm.q()), arr(sm.frequencies))))
        res.tags = tags
    like = dic["like"]
    if c.get("rescale"):
        like.rescale = True
    events = None if c["tree"]["kind"].startswith("unrooted") else heights_events(dic)
    eng = Engine(res, dic, like, infos, c["ex"], events, tags)
    like_labels(eng, c)
    batch_labels(eng, c, infos)
    eng.run(like_ident(c))
    if c.get("rescale") and not like.rescale:
        raise HarnessError("rescale flag was reset")
    return res


# =========================================================================== degenerate start (deterministic)
def degenerate_cases(tier):
    out = []
    trees = [
        {"topo": {"nested": [[0, 1], [2, 3]]}, "tree": {"kind": "unrooted_tensor", "lengths": [0.1, 0.2, 0.15, 0.3, 0.12, 0.05]}},
        {"topo": {"nested": [[0, [1, 2]], [3, 4]]}, "tree": {"kind": "ratio", "tip_heights": [0.0, 1.0, 0.5, 0.0, 2.0], "calendar": False, "ratios": [0.3, 0.6, 0.45],
                                                            "root_inc": 3.0, "clock": {"kind": "strict", "rate": 0.01}}},
    ]
    cols = [list("ACGTA"), list("AACCG"), list("AGGTT"), list("TTTAC"), list("CCGGA")]
    models = [
        ("cli_start", {"name": "GTR", "rates": [1.0 / 6] * 6, "freqs": [0.25] * 4}, True, True),
        ("cli_start", {"name": "HKY", "kappa": 3.0, "freqs": [0.25] * 4}, False, True),
        ("sym", {"name": "GeneralSym", "k": 4, "mapping": [0, 1, 2, 3, 4, 5], "rates": [1.0 / 6] * 6, "freqs": [0.25] * 4}, True, True),
        ("equal_rates", {"name": "GTR", "rates": [1.0] * 6, "freqs": [0.1, 0.2, 0.3, 0.4]}, True, False),
        ("kappa_one", {"name": "HKY", "kappa": 1.0, "freqs": [0.1, 0.2, 0.3, 0.4]}, True, False),
        ("k80_like", {"name": "GTR", "rates": [1.0, 2.0, 1.0, 1.0, 2.0, 1.0], "freqs": [0.25] * 4}, False, True),
        ("generic", {"name": "GTR", "rates": [0.5, 1.7, 0.8, 1.1, 2.3, 1.0], "freqs": [0.1, 0.2, 0.3, 0.4]}, False, False),
        ("generic", {"name": "HKY", "kappa": 3.0, "freqs": [0.1, 0.2, 0.3, 0.4]}, False, False),
    ]
    for ti, tr in enumerate(trees):
        n = 4 if ti == 0 else 5
        for what, m, eq_r, eq_f in models:
            for site in ({"kind": "constant"}, {"kind": "weibull", "K": 4, "shape": 0.5}):
                c = {"family": "nucleotide", "topo": tr["topo"], "tree": tr["tree"], "model": m, "site": site, "cols": [[col[i] for i in range(n)] for col in cols],
                     "tip": "amb", "seq_order": list(range(n)), "rescale": False, "point": what, "equal_rates": eq_r, "equal_frequencies": eq_f,
                     "ex": {"order": "ad_first", "sep": 1e-2, "layers": [0], "flip": [False], "aff": [[0.0, 1.0]], "picks": [0, 1, 2, 3], "dir": [0.3, -0.7, 0.5, 0.9, -0.2, 0.6], "wrap": False}}
                out.append(c)
    return out


def degenerate_tags(c):
    t = like_tags(c)
    t.update(point=c["point"], equal_rates=bool(c["equal_rates"]), equal_frequencies=bool(c["equal_frequencies"]))
    return t


def body_degenerate(c):
    """the CLI's default start values of GTR / SYM / HKY (and two other points with a repeated eigenvalue): the gradient must be finite
    and equal to the numerical derivative there too"""
    c = prepare_like(c)
    tags = degenerate_tags(c)
    res = Res(nontrivial=False, key=None, tags=tags)
    infos = like_infos(c)
    specs, _ = apply_plan(phylo.like_spec(c), infos, c["ex"])
    dic = build_all(specs)
    events = None if c["tree"]["kind"].startswith("unrooted") else heights_events(dic)
    eng = Engine(res, dic, dic["like"], infos, c["ex"], events, tags)
    eng.lab("point=" + c["point"])
    eng.run(("degenerate", c["point"], c["model"]["name"], c["tree"]["kind"], c["site"]["kind"]))
    return res


# =========================================================================== underflow fallback (deterministic)
def underflow_cases(tier):
    """many divergent taxa: the first evaluation underflows (rescale still off) and falls back to the "safe" peeling - the gradient is taken
    from that very evaluation (ad_first), the numerical derivative from the later, rescaled ones"""
    def balanced(lo, hi):
        if hi - lo == 1:
            return lo
        mid = (lo + hi) // 2
        return [balanced(lo, mid), balanced(mid, hi)]

    out = []
    n = 560
    for k, (model, site) in enumerate([({"name": "JC69"}, {"kind": "constant"}),
                                       ({"name": "HKY", "kappa": 2.7, "freqs": [0.31, 0.19, 0.23, 0.27]}, {"kind": "weibull", "K": 2, "shape": 0.7})]):
        cols = [["ACGT"[(7 * i + 3 * j + (i * i) // 5 + k) % 4] for i in range(n)] for j in range(3)]
        lengths = [0.3 + 1.2 * (((i * 37 + 11 * k) % 101) / 100.0) for i in range(2 * n - 2)]
        out.append({"family": "nucleotide", "topo": {"nested": balanced(0, n)}, "tree": {"kind": "unrooted_tensor", "lengths": lengths}, "model": model, "site": site,
                    "cols": cols, "tip": "noamb", "seq_order": list(range(n)), "rescale": False,
                    "ex": {"order": "ad_first", "sep": 1e-2, "layers": [0], "flip": [False], "aff": [[0.0, 1.0]], "picks": [5 + 301 * k, 600 + 97 * k, 1100 - 13 * k, 3],
                           "dir": [0.3, -0.7, 0.5, 0.9, -0.2, 0.6], "wrap": False}})
    return out


def body_underflow(c):
    tags = dict(like_tags(c), cls="TreeLikelihoodModel", fallback=True)
    res = Res(nontrivial=False, key=None, tags=tags)
    infos = like_infos(c)
    specs, _ = apply_plan(phylo.like_spec(c), infos, c["ex"])
    dic = build_all(specs)
    like = dic["like"]
    if like.rescale:
        raise HarnessError("rescaling is on before the first evaluation")
    eng = Engine(res, dic, like, infos, c["ex"], None, tags)
    eng.lab("subst=" + c["model"]["name"])
    eng.run(("underflow", c["model"]["name"], c["site"]["kind"]))
    if not like.rescale:
        raise HarnessError("the case did not underflow: the fallback was not exercised")
    return res


# =========================================================================== coalescent
TREE_KINDS = ["time", "ratio", "shift"]


@st.composite
def coal_cases(draw):
    c = draw(c08.case(models=c08.MODELS + ["exponential"], nmax=12))
    c["batch"] = 0
    c.pop("scales", None)
    n = len(c["g"]["s"])
    c["route"] = draw(st.sampled_from(["times", "tree", "tree"]))
    c["joins"] = [[draw(st.integers(0, 60)), draw(st.integers(0, 60))] for _ in range(n - 1)]
    c["calendar"] = draw(st.booleans())
    c["kind"] = draw(st.sampled_from(TREE_KINDS))
    c["grid_param"] = draw(st.booleans())
    if c["p"]["model"] == "skygrid" and draw(st.integers(0, 3)) == 0:
        c["temperature"] = draw(logu(0.02, 1.0))  # the soft-sorted skygrid
    if c["p"]["model"] == "exponential" and draw(st.booleans()):
        # slow growth / decline: a valid interior point next to the removable singularity of (exp(g t1) - exp(g t0)) / g
        c["p"]["growth"] = [draw(st.sampled_from([-1.0, 1.0])) * draw(logu(SMALL_GROWTH[0], SMALL_GROWTH[1]))]
    c["ex"] = draw(extras())
    return c


# growth rates this close to zero are generated on purpose; below the lower end the shipped formula loses its digits to cancellation
# (the value and its gradient, NaN at exactly 0: documented TODO in the source), which is C08's exclusion as well
SMALL_GROWTH = (2e-6, 1e-4)


def prepare_coal(c):
    """separate coalescent times from each other, from sampling times and from grid points"""
    c = copy.deepcopy(c)
    g, p = c["g"], c["p"]
    span = max(max(g["c"]), 1e-3)
    delta = c["ex"]["sep"] * span
    fixed = list(g["s"])
    newc = separate({j: t for j, t in enumerate(g["c"])}, fixed, delta)
    g["c"] = [newc[j] for j in range(len(g["c"]))]
    if p["model"] in ("skygrid", "linear"):
        grid = c08.grid_of(p)
        if "cutoff" in p:
            # regular grid: scale the cutoff until no point is within delta of a coalescent time
            m = len(p["theta"])
            for _ in range(200):
                pts = np.linspace(0, p["cutoff"], m)[1:]
                if all(abs(x - t) >= delta for x in pts for t in g["c"]):
                    break
                p["cutoff"] *= 1.0 + 0.37 * c["ex"]["sep"]
            else:
                # no admissible cutoff nearby (many coalescent times, wide separation): use the same points as an
                # explicit grid and move them individually
                pts = np.linspace(0, p.pop("cutoff"), m)[1:].tolist()
                newg = separate({j: t for j, t in enumerate(pts)}, list(g["c"]), delta)
                p["grid"] = sorted(newg.values())
        else:
            newg = separate({j: t for j, t in enumerate(grid)}, list(g["c"]) + (list(g["s"]) if c.get("grid_param") else []), delta)
            p["grid"] = sorted(newg.values())
    if p["model"] == "exponential":
        gr = p["growth"][0]
        if abs(gr) * max(g["c"]) > 30.0:
            p["growth"] = [math.copysign(30.0 / max(g["c"]), gr)]
    return c


def coal_specs(c):
    """-> (specs, infos, events builder)"""
    g, p = c["g"], c["p"]
    n = len(g["s"])
    cls = c08.CLS[p["model"]]
    spec = {"id": "coal", "type": cls, "theta": tt.P("theta", p["theta"])}
    infos = [info("theta", cls, "theta", "pos")]
    if p["model"] == "exponential":
        spec["growth"] = tt.P("growth", p["growth"])
        infos.append(dict(info("growth", cls, "growth", "real"), wide=8.0 if abs(p["growth"][0]) < 1e-3 else 2.0, wide_floor=1e-6, wide_cap=30.0 / max(g["c"]), nowrap=abs(p["growth"][0]) < 1e-3))
    if "grid" in p:
        if c.get("grid_param"):
            spec["grid"] = tt.P("grid", p["grid"])
            infos.append(info("grid", cls, "grid", "heights"))
        else:
            spec["grid"] = p["grid"]
    if "cutoff" in p:
        spec["cutoff"] = p["cutoff"]
    if c.get("temperature") and p["model"] == "skygrid":
        spec["temperature"] = c["temperature"]
        for i in infos:
            i["owner"] = cls + "[soft]"
    if c["route"] == "times":
        times = [g["s"][i] for i in c["perm_s"]] + [g["c"][i] for i in c["perm_c"]]
        events = [1] * n + [0] * (n - 1)
        order = list(range(2 * n - 1))
        order = order[::2] + order[1::2]
        spec["times"] = [times[i] for i in order]
        spec["events"] = [events[i] for i in order]
        return [spec], infos
    topo, hts = c08.tree_from_joins(g, c["joins"])
    h = {i: g["s"][i] for i in range(n)}
    h.update({n + k: hts[k] for k in range(n - 1)})
    ts, ti = tree_specs(topo, g["s"], h, c["kind"], calendar=c.get("calendar", False))
    spec["tree_model"] = "tree"
    return ts + [spec], infos + ti


def coal_events(dic, c):
    def ev():
        m = dic["coal"]
        groups = []
        for e in height_rows(m.tree_model.node_heights):
            n = (len(e) + 1) // 2
            const = [True] * n + [False] * (n - 1)
            if hasattr(m, "grid"):
                gv = arr(m.grid.tensor).reshape(-1).tolist()
                e = e + gv
                const += [not c.get("grid_param")] * len(gv)
            groups.append((e, const))
        if hasattr(m, "growth"):
            # the growth rate must keep its sign (0 is a singular point of the formula) and, when small, its order of magnitude
            groups += [([v, 0.0], [False, True], 0.45) for v in arr(m.growth.tensor).reshape(-1).tolist()]
        return groups
    return ev


def coal_tags(c):
    p = c["p"]
    return {"cls": c08.CLS[p["model"]], "soft": bool(c.get("temperature") and p["model"] == "skygrid"), "route": c["route"], "tree": c["kind"] if c["route"] == "tree" else "none",
            "equal_adjacent": len(p["theta"]) > 1 and any(a == b for a, b in zip(p["theta"][:-1], p["theta"][1:]))}


def body_coal(c0):
    c = prepare_coal(c0)
    tags = coal_tags(c)
    res = Res(nontrivial=False, tags=tags)
    specs, infos = coal_specs(c)
    specs, _ = apply_plan(batchify(specs, infos, c.get("batch"), c["ex"]["sep"]), infos, c["ex"])
    dic = build_all(specs)
    eng = Engine(res, dic, dic["coal"], infos, c["ex"], coal_events(dic, c), tags)
    batch_labels(eng, c, infos)
    p = c["p"]
    eng.lab("model=" + p["model"] + ("[soft]" if c.get("temperature") and p["model"] == "skygrid" else ""))
    eng.lab("route=" + (c["route"] if c["route"] == "times" else "tree/" + c["kind"]))
    eng.lab("order=" + c["ex"]["order"])
    if tags["equal_adjacent"]:
        eng.lab("equal_adjacent_theta")
    if "grid" in p and c.get("grid_param"):
        eng.lab("grid_as_parameter")
    eng.run((p["model"], c["route"], c["kind"], rnd(c["g"]), rnd({k: v for k, v in p.items() if k != "model"}), c.get("joins"), c["ex"]["order"]))
    return res


# =========================================================================== birth-death skyline
@st.composite
def bdsk_cases(draw):
    c = draw(c09.case(mmax=5, allow_r=True))
    c["kind"] = draw(st.sampled_from(TREE_KINDS))
    c["constant_class"] = draw(st.integers(0, 3)) == 0
    c["ex"] = draw(extras())
    return c


def prepare_bdsk(c):
    c = copy.deepcopy(c)
    if c.get("constant_class") and max(c["tree"]["tip_heights"]) > 0:
        # the constant-rate class: one epoch, psi-sampling only, origin given directly
        for k in ("R", "delta", "s"):
            c[k] = c[k][-1:]
        c["rho"], c["bh"], c["root_edge"] = [0.0], [], False
        c.pop("r", None)
    else:
        c["constant_class"] = False
    m = len(c["R"])
    if m > 1:
        c.pop("r", None)  # known C09 crash: removal probability with several epochs
    if "r" in c:
        c["r"] = [interior(x, 1e-3, 0.999) for x in c["r"]]
    c["s"] = [x if x == 0.0 else interior(x) for x in c["s"]]
    c["rho"] = [x if x == 0.0 else interior(x) for x in c["rho"]]
    t = c["tree"]
    topo, names, h = c09.tree_heights(t)
    n = topo.n
    span = max(h[topo.root] + c["extra"], 1e-3)
    delta = c["ex"]["sep"] * span
    tips = t["tip_heights"]
    hs = separate({i: h[i] for i in range(n, 2 * n - 1)}, tips, delta)
    hh = dict(h)
    hh.update(hs)
    c["_h"] = {str(k): v for k, v in hh.items()}
    root = hh[topo.root]
    c["extra"] = max(c["extra"], 2.0 * delta)
    x0 = root + c["extra"]
    # boundaries: below the origin, away from every node and sampling time
    bh = [b for b in c["bh"] if b < x0 - delta]
    newb = separate({j: b for j, b in enumerate(sorted(bh))}, list(tips) + [hh[i] for i in range(n, 2 * n - 1)] + [0.0], delta)
    bh2 = sorted((b for b in newb.values() if b < x0 - delta), reverse=True)
    drop = m - 1 - len(bh2)
    if drop > 0:
        for k in ("R", "delta", "s", "rho"):
            c[k] = c[k][drop:]
        if "r" in c:
            c["r"] = c["r"][drop:]
    c["bh"] = bh2
    m = len(c["R"])
    # a tip is never on a boundary any more: interior rho-sampling events catch nobody, allowed; the last rho stays
    if max(tips) == 0 and all(x == 0 for x in c["s"]) and c["rho"][-1] == 0:
        c["rho"][-1] = 0.4
    return c


def bdsk_specs(c):
    """-> (specs, infos, id of the target)"""
    t = c["tree"]
    topo, names, _ = c09.tree_heights(t)
    h = {int(k): v for k, v in c["_h"].items()}
    x0 = h[topo.root] + c["extra"]
    T = [0.0] + [x0 - b for b in c["bh"]] + [x0]
    ts, ti = tree_specs(topo, t["tip_heights"], h, c["kind"], names=names)
    m = len(c["R"])
    if c.get("constant_class"):
        # the constant-rate class with the same (documented) conversion of the epidemiological parameters
        lam, mu, psi = c09.epi(c["R"][0], c["delta"][0], c["s"][0])
        cls = "BirthDeathModel"
        spec = {"id": "bd", "type": cls, "tree_model": "tree", "lambda": tt.P("bd.lambda", [lam]), "mu": tt.P("bd.mu", [mu]),
                "psi": tt.P("bd.psi", [psi]), "rho": tt.P("bd.rho", [0.0]), "origin": tt.P("bd.origin", [x0]), "survival": c["survival"]}
        infos = [info("bd.lambda", cls, "lambda", "pos"), info("bd.mu", cls, "mu", "pos"), info("bd.psi", cls, "psi", "pos"),
                 info("bd.rho", cls, "rho", "fixed"), info("bd.origin", cls, "origin", "lower", lower=h[topo.root])]
        return ts + [spec], infos + ti, "bd"
    cls = "BDSKModel"
    spec = {"id": "bdsk", "type": cls, "tree_model": "tree", "R": tt.P("R", c["R"]), "delta": tt.P("delta", c["delta"]), "s": tt.P("s", c["s"]),
            "rho": tt.P("rho", c["rho"]), "survival": c["survival"]}
    infos = [info("R", cls, "R", "pos"), info("delta", cls, "delta", "pos"),
             info("s", cls, "s", "unit", skip=[j for j, x in enumerate(c["s"]) if x == 0.0]),
             info("rho", cls, "rho", "unit", skip=[j for j, x in enumerate(c["rho"]) if x == 0.0])]
    for i in infos[2:]:
        if i["skip"]:
            # structural zeros: a transform cannot produce an exact 0, and 0 is not an interior point
            i["nowrap"] = True
            if len(i["skip"]) == len(c[i["id"]]):
                i["domain"] = "fixed"
    if c["root_edge"]:
        spec["origin"] = tt.P("origin", [c["extra"]])
        spec["origin_is_root_edge"] = True
        infos.append(info("origin", cls, "origin", "lower", lower=0.0))
    else:
        spec["origin"] = tt.P("origin", [x0])
        infos.append(info("origin", cls, "origin", "lower", lower=h[topo.root]))
    if m > 1:
        times = T[:-1]
        if c["relative"]:
            times = [x / x0 for x in times]
            spec["relative_times"] = True
        if c["times_as"] == "list":
            spec["times"] = times
        else:
            spec["times"] = tt.P("times", times)
            infos.append(info("times", cls, "times", "heights", skip=[0]))
    if "r" in c:
        spec["removal_probability"] = tt.P("r", c["r"])
        infos.append(info("r", cls, "removal_probability", "unit"))
    return ts + [spec], infos + ti, "bdsk"


def bdsk_events(dic, target):
    def ev():
        m = dic[target]
        groups = []
        for e in height_rows(m.tree_model.node_heights):
            n = (len(e) + 1) // 2
            org = float(arr(m.origin.tensor).reshape(-1)[0])
            if getattr(m, "origin_is_root_edge", False):
                org += float(e[-1])
            e = e + [org]
            tm = getattr(m, "times", None)
            if tm is not None:
                tv = arr(tm.tensor).reshape(-1)
                if m.relative_times:
                    tv = tv * org
                e += (org - tv[1:]).tolist()
            groups.append((e, [True] * n + [False] * (len(e) - n)))
        return groups
    return ev


def bdsk_tags(c):
    m = len(c["R"])
    return {"cls": "BDSKModel", "m": "1" if m == 1 else ">1", "r": "r" in c, "relative": bool(c["relative"] and m > 1), "times_as": c["times_as"] if m > 1 else "none",
            "tree": c["kind"], "survival": bool(c["survival"]), "root_edge": bool(c["root_edge"])}


def body_bdsk(c0):
    c = prepare_bdsk(c0)
    specs, infos, target = bdsk_specs(c)
    tags = bdsk_tags(c)
    if target == "bd":
        tags["cls"] = "BirthDeathModel"
    res = Res(nontrivial=False, tags=tags)
    ex = c["ex"]
    specs, _ = apply_plan(batchify(specs, infos, c.get("batch"), ex["sep"]), infos, ex)
    dic = build_all(specs)
    eng = Engine(res, dic, dic[target], infos, ex, bdsk_events(dic, target), tags)
    batch_labels(eng, c, infos)
    m = len(c["R"])
    eng.lab("target=" + tags["cls"])
    eng.lab("m=%d" % m if m <= 3 else "m>3")
    eng.lab("tree=" + c["kind"])
    eng.lab("serial" if max(c["tree"]["tip_heights"]) > 0 else "iso")
    for k in ("survival", "root_edge", "relative"):
        eng.lab("%s=%s" % (k, bool(c[k])))
    if "r" in c:
        eng.lab("removal_probability")
    if m > 1:
        eng.lab("times_as=" + c["times_as"])
    eng.lab("order=" + ex["order"])
    eng.run((target, c["kind"], rnd({k: c[k] for k in ("R", "delta", "s", "rho", "bh", "extra", "_h")}), c.get("r") and rnd(c["r"]), c["survival"], c["root_edge"],
             c["relative"], c["times_as"], c["tree"]["topo"], ex["order"]))
    return res


# =========================================================================== GMRF and integrated priors
def gc_topo(g):
    """Topo (torchtree numbering) and {node: height} of a vt.gen.coal genealogy"""
    n = g["n"]
    children = {n + i: (a, b) for i, (a, b) in enumerate(g["joins"])}

    def nested(node):
        if node < n:
            return node
        l, r = children[node]
        return [nested(l), nested(r)]

    topo = Topo(nested(2 * n - 2))
    _, hts, _ = gc.tree_of(g)
    h = {i: g["samp"][i] for i in range(n)}
    h.update({n + k: hts[k] for k in range(n - 1)})
    return topo, h


def prepare_genealogy(g, sep):
    g = copy.deepcopy(g)
    span = max(max(g["coal"]), 1e-3)
    new = separate({j: t for j, t in enumerate(g["coal"])}, g["samp"], sep * span)
    g["coal"] = [new[j] for j in range(len(g["coal"]))]
    return g


@st.composite
def gmrf_cases(draw):
    what = draw(st.sampled_from(["gmrf", "gmrf", "integrated", "coalint", "covariate"]))
    c = {"what": what, "ex": draw(extras()), "kind": draw(st.sampled_from(TREE_KINDS))}
    if what == "covariate":
        # skygrid with covariates: field of length N, design matrix [N, P], effect sizes [P], precision
        n = draw(st.integers(2, 10))
        k = draw(st.integers(1, 3))
        c["variant"] = "plain"
        c["x"] = [draw(fl(-3.0, 3.0)) for _ in range(n)]
        c["Z"] = [[draw(fl(-2.0, 2.0)) for _ in range(k)] for _ in range(n)]
        c["coef"] = [draw(fl(-2.0, 2.0)) for _ in range(k)]
        c["tau"] = draw(logu(1e-3, 1e3))
        c["Z_as"] = draw(st.sampled_from(["list", "param", "param"]))
        return c
    if what == "coalint":
        c["g"] = draw(gc.genealogies(2, 10))
        c["alpha"] = draw(logu(1e-3, 1e2))
        c["beta"] = draw(logu(1e-3, 1e2))
        return c
    c["variant"] = draw(st.sampled_from(["plain", "weighted", "time_aware", "time_aware"]))
    if c["variant"] == "time_aware":
        c["g"] = draw(gc.genealogies(3, 10))
        n = c["g"]["n"] - 1
        c["rescale"] = draw(st.sampled_from([None, True, False]))
    else:
        n = draw(st.integers(2, 12))
    scale = draw(st.sampled_from([1e-2, 1.0, 1.0, 10.0]))
    offset = draw(st.sampled_from([0.0, 0.0, 3.0, -100.0]))
    c["x"] = [offset + scale * draw(fl(-1.0, 1.0)) for _ in range(n)]
    if c["variant"] == "weighted":
        c["weights"] = [draw(logu(1e-2, 1e2)) for _ in range(n - 1)]
    if what == "gmrf":
        c["tau"] = draw(logu(1e-3, 1e3))
    else:
        c["shape"] = draw(logu(1e-3, 1e2))
        c["rate"] = draw(logu(1e-3, 1e2))
    return c


def body_gmrf(c):
    ex = c["ex"]
    what = c["what"]
    specs, infos = [], []
    if "g" in c:
        g = prepare_genealogy(c["g"], ex["sep"])
        topo, h = gc_topo(g)
        specs, infos = tree_specs(topo, g["samp"], h, c["kind"])
    if what == "coalint":
        cls = "ConstantCoalescentIntegratedModel"
        specs.append({"id": "target", "type": cls, "alpha": c["alpha"], "beta": c["beta"], "tree_model": "tree"})
        variant = "tree"
    elif what == "covariate":
        cls = "GMRFCovariate"
        variant = "covariates:" + c["Z_as"]
        spec = {"id": "target", "type": cls, "field": tt.P("field", c["x"]), "precision": tt.P("gmrf.precision", [c["tau"]]),
                "beta": tt.P("gmrf.beta", c["coef"]), "covariates": c["Z"] if c["Z_as"] == "list" else tt.P("gmrf.covariates", c["Z"])}
        infos += [info("field", cls, "field", "real"), info("gmrf.precision", cls, "precision", "pos"), info("gmrf.beta", cls, "beta", "real")]
        if c["Z_as"] == "param":
            infos.append(info("gmrf.covariates", cls, "covariates", "real"))
        specs.append(spec)
    else:
        cls = "GMRF" if what == "gmrf" else "GMRFGammaIntegrated"
        variant = c["variant"]
        spec = {"id": "target", "type": cls, "x": tt.P("field", c["x"])}
        infos.append(info("field", cls, "field", "real"))
        if what == "gmrf":
            spec["precision"] = tt.P("gmrf.precision", [c["tau"]])
            infos.append(info("gmrf.precision", cls, "precision", "pos"))
        else:
            spec["shape"], spec["rate"] = c["shape"], c["rate"]
        if variant == "weighted":
            spec["weights"] = tt.P("weights", c["weights"])
            infos.append(info("weights", cls, "weights", "pos"))
        elif variant == "time_aware":
            spec["tree_model"] = "tree"
            if c["rescale"] is not None:
                spec["rescale"] = c["rescale"]
        specs.append(spec)
    tags = {"cls": cls, "variant": variant, "tree": c["kind"] if "g" in c else "none"}
    res = Res(nontrivial=False, tags=tags)
    specs, _ = apply_plan(batchify(specs, infos, c.get("batch"), ex["sep"]), infos, ex)
    dic = build_all(specs)
    if "g" in c and not np.all(arr(dic["tree"].branch_lengths()) > 0):
        raise HarnessError("generator produced an invalid time tree")
    eng = Engine(res, dic, dic["target"], infos, ex, heights_events(dic) if "g" in c else None, tags)
    batch_labels(eng, c, infos)
    eng.lab("target=%s/%s" % (cls, variant))
    if "g" in c:
        eng.lab("tree=" + c["kind"])
        eng.lab("hetero" if max(c["g"]["samp"]) > 0 else "iso")
    eng.lab("order=" + ex["order"])
    eng.run((cls, variant, c.get("kind"), rnd({k: v for k, v in c.items() if k not in ("ex",)}), ex["order"]))
    return res


# =========================================================================== CTMC scale, tree priors
@st.composite
def prior_cases(draw):
    what = draw(st.sampled_from(["ctmc_time", "ctmc_time", "ctmc_unrooted", "gamma_dirichlet", "gamma_dirichlet", "poisson", "poisson"]))
    c = {"what": what, "ex": draw(extras())}
    if what in ("ctmc_time", "poisson"):
        c["g"] = draw(gc.genealogies(2, 10))
        c["kind"] = draw(st.sampled_from(TREE_KINDS))
        if what == "poisson":
            n = c["g"]["n"]
            c["clock"] = draw(st.sampled_from(["strict", "simple"]))
            c["rates"] = [draw(logu(1e-2, 10.0)) for _ in range(2 * n - 2 if c["clock"] == "simple" else 1)]
            c["counts"] = [draw(st.integers(0, 6)) for _ in range(2 * n - 2)]
            return c
    else:
        c["topo"] = draw(topology(3 if what == "ctmc_unrooted" else 3, 9))
        n = len(c["topo"]["perm"])
        c["bl"] = [draw(logu(1e-4, 10.0)) for _ in range(2 * n - 3)]
    if what.startswith("ctmc"):
        c["rate"] = draw(logu(1e-4, 1e2))
    else:
        for k in ("alpha", "c", "shape", "rate"):
            c[k] = draw(logu(0.05, 20.0))
    return c


def unrooted_specs(c):
    topo = phylo.case_topo(c)
    n = topo.n
    names = names_for(n)
    taxa = {"id": "taxa", "type": "Taxa", "taxa": [{"id": names[i], "type": "Taxon"} for i in range(n)]}
    tree = {"id": "tree", "type": "UnRootedTreeModel", "newick": topo.newick(names), "taxa": "taxa", "branch_lengths": tt.P("bl", c["bl"])}
    return [taxa, tree], [info("bl", "UnRootedTreeModel", "branch_lengths", "pos")]


def body_priors(c):
    ex = c["ex"]
    what = c["what"]
    if what in ("ctmc_time", "poisson"):
        g = prepare_genealogy(c["g"], ex["sep"])
        topo, h = gc_topo(g)
        specs, infos = tree_specs(topo, g["samp"], h, c["kind"])
        events_needed = True
    else:
        specs, infos = unrooted_specs(c)
        events_needed = False
    if what == "poisson":
        cls = "PoissonTreeLikelihood"
        if c["clock"] == "strict":
            clock = {"id": "clock", "type": "StrictClockModel", "tree_model": "tree", "rate": tt.P("rate", c["rates"])}
            infos.append(info("rate", "StrictClockModel", "rate", "pos"))
        else:
            clock = {"id": "clock", "type": "SimpleClockModel", "tree_model": "tree", "rate": tt.P("clock.rates", c["rates"])}
            infos.append(info("clock.rates", "SimpleClockModel", "rates", "pos"))
        specs.append({"id": "target", "type": cls, "tree_model": "tree", "branch_model": clock, "edge_lengths": c["counts"]})
    elif what.startswith("ctmc"):
        cls = "CTMCScale"
        specs.append({"id": "target", "type": cls, "x": tt.P("rate", [c["rate"]]), "tree_model": "tree"})
        infos.append(info("rate", cls, "x", "pos"))
    else:
        cls = "CompoundGammaDirichletPrior"
        spec = {"id": "target", "type": cls, "tree_model": "tree"}
        for k in ("alpha", "c", "shape", "rate"):
            spec[k] = tt.P("cgd." + k, [c[k]])
            infos.append(info("cgd." + k, cls, k, "pos"))
        specs.append(spec)
    tags = {"cls": cls, "tree": c.get("kind", "unrooted")}
    res = Res(nontrivial=False, tags=tags)
    specs, _ = apply_plan(batchify(specs, infos, c.get("batch"), ex["sep"]), infos, ex)
    dic = build_all(specs)
    eng = Engine(res, dic, dic["target"], infos, ex, heights_events(dic) if events_needed else None, tags)
    batch_labels(eng, c, infos)
    eng.lab("target=" + cls)
    eng.lab("tree=" + tags["tree"])
    eng.lab("order=" + ex["order"])
    eng.run((cls, tags["tree"], rnd({k: v for k, v in c.items() if k != "ex"}), ex["order"]))
    return res


# =========================================================================== distribution models
DIST_MENU = [
    # (class path, domain of x, [(parameter, domain)])
    ("torchtree.distributions.log_normal.LogNormal", "pos", [("mean", "pos"), ("scale", "pos")]),
    ("torchtree.distributions.log_normal.LogNormal", "pos", [("mean", "pos"), ("stdev", "pos")]),
    ("torchtree.distributions.normal.Normal", "real", [("loc", "real"), ("precision", "pos")]),
    ("torchtree.distributions.normal.Normal", "real", [("loc", "real"), ("scale", "pos")]),
    ("torchtree.distributions.inverse_gamma.InverseGamma", "pos", [("concentration", "pos"), ("rate", "pos")]),
    ("torchtree.distributions.one_on_x.OneOnX", "pos", []),
    ("torch.distributions.Gamma", "pos", [("concentration", "pos"), ("rate", "pos")]),
    ("torch.distributions.Normal", "real", [("loc", "real"), ("scale", "pos")]),
    ("torch.distributions.LogNormal", "pos", [("loc", "real"), ("scale", "pos")]),
    ("torch.distributions.Exponential", "pos", [("rate", "pos")]),
    ("torch.distributions.Beta", "unit", [("concentration1", "pos"), ("concentration0", "pos")]),
    ("torch.distributions.Dirichlet", "simplex", [("concentration", "posk")]),
    ("torch.distributions.Cauchy", "real", [("loc", "real"), ("scale", "pos")]),
    ("torch.distributions.Weibull", "pos", [("scale", "pos"), ("concentration", "pos")]),
    ("torch.distributions.StudentT", "real", [("df", "pos"), ("loc", "real"), ("scale", "pos")]),
]


def _vals(draw, dom, k):
    if dom == "pos":
        return [draw(logu(0.05, 20.0)) for _ in range(k)]
    if dom == "unit":
        return [draw(fl(0.02, 0.98)) for _ in range(k)]
    if dom == "simplex":
        return draw(simplex(k))
    return [draw(fl(-3.0, 3.0)) for _ in range(k)]


@st.composite
def dist_cases(draw):
    what = draw(st.sampled_from(["distribution", "distribution", "bridge", "scale_mixture", "mvn", "det_normal"]))
    c = {"what": what, "ex": draw(extras()), "torch_seed": draw(st.integers(0, 2 ** 31 - 1))}
    k = draw(st.integers(1, 5))
    c["k"] = k
    if what == "distribution":
        j = draw(st.integers(0, len(DIST_MENU) - 1))
        path, xdom, pars = DIST_MENU[j]
        if xdom == "simplex":
            k = c["k"] = max(k, 2)
        c["menu"] = j
        c["x"] = _vals(draw, xdom, k)
        c["split"] = bool(k >= 2 and xdom != "simplex" and draw(st.booleans()))
        c["par"] = {name: _vals(draw, "pos" if dom == "posk" else dom, k if (dom == "posk" or draw(st.booleans())) else 1) for name, dom in pars}
    elif what == "bridge":
        c["form"] = draw(st.sampled_from(["alpha", "local", "local_slab_number"]))
        c["x"] = [draw(st.sampled_from([-1.0, 1.0])) * draw(logu(0.05, 5.0)) for _ in range(k)]
        c["scale"] = draw(logu(0.05, 20.0))
        c["alpha"] = draw(logu(0.1, 4.0))
        c["local"] = [draw(logu(0.05, 20.0)) for _ in range(k)]
        c["slab"] = draw(logu(0.05, 20.0))
    elif what == "scale_mixture":
        c["x"] = [draw(fl(-3.0, 3.0)) for _ in range(k)]
        c["loc"] = draw(fl(-2.0, 2.0))
        c["loc_as"] = draw(st.sampled_from(["number", "param"]))
        c["scale"] = draw(logu(0.05, 20.0))
        c["local"] = [draw(logu(0.05, 20.0)) for _ in range(k)]
        c["slab"] = draw(st.one_of(st.none(), logu(0.05, 20.0)))
    elif what == "mvn":
        c["x"] = [draw(fl(-3.0, 3.0)) for _ in range(k)]
        c["loc"] = [draw(fl(-2.0, 2.0)) for _ in range(k)]
        c["split"] = bool(k >= 2 and draw(st.booleans()))
        c["par"] = draw(st.sampled_from(["scale_tril", "covariance_matrix", "precision_matrix"]))
        c["L"] = [[(draw(logu(0.5, 2.0)) if a == b else (draw(fl(-1.0, 1.0)) if b < a else 0.0)) for b in range(k)] for a in range(k)]
    else:
        c["x"] = [draw(fl(-3.0, 3.0)) for _ in range(k)]
        c["loc"] = [draw(fl(-2.0, 2.0)) for _ in range(k)]
        c["scale"] = [draw(logu(0.05, 20.0)) for _ in range(k)]
    return c


def body_dist(c):
    torch.manual_seed(c["torch_seed"])
    ex = c["ex"]
    what = c["what"]
    k = c["k"]
    infos = []
    events = None

    def xspec(owner, dom, split=False, nt=False):
        if split:
            infos.extend([info("x.a", owner, "x", dom), info("x.b", owner, "x", dom)])
            return [tt.P("x.a", c["x"][:1]), tt.P("x.b", c["x"][1:])]
        infos.append(info("x", owner, "x", dom))
        return tt.P("x", c["x"])

    if what == "distribution":
        path, xdom, pars = DIST_MENU[c["menu"]]
        short = path.rsplit(".", 1)[1]
        owner = "Distribution[%s%s]" % ("torchtree." if path.startswith("torchtree") else "", short)
        spec = {"id": "target", "type": "Distribution", "distribution": path, "x": xspec(owner, xdom, c["split"])}
        if pars:
            spec["parameters"] = {}
            for name, dom in pars:
                spec["parameters"][name] = tt.P("par." + name, c["par"][name])
                infos.append(info("par." + name, owner, name, "pos" if dom == "posk" else dom))
        variant = "+".join(n for n, _ in pars) or "none"
    elif what == "bridge":
        owner = "BayesianBridge"
        spec = {"id": "target", "type": owner, "x": xspec(owner, "real"), "scale": tt.P("bb.scale", [c["scale"]])}
        infos.append(info("bb.scale", owner, "scale", "pos"))
        if c["form"] == "alpha":
            spec["alpha"] = tt.P("bb.alpha", [c["alpha"]])
            infos.append(info("bb.alpha", owner, "alpha", "pos"))

            # |x|^alpha has a kink at 0: every x_i keeps its sign
            events = lambda: [([v, 0.0], [False, True], 0.45) for v in arr(dic["x"].tensor).reshape(-1).tolist()]  # noqa: E731
        else:
            spec["local_scale"] = tt.P("bb.local", c["local"])
            infos.append(info("bb.local", owner, "local_scale", "pos"))
            if c["form"] == "local":
                spec["slab"] = tt.P("bb.slab", [c["slab"]])
                infos.append(info("bb.slab", owner, "slab", "pos"))
            else:
                spec["slab"] = c["slab"]
        variant = c["form"]
    elif what == "scale_mixture":
        owner = "ScaleMixtureNormal"
        spec = {"id": "target", "type": owner, "x": xspec(owner, "real"), "global_scale": tt.P("sm.global", [c["scale"]]),
                "local_scale": tt.P("sm.local", c["local"])}
        infos += [info("sm.global", owner, "global_scale", "pos"), info("sm.local", owner, "local_scale", "pos")]
        if c["loc_as"] == "param":
            spec["loc"] = tt.P("sm.loc", [c["loc"]])
            infos.append(info("sm.loc", owner, "loc", "real"))
        else:
            spec["loc"] = c["loc"]
        if c["slab"] is not None:
            spec["slab"] = tt.P("sm.slab", [c["slab"]])
            infos.append(info("sm.slab", owner, "slab", "pos"))
        variant = "loc:%s%s" % (c["loc_as"], "+slab" if c["slab"] is not None else "")
    elif what == "mvn":
        owner = "MultivariateNormal"
        L = np.array(c["L"], dtype=float)
        par = c["par"]
        if par == "scale_tril":
            M = L
            minfo = info("mvn.matrix", owner, par, "real", skip=[a * k + b for a in range(k) for b in range(k) if b > a])
        else:
            M = L @ L.T + 0.5 * np.eye(k)
            minfo = info("mvn.matrix", owner, par, "sym")
        minfo["nowrap"] = True
        infos.append(info("mvn.loc", owner, "loc", "real"))
        infos.append(minfo)
        spec = {"id": "target", "type": owner, "x": xspec(owner, "real", c["split"]), "parameters": {"loc": tt.P("mvn.loc", c["loc"]), par: tt.P("mvn.matrix", M.tolist())}}
        variant = par
    else:
        owner = "DeterministicNormal"
        spec = {"id": "target", "type": owner, "x": xspec(owner, "real"), "loc": tt.P("dn.loc", c["loc"]), "scale": tt.P("dn.scale", c["scale"]), "shape": []}
        infos += [info("dn.loc", owner, "loc", "real"), info("dn.scale", owner, "scale", "pos")]
        variant = "plain"
    for i in infos:
        i["nt"] = False  # element-wise formulas and library calls: no indexed / masked / in-place operation on the way
    tags = {"cls": owner, "variant": variant}
    res = Res(nontrivial=False, tags=tags)
    specs, _ = apply_plan(batchify([spec], infos, c.get("batch"), ex["sep"]), infos, ex)
    dic = build_all(specs)
    eng = Engine(res, dic, dic["target"], infos, ex, events, tags)
    batch_labels(eng, c, infos)
    eng.lab("target=%s/%s" % (owner, variant))
    eng.lab("order=" + ex["order"])
    eng.run((owner, variant, rnd({a: b for a, b in c.items() if a not in ("ex", "torch_seed")}), ex["order"]))
    return res


# =========================================================================== Jacobian terms
@st.composite
def jacobian_cases(draw):
    what = draw(st.sampled_from(["transformed", "transformed", "tree", "tree", "own"]))
    ex = draw(extras())
    c = {"what": what, "ex": ex}
    if what == "own":
        # the transforms the package ships itself; the leaf is the unconstrained argument, given either as one
        # Parameter or as the list [first entry, remaining entries] the CLI writes for non-centred skygrids
        c["transform"] = draw(st.sampled_from(OWN_TRANSFORMS))
        c["path"] = draw(st.sampled_from(["short", "full"]))
        k = draw(st.integers(1, 6))
        c["v"] = [draw(logu(1e-2, 1e2)) if c["transform"] == "LogTransform" else draw(fl(-3.0, 3.0)) for _ in range(k)]
        c["split"] = draw(st.booleans()) and k >= 2
        return c
    if what == "tree":
        c["g"] = draw(gc.genealogies(3, 12))
        c["kind"] = draw(st.sampled_from(["ratio", "ratio", "shift"]))
        c["calendar"] = draw(st.booleans())
        return c
    ex["layers"] = [draw(st.sampled_from([1, 2])) for _ in range(8)]
    dom = draw(st.sampled_from(["pos", "unit", "simplex", "real", "lower"]))
    k = draw(st.integers(2 if dom == "simplex" else 1, 6))
    c["domain"] = dom
    if dom == "pos":
        c["v"] = [draw(logu(1e-3, 1e3)) for _ in range(k)]
    elif dom == "unit":
        c["v"] = [draw(fl(0.01, 0.99)) for _ in range(k)]
    elif dom == "simplex":
        c["v"] = draw(simplex(k))
    elif dom == "real":
        c["v"] = [draw(fl(-5.0, 5.0)) for _ in range(k)]
    else:
        c["lower"] = draw(fl(-3.0, 3.0))
        c["v"] = [c["lower"] + draw(logu(1e-2, 1e2)) for _ in range(k)]
    return c


OWN_TRANSFORMS = ["CumSumExpTransform", "CumSumTransform", "SoftPlusTransform", "CumSumSoftPlusTransform", "LogTransform"]
OWN_REGISTERED = {"CumSumExpTransform", "LogTransform"}


def body_own_transform(c):
    ex = c["ex"]
    name = c["transform"]
    tags = {"cls": "TransformedParameter", "chain": name, "split": bool(c["split"])}
    res = Res(nontrivial=False, tags=tags)
    path = name if (c["path"] == "short" and name in OWN_REGISTERED) else "torchtree.distributions.transforms." + name
    dom = "pos" if name == "LogTransform" else "real"
    rg = ex["order"] == "ad_first"

    def leaf(pid, vals):
        p = tt.P(pid, vals)
        if rg:
            p["requires_grad"] = True
        return p

    if c["split"]:
        x = [leaf("p.u0", c["v"][:1]), leaf("p.u1", c["v"][1:])]
        ids = ["p.u0", "p.u1"]
    else:
        x = leaf("p.u", c["v"])
        ids = ["p.u"]
    specs = [{"id": "p", "type": "TransformedParameter", "transform": path, "x": x},
             {"id": "target", "type": "JointDistributionModel", "distributions": ["p"]}]
    dic = build_all(specs)
    infos = []
    for pid in ids:
        inf = info(pid, "TransformedParameter", "x", dom)
        inf.update(leaf=pid, chain=[name], layers=1)
        infos.append(inf)
    eng = Engine(res, dic, dic["target"], infos, ex, None, tags)
    eng.lab("chain=" + name)
    eng.lab("order=" + ex["order"])
    eng.run(("own", name, c["split"], rnd(c["v"]), ex["order"]))
    return res


def body_jacobian(c):
    ex = c["ex"]
    if c["what"] == "tree":
        g = prepare_genealogy(c["g"], ex["sep"])
        topo, h = gc_topo(g)
        specs, infos = tree_specs(topo, g["samp"], h, c["kind"], calendar=c["calendar"])
        tags = {"cls": "ReparameterizedTimeTreeModel", "tree": c["kind"]}
        res = Res(nontrivial=False, tags=tags)
        specs, _ = apply_plan(specs, infos, ex)
        dic = build_all(specs)
        eng = Engine(res, dic, dic["tree"], infos, ex, heights_events(dic), tags)
        eng.lab("target=tree_jacobian/" + c["kind"])
        eng.lab("order=" + ex["order"])
        eng.run(("tree", c["kind"], rnd(g), ex["order"]))
        return res
    if c["what"] == "own":
        return body_own_transform(c)
    inf = info("p", "TransformedParameter", "x", c["domain"], lower=c.get("lower"))
    specs, tps = apply_plan([tt.P("p", c["v"])], [inf], ex)
    tags = {"cls": "TransformedParameter", "chain": "+".join(inf["chain"])}
    res = Res(nontrivial=False, tags=tags)
    if not inf["chain"]:
        return res
    # the callables of every layer: the outermost TransformedParameter reports the Jacobian of the last transform only
    layer_ids = ["p.m%d" % k for k in range(len(inf["chain"]) - 1)] + ["p"]
    specs = list(specs) + [{"id": "target", "type": "JointDistributionModel", "distributions": layer_ids}]
    dic = build_all(specs)
    inf["owner"] = "TransformedParameter"
    inf["role"] = "x"
    eng = Engine(res, dic, dic["target"], [inf], ex, None, tags)
    eng.lab("chain=" + tags["chain"])
    eng.lab("order=" + ex["order"])
    eng.run(("tp", tags["chain"], rnd(c["v"]), ex["order"]))
    return res


# =========================================================================== joint distribution
@st.composite
def joint_cases(draw):
    c = draw(phylo.like_case(families=("nucleotide",), nmax=6, tree_kinds=("time", "ratio", "ratio", "shift")))
    c["rescale"] = draw(st.booleans())
    c["coal"] = {"model": draw(st.sampled_from(c08.MODELS + ["none"])), "theta": [draw(logu(1e-2, 1e2)) for _ in range(8)],
                 "growth": draw(st.sampled_from([-1.0, 1.0])) * draw(st.one_of(logu(1e-3, 1.0), logu(1e-3, 1.0), logu(SMALL_GROWTH[0], SMALL_GROWTH[1]))), "gridf": [draw(fl(0.05, 1.5)) for _ in range(5)], "m": draw(st.integers(2, 6))}
    c["with"] = {k: draw(st.booleans()) for k in ("priors", "ctmc", "gmrf", "tree_jacobian", "tp_jacobians")}
    c["field"] = [draw(fl(-2.0, 2.0)) for _ in range(8)]
    c["tau"] = draw(logu(1e-2, 1e2))
    c["ex"] = draw(extras())
    return c


PRIORS = {
    "kappa": ("torch.distributions.LogNormal", {"loc": 1.0, "scale": 1.25}),
    "rates": ("torch.distributions.Gamma", {"concentration": 2.0, "rate": 1.5}),
    "shape": ("torch.distributions.Exponential", {"rate": 2.0}),
    "pinv": ("torch.distributions.Beta", {"concentration1": 1.5, "concentration0": 2.5}),
    "mu": ("torch.distributions.LogNormal", {"loc": 0.0, "scale": 1.0}),
    "rate": ("torch.distributions.LogNormal", {"loc": -4.0, "scale": 2.0}),
    "clock.rates": ("torch.distributions.LogNormal", {"loc": -4.0, "scale": 2.0}),
    "theta": ("torch.distributions.Gamma", {"concentration": 1.5, "rate": 0.1}),
    "growth": ("torch.distributions.Normal", {"loc": 0.0, "scale": 2.0}),
    "shifts": ("torch.distributions.Exponential", {"rate": 0.5}),
    "ratios": ("torch.distributions.Beta", {"concentration1": 1.2, "concentration0": 1.3}),
}


def body_joint(c0):
    c = prepare_like(c0)
    ex = c["ex"]
    tags = like_tags(c)
    tags["cls"] = "JointDistributionModel"
    res = Res(nontrivial=False, tags=tags)
    infos = like_infos(c)
    specs = phylo.like_spec(c)
    topo, names, dates, bl, h = phylo.tree_geometry(c)
    n = topo.n
    root = h[topo.root]
    delta = ex["sep"] * max(root, 1e-3)
    parts = ["like"]
    co = c["coal"]
    model = co["model"]
    grid = None
    if model != "none":
        cls = c08.CLS[model]
        size = {"constant": 1, "exponential": 1, "skyride": n - 1}.get(model, co["m"])
        spec = {"id": "coal", "type": cls, "theta": tt.P("theta", co["theta"][:size]), "tree_model": "tree"}
        infos.append(info("theta", cls, "theta", "pos"))
        if model == "exponential":
            gr = co["growth"]
            if abs(gr) * root > 30.0:
                gr = math.copysign(30.0 / root, gr)
            spec["growth"] = tt.P("growth", [gr])
            infos.append(dict(info("growth", cls, "growth", "real"), wide=8.0 if abs(gr) < 1e-3 else 2.0, wide_floor=1e-6, wide_cap=30.0 / root, nowrap=abs(gr) < 1e-3))
        if model in ("skygrid", "linear"):
            pts = sorted(f * root for f in co["gridf"][: size - 1])
            new = separate({j: t for j, t in enumerate(pts)}, [h[i] for i in range(2 * n - 1)], delta)
            grid = sorted(new.values())
            spec["grid"] = grid
        specs.append(spec)
        parts.append("coal")
    w = c["with"]
    if w["ctmc"] and c["tree"]["clock"]["kind"] == "strict":
        specs.append({"id": "ctmc", "type": "CTMCScale", "x": "rate", "tree_model": "tree"})
        parts.append("ctmc")
    if w["gmrf"] and n >= 3:
        specs.append({"id": "gmrf", "type": "GMRF", "x": tt.P("field", c["field"][: n - 1]), "precision": tt.P("gmrf.precision", [c["tau"]]), "tree_model": "tree"})
        infos += [info("field", "GMRF", "field", "real"), info("gmrf.precision", "GMRF", "precision", "pos")]
        parts.append("gmrf")
    present = {i["id"] for i in infos}
    if w["priors"]:
        for pid, (dist, par) in sorted(PRIORS.items()):
            if pid in present:
                specs.append({"id": "prior." + pid, "type": "Distribution", "distribution": dist, "x": pid, "parameters": par})
                parts.append("prior." + pid)
        if "freqs" in present:
            k = len(c["model"]["freqs"])
            specs.append({"id": "prior.freqs", "type": "Distribution", "distribution": "torch.distributions.Dirichlet", "x": "freqs", "parameters": {"concentration": [1.5] * k}})
            parts.append("prior.freqs")
    if w["tree_jacobian"] and c["tree"]["kind"] != "time":
        parts.append("tree")
    specs, tps = apply_plan(batchify(specs, infos, c.get("batch"), ex["sep"]), infos, ex)
    if w["tp_jacobians"]:
        for i in infos:
            if i["layers"]:
                parts += ["%s.m%d" % (i["id"], k) for k in range(i["layers"] - 1)] + [i["id"]]
    specs = list(specs) + [{"id": "joint", "type": "JointDistributionModel", "distributions": parts}]
    dic = build_all(specs)
    if c.get("rescale"):
        dic["like"].rescale = True

    def events():
        groups = [(e + (grid or []), [True] * n + [False] * (n - 1) + [True] * len(grid or [])) for e in height_rows(dic["tree"].node_heights)]
        if model == "exponential":
            groups += [([v, 0.0], [False, True], 0.45) for v in arr(dic["coal"].growth.tensor).reshape(-1).tolist()]  # one per sample
        return groups

    eng = Engine(res, dic, dic["joint"], infos, ex, events, tags)
    like_labels(eng, c)
    batch_labels(eng, c, infos)
    eng.lab("coalescent=" + model)
    eng.lab("components=%d" % len(parts))
    for k, v in sorted(w.items()):
        if v:
            eng.lab("with_" + k)
    eng.run(("joint", like_ident(c), model, rnd(co), sorted(k for k, v in w.items() if v)))
    return res


# =========================================================================== mixed sample shapes
TREE_OWNERS = ("TimeTreeModel", "ReparameterizedTimeTreeModel[ratio]", "ReparameterizedTimeTreeModel[shift]", "UnRootedTreeModel")
GROUPS = ["tree", "demography", "subst", "site", "clock", "rates", "field", "precision", "x", "params"]


def group_of(inf):
    """the group of parameters an info belongs to (groups are given a sample dimension together), None = never batched"""
    owner, role, dom = inf["owner"], inf["role"], inf["domain"]
    if dom in ("simplex", "fixed", "sym") or inf.get("nowrap") and role in ("s", "rho"):
        return None
    if owner in TREE_OWNERS:
        return "tree"
    if role in ("theta", "growth"):
        return "demography"
    if owner in ("StrictClockModel", "SimpleClockModel"):
        return "clock"
    if owner in ("ConstantSiteModel", "InvariantSiteModel", "WeibullSiteModel"):
        return "site"
    if owner in SUBST_CLS.values():
        return "subst"
    if owner == "BDSKModel" and role in ("R", "delta", "s"):
        return "rates"
    if owner in ("GMRF", "GMRFGammaIntegrated") and role in ("field", "precision"):
        return role
    if owner == "CTMCScale":
        return "x"
    if owner.startswith("Distribution[") or owner in ("BayesianBridge", "ScaleMixtureNormal", "DeterministicNormal", "MultivariateNormal"):
        return "x" if role == "x" else "params"
    return None


def batchify(specs, infos, plan, sep):
    """give the chosen groups of parameters a sample dimension [S, k]: row 0 is the generated point, the other rows are jittered copies
    (event-related parameters by less than sep/8 relative, so that the separation of event times holds in every row)"""
    if not plan:
        return specs
    present = [g for g in GROUPS if any(group_of(i) == g for i in infos)]
    if not present:
        return specs
    chosen = [g for k, g in enumerate(GROUPS) if g in present and (plan["mask"] >> k) & 1]
    if not chosen:
        chosen = [present[plan["mask"] % len(present)]]
    S = plan["S"]
    by_id = {i["id"]: i for i in infos}

    def rows(inf, v):
        dom = inf["domain"]
        event = group_of(inf) == "tree" or inf["role"] in ("origin", "times", "grid")
        out = [list(v)]
        for r in range(1, S):
            row = []
            for j, x in enumerate(v):
                u = cyc(plan["jit"], 3 * r + j)
                if event:
                    row.append(x * (1.0 + u * sep / 8.0))
                elif dom == "pos":
                    row.append(x * (1.0 + 0.3 * u))
                elif dom == "unit":
                    row.append(x + 0.3 * u * min(x, 1.0 - x))
                else:
                    row.append(x + 0.3 * u * max(abs(x), 1e-3) if inf["role"] == "growth" and abs(x) < 1e-3 else x + 0.3 * u)
            out.append(row)
        return out

    def visit(x):
        if isinstance(x, list):
            return [visit(y) for y in x]
        if not isinstance(x, dict):
            return x
        if x.get("type") == "Parameter" and x.get("id") in by_id and isinstance(x.get("tensor"), list) and "full" not in x:
            inf = by_id[x["id"]]
            if group_of(inf) in chosen and x["tensor"] and not isinstance(x["tensor"][0], list):
                inf["last_dim"] = len(x["tensor"])
                inf["batched"] = True
                return dict(x, tensor=rows(inf, x["tensor"]))
            return x
        return {k: visit(v) for k, v in x.items()}

    out = visit(specs)
    plan["chosen"] = chosen
    return out


def batch_labels(eng, c, infos):
    b = c.get("batch")
    if not b:
        return
    groups = sorted({group_of(i) for i in infos if group_of(i)})
    on = set(b.get("chosen", []))
    eng.lab("S=%d" % b["S"])
    eng.lab("batched=" + "+".join(g for g in groups if g in on) + "|unbatched=" + "+".join(g for g in groups if g not in on))
    eng.tags["batched"] = sorted(on)


@st.composite
def mixed_cases(draw):
    what = draw(st.sampled_from(["coal", "coal", "coal", "coal", "like", "like", "gmrf", "bdsk", "priors", "dist", "joint"]))
    if what == "coal":
        inner = draw(coal_cases())
        inner["route"] = draw(st.sampled_from(["tree", "tree", "times"]))
    elif what == "like":
        inner = draw(like_cases(families=("nucleotide",)))
    elif what == "gmrf":
        inner = draw(gmrf_cases())
    elif what == "bdsk":
        inner = draw(bdsk_cases())
    elif what == "dist":
        inner = draw(dist_cases())
    elif what == "joint":
        inner = draw(joint_cases())
    else:
        inner = draw(prior_cases())
    plan = draw(st.sampled_from(["fixed_tree", "tree_only", "random", "random"]))
    mask = {"fixed_tree": 2 ** len(GROUPS) - 2, "tree_only": 1}.get(plan)
    if mask is None:
        mask = sum(int(draw(st.booleans())) << k for k in range(len(GROUPS)))
    inner["batch"] = {"S": draw(st.sampled_from([1, 2, 2, 3])), "mask": mask, "jit": [draw(fl(-1.0, 1.0)) for _ in range(7)]}
    return {"what": what, "case": inner}


def mixed_enumerated(tier):
    """every coalescent class on a real tree in each parameterisation, with (a) the population-size parameters carrying a sample dimension
    and the tree fixed (one tree, S draws of the demography: the variational / point-estimate combination) and (b) the reverse"""
    out = []
    g = {"s": [0.0, 1.0, 0.5, 0.0, 2.0], "c": [1.7, 2.9, 4.2, 6.1]}
    params = {"constant": {"theta": [3.0]}, "exponential": {"theta": [3.0], "growth": [0.21]}, "skyride": {"theta": [2.0, 5.0, 3.0, 1.5]},
              "skygrid": {"theta": [2.0, 5.0, 3.0], "grid": [1.2, 3.3]}, "linear": {"theta": [2.0, 5.0, 3.0], "grid": [1.2, 3.3]}}
    k = 0
    for model, p in params.items():
        for temp in ([None, 0.2] if model == "skygrid" else [None]):
            for kind in TREE_KINDS:
                for plan, mask in (("fixed_tree", 2 ** len(GROUPS) - 2), ("tree_only", 1)):
                    k += 1
                    c = {"g": g, "p": dict(p, model=model), "route": "tree", "perm_s": [0, 1, 2, 3, 4], "perm_c": [0, 1, 2, 3],
                         "joins": [[0, 0], [1, 0], [0, 1], [0, 0]], "calendar": False, "batch": {"S": 1 + k % 3, "mask": mask, "jit": [0.3, -0.7, 0.5, 0.9, -0.2, 0.6, -0.4]},
                         "kind": kind, "grid_param": False,
                         "ex": {"order": ["ad_first", "fd_first"][k % 2], "sep": 0.01, "layers": [0, 1, 0, 2], "flip": [False, True], "aff": [[0.2, 1.3]],
                                "picks": [k, 1 + k, 2, 3], "dir": [0.3, -0.7, 0.5, 0.9, -0.2, 0.6]}}
                    if temp:
                        c["temperature"] = temp
                    out.append({"what": "coal", "case": c})
    return out


MIXED_BODIES = {"coal": lambda c: body_coal(c), "like": lambda c: body_like(c), "gmrf": lambda c: body_gmrf(c), "bdsk": lambda c: body_bdsk(c),
                "priors": lambda c: body_priors(c), "dist": lambda c: body_dist(c), "joint": lambda c: body_joint(c)}


def body_mixed(c):
    """one group of parameters carries a sample dimension, another does not: the sum over the samples is differentiated with respect to the
    unbatched parameters, and (the samples being evaluated independently) with respect to every sample's own slice of the batched ones.
    A shape combination the library does not support may raise (C10's subject): counted, not a violation."""
    from vt.runner import guarded, raises_kind

    res, exc = guarded(MIXED_BODIES[c["what"]], c["case"])
    if exc is not None:
        return Res(nontrivial=False, labels=("unsupported_shape:" + c["what"], "raises:" + raises_kind(exc)[:90]), tags={"cls": c["what"]})
    if isinstance(res.labels, dict):
        res.labels = dict(res.labels)
        res.labels["density=" + c["what"]] = 1
    return res


# =========================================================================== registration
def selftest():
    numdiff.selftest()
    # separation: order preserved, gaps respected
    out = separate({0: 1.0, 1: 1.0, 2: 1.0000001, 3: 2.0}, [0.0, 1.05, 2.0], 0.1)
    v = [out[k] for k in range(4)]
    assert v == sorted(v) and min(np.diff(v)) >= 0.1 - 1e-12, v
    assert all(abs(x - f) >= 0.1 - 1e-12 for x in v for f in (0.0, 1.05, 2.0)), v
    # a transform chain reproduces the requested values
    for dom, vals, low in (("pos", [0.3, 20.0], None), ("unit", [0.2, 0.9], None), ("simplex", [0.1, 0.2, 0.7], None), ("real", [-2.0, 3.0], None), ("lower", [2.5, 7.0], 2.0)):
        for layers in (1, 2):
            for flip in (False, True):
                chain = chain_for(dom, layers, flip, [0.4, -1.7], vals, low)
                spec = wrap_parameter(tt.P("p", vals), chain, False)
                obj, _ = tt.build(spec)
                got = arr(obj.tensor).reshape(-1)
                assert np.allclose(got, vals, rtol=1e-10, atol=1e-12), (dom, layers, flip, got.tolist())
    # the spectrum classifier
    Q, pi = OL.q_model({"name": "GTR", "rates": [1.0] * 6, "freqs": [0.1, 0.2, 0.3, 0.4]})
    assert min_rel_gap(Q, pi) < 1e-12
    Q, pi = OL.q_model({"name": "GTR", "rates": [0.5, 1.7, 0.8, 1.1, 2.3, 1.0], "freqs": [0.1, 0.2, 0.3, 0.4]})
    assert min_rel_gap(Q, pi) > 1e-3


def _pre(cls_of):
    return lambda c: {"cls": cls_of(c)}


def subchecks(tier):
    return [
        Sub("likelihood", body_like, strategy=like_cases, quick=440, thorough=14000, pretags=like_pretags),
        Sub("coalescent", body_coal, strategy=coal_cases, quick=360, thorough=10000, pretags=lambda c: {"cls": c08.CLS[c["p"]["model"]]}),
        Sub("skyline", body_bdsk, strategy=bdsk_cases, quick=160, thorough=5000, pretags=_pre(lambda c: "BDSKModel")),
        Sub("gmrf", body_gmrf, strategy=gmrf_cases, quick=300, thorough=8000, pretags=_pre(lambda c: c["what"])),
        Sub("priors", body_priors, strategy=prior_cases, quick=200, thorough=6000, pretags=_pre(lambda c: c["what"])),
        Sub("distributions", body_dist, strategy=dist_cases, quick=160, thorough=5000, pretags=_pre(lambda c: c["what"])),
        Sub("jacobian", body_jacobian, strategy=jacobian_cases, quick=240, thorough=8000, pretags=_pre(lambda c: c["what"])),
        Sub("joint", body_joint, strategy=joint_cases, quick=150, thorough=5000, pretags=lambda c: dict(like_pretags(c), cls="JointDistributionModel")),
        Sub("mixed_shapes", body_mixed, strategy=mixed_cases, enumerate=mixed_enumerated, quick=260, thorough=8000, pretags=lambda c: {"cls": c["what"]}, raising_is_failure=False),
        Sub("underflow_fallback", body_underflow, enumerate=underflow_cases, exhaustive=True, pretags=lambda c: dict(like_tags(c), fallback=True)),
        Sub("degenerate_start", body_degenerate, enumerate=degenerate_cases, exhaustive=True, pretags=degenerate_tags),
    ]
