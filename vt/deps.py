"""Offline installation of hypothesis (into /venv) and scipy (into /verif/.deps)."""
import importlib.util
import os
import subprocess
import sys

HERE = os.path.dirname(os.path.dirname(os.path.abspath(__file__)))
DEPS = os.path.join(HERE, ".deps")
WHEELS = "/opt/veriftools/wheels"


def _have(mod):
    return importlib.util.find_spec(mod) is not None


def ensure(verbose=False):
    if DEPS not in sys.path:
        sys.path.insert(1, DEPS)
    env = dict(os.environ, PIP_NO_INDEX="1")
    if not _have("hypothesis"):
        subprocess.run(
            [sys.executable, "-m", "pip", "install", "-q", "--no-index",
             "--find-links", WHEELS, "hypothesis"], check=True, env=env)
        importlib.invalidate_caches()
    if not _have("scipy"):
        os.makedirs(DEPS, exist_ok=True)
        subprocess.run(
            [sys.executable, "-m", "pip", "install", "-q", "--no-index", "--no-deps",
             "--find-links", WHEELS, "--target", DEPS, "scipy"], check=True, env=env)
        importlib.invalidate_caches()
    if verbose:
        import hypothesis, scipy  # noqa
        print("deps ok: hypothesis", hypothesis.__version__, "scipy", scipy.__version__)
